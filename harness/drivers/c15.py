"""C15 - ANTEX antenna files are parsed into exactly the calibrations they contain (DESIGN 4.15).

Proof obligations: coq/theories/Props/C15.v (model: Model/C15_Antex.v, lemmas: Proofs/C15_Antex.v).

Tie to the source, re-established on every run:
  * `regen`: the label/field tables of AntexParser.setup_parser() (header parser and antenna parser), the
    names of the parse methods they point to, the behaviour of the three lambdas (label, end_marker,
    skip_line) on a fixed list of probe lines and the constant Unit.millimeter2meter are re-read by
    reflection into Gen/C15_AntexFields.v; `antex_fields_wf` / `antex_lambdas_probe` are computed over them.
  * correspondence: ANTEX files rendered by the independent writer below (and the repository's example
    file) are parsed by the real `parsers.parse_file("antex", path)`; the text, the observed `as_dict()`
    (exact doubles) and the writer's ground truth are shipped to Coq, where the model reads the same text
    with the regenerated table and the comparison is made (check_file / check_truth)."""
from __future__ import annotations

import json
import os
from datetime import datetime, timedelta

from harness import core, emit

META = {
    "property_id": "C15",
    "level": "proof",
    "design_ref": "DESIGN.md 4.15",
    "technique": ("Coq proof (induction over line lists / frequency sections / antenna blocks) on an executable text-level model "
                  "of the ANTEX chain parser driven by the label/field table regenerated from the source; vm_compute "
                  "correspondence with midgard.parsers on files from an independent writer and the repository's example"),
    "level_text": (
        "Theorems in Coq 8.16 over a model of ChainParser.read_data/parse_line + AntexParser's parse methods that works on the "
        "text lines themselves (rstrip, label lambda, column slicing by the regenerated table, split, exact decimal values): "
        "for every antenna block with any number of frequency sections each frequency's azimuth pattern is exactly its own "
        "rows, its NOAZI row and offsets (mm x 1e-3) its own; grids follow DAZI and ZEN1/ZEN2/DZEN for any step; validity dates "
        "are the printed date plus the printed seconds; ignorable lines (comments, unknown labels, blank lines) never matter; "
        "duplicate antenna/validity keys are refused, distinct ones each appear once; reading the rendering of any well-formed "
        "file model gives back exactly that model - for the standard's table and, by a coverage theorem, for the table "
        "re-read from the source (any table whose slots contain the standard's columns and touch no other field reads "
        "rendered files alike); FREQ RMS sections never reach the result. Each quirk is refuted by a computed witness. The "
        "label/field table, lambdas and unit constant are re-read from /repo on every run; every generated file is also read "
        "by the model with that table inside Coq and compared with midgard's result and with the writer's ground truth."),
    "level_note": (
        "Trusted: Coq kernel + vm_compute; the hand-written model of the parse methods (validated by the correspondence); "
        "the reflection code and the independent ANTEX writer in harness/drivers/c15.py; Python float() is taken to return "
        "the double nearest to the printed decimal; individually calibrated receiver antennas of one type and value "
        "fields filling all 8 columns are outside the domain."),
}

THEOREMS = [
    "antex_fields_wf", "antex_lambdas_probe", "comments_ignored", "antex_file_roundtrip",
    "gen_table_reads_like_std", "antex_file_roundtrip_gen", "antenna_calibration_entry_point",
    "antex_file_roundtrip_with_comments", "frequency_section_spec", "frequency_pattern_shape", "grid_spec",
    "valid_from_until_spec", "calendar", "unique_keys", "duplicate_validity_refused", "pi_bracket",
    "c15_azi_accumulates_refuted", "c15_azi_strings_refuted", "c15_seconds_as_days_refuted",
    "c15_grid_count_float_refuted", "c15_sat_without_valid_from_refuted", "c15_valid_until_now_refuted",
]

REQ = "From Verif Require Import Lib.Dyadic Lib.Text Model.C15_Antex Model.C15_Check."
EPOCH = datetime(1970, 1, 1)

QUIRKS = {
    1: ("c15_azi_accumulates",
        "AntexParser never resets cache['azi'] between frequencies: frequency k's 'azi' carries the rows of all preceding frequencies"),
    2: ("c15_azi_strings",
        "AntexParser stores the azimuth-dependent rows as split strings: 'azi' is an array of str, not of numbers"),
    4: ("c15_seconds_as_days",
        "AntexParser adds the seconds of VALID FROM / VALID UNTIL as days (timedelta(float(second)))"),
    16: ("c15_sat_without_valid_from",
         "AntexParser.save_correction fails with UnboundLocalError ('dt') for a satellite antenna block without the optional "
         "VALID FROM record"),
    32: ("c15_valid_until_now",
         "AntexParser stamps a satellite validity period without VALID UNTIL with the time of parsing instead of "
         "datetime.max (still valid) - fixed in /repo 704e441, so this is a violation if it reappears"),
    8: ("c15_grid_count_float",
        "AntexParser builds the zenith/azimuth grid with numpy.arange on a floating-point step: for steps like 0.1 the grid has one point more than the pattern has columns"),
}

PROBE_LINES = [
    "", "   ", " " * 60 + "START OF ANTENNA", " " * 60 + "END OF ANTENNA", " " * 60 + "END OF ANTENNA      ",
    " " * 60 + "END OF HEADER", " " * 60 + "END OF HEADER       ", " " * 59 + "END OF ANTENNA", " " * 61 + "END OF ANTENNA",
    "     5.0" + " " * 52 + "DAZI", "     5.0" + " " * 52 + "DAZI                ",
    "     4" + " " * 54 + "# OF FREQUENCIES", "x" * 60 + "COMMENT", "x" * 60 + "comment", " " * 60 + "1OF", " " * 60 + "+X",
    "   NOAZI   -0.80   -0.90", "     0.0   +0.00   -0.09   -0.33   -0.68   -1.11   -1.57   -2.04   -2.49   -2.92",
    "   355.0" + "   -1.23" * 19, "   G01" + " " * 54 + "START OF FREQUENCY", "   G01" + " " * 54 + "END OF FREQUENCY",
    " " * 60 + " DAZI", " " * 60 + "#", " " * 60 + "_DAZI", "short", " " * 60 + "END OF ANTENNAS", " " * 60 + "END OF HEADERS",
    " " * 60 + "Z", " " * 60 + "z", " " * 60 + "@", " " * 60 + "[", " " * 60 + "`", " " * 60 + "{", " " * 60 + "A", " " * 60 + "a",
]


# ============================================================================= reflection -> Gen
def _parser_defs():
    from midgard.parsers.antex import AntexParser
    chain = iter(AntexParser(file_path=os.path.join(core.REPO, "tests", "parsers", "example_files", "antex")).setup_parser())
    header = next(chain)
    corr = next(chain)
    corr2 = next(chain)
    return header, corr, corr2


def _table_term(pdef, extras, tag):
    rows = []
    for label in sorted(pdef.parser_def):
        spec = pdef.parser_def[label]
        for k in spec:
            if k not in ("parser", "fields"):
                extras.append(f"{tag}:{label}:key {k}")
        fn = spec["parser"]
        pname = getattr(fn, "__name__", repr(fn))
        fields = spec["fields"]
        frows = []
        if not isinstance(fields, dict):
            extras.append(f"{tag}:{label}:fields are not a dict")
            fields = {}
        for name, idx in fields.items():
            ok = (isinstance(idx, tuple) and len(idx) == 2 and isinstance(idx[0], int) and idx[0] >= 0
                  and (idx[1] is None or (isinstance(idx[1], int) and idx[1] >= 0)))
            if not ok:
                extras.append(f"{tag}:{label}:{name}:slice {idx!r}")
                continue
            frows.append((idx[0], name, idx[1]))
        frows.sort(key=lambda r: (r[0], r[1]))
        fl = emit.lst(emit.pair(emit.s(n), emit.pair(emit.nat(a), emit.opt(None if b_ is None else emit.nat(b_))))
                      for a, n, b_ in frows)
        rows.append("   " + emit.pair(emit.s(str(label)), emit.pair(emit.s(pname), fl)))
    return "[\n" + ";\n".join(rows) + " ]"


def gen_text():
    from fractions import Fraction
    from midgard.math.unit import Unit
    header, corr, corr2 = _parser_defs()
    extras = []
    if corr2 is not corr and corr2.parser_def.keys() != corr.parser_def.keys():
        extras.append("chain: the antenna parser definitions differ between groups")
    if header.end_callback is not None or corr.end_callback is not None:
        extras.append("chain: end_callback is used")
    txt = "From Coq Require Import ZArith QArith List String.\nImport ListNotations.\nLocal Open Scope string_scope.\n"
    ty = "list (string * (string * list (string * (nat * option nat))))"
    txt += "(* AntexParser.setup_parser(): label -> (parse method, fields sorted by start column) of the antenna parser *)\n"
    txt += f"Definition antex_corr_table : {ty} :=\n{_table_term(corr, extras, 'corr')}.\n\n"
    txt += f"Definition antex_header_table : {ty} :=\n{_table_term(header, extras, 'header')}.\n\n"
    lab, end, skip, hend = [], [], [], []
    for ln in PROBE_LINES:
        r = ln.rstrip()
        try:
            lab.append(emit.pair(emit.s(ln), emit.s(str(corr.label(r, 1)))))
        except Exception as e:  # a lambda that crashes on a probe is a finding of the wf theorem
            lab.append(emit.pair(emit.s(ln), emit.s(f"<{type(e).__name__}>")))
        end.append(emit.pair(emit.s(ln), emit.b(bool(corr.end_marker(r, 1, "x")))))
        hend.append(emit.pair(emit.s(ln), emit.b(bool(header.end_marker(r, 1, "x")))))
        skip.append(emit.pair(emit.s(ln), emit.b(bool(corr.skip_line(r)) if corr.skip_line else False)))
    txt += "(* behaviour of the lambdas on probe lines (the line is rstripped first, as read_data does) *)\n"
    txt += "Definition antex_label_probes : list (string * string) :=\n " + emit.lst(lab) + ".\n"
    txt += "Definition antex_end_probes : list (string * bool) :=\n " + emit.lst(end) + ".\n"
    txt += "Definition antex_header_end_probes : list (string * bool) :=\n " + emit.lst(hend) + ".\n"
    txt += "Definition antex_skip_probes : list (string * bool) :=\n " + emit.lst(skip) + ".\n"
    txt += "(* exact value of the float Unit.millimeter2meter *)\n"
    txt += f"Definition antex_mm2m : Q := {emit.q(Fraction(float(Unit.millimeter2meter)))}.\n"
    txt += "(* features of the parser definition the model does not know (must be empty) *)\n"
    txt += "Definition antex_unmodelled : list string := " + emit.lst(emit.s(x) for x in extras) + ".\n"
    return txt


def regen(ctx):
    ctx.regen("C15_AntexFields", gen_text())


# ============================================================================= independent ANTEX writer
def fmt1(tenths):
    """tenths (int) -> 'd.d'"""
    sign = "-" if tenths < 0 else ""
    t = abs(tenths)
    return f"{sign}{t // 10}.{t % 10}"


def gen_value(rng, width=8):
    """a printed F8.2 value of at most 7 characters (one separating blank is required by the format)"""
    r = rng.random()
    if r < 0.05:
        return rng.choice(["+0.00", "-0.00", "0.00", "+0.01", "-0.01"])
    if r < 0.10:
        return rng.choice(["-999.99", "+999.99", "999.99", "-100.00", "99.99"])
    c = rng.randrange(-2500, 2500)
    s = f"{abs(c) // 100}.{abs(c) % 100:02d}"
    if c < 0:
        return "-" + s
    return ("+" + s) if rng.random() < 0.5 else s


def gen_offset(rng):
    r = rng.random()
    if r < 0.04:
        return rng.choice(["-123456.78", "1234567.89", "+999999.99", "-0.00", "0.00"])
    c = rng.randrange(-300000, 300000)
    s = f"{abs(c) // 100}.{abs(c) % 100:02d}"
    if c < 0:
        return "-" + s
    return ("+" + s) if rng.random() < 0.3 else s


def gen_seconds(rng):
    r = rng.random()
    if r < 0.45:
        return "0.0000000"
    if r < 0.8:
        return "59.9999999"
    return f"{rng.randrange(0, 60)}.{rng.randrange(0, 10 ** 7):07d}"


def gen_date(rng, lo=1980, hi=2035):
    y = rng.randrange(lo, hi)
    m = rng.randrange(1, 13)
    dim = [31, 29 if (y % 4 == 0 and (y % 100 != 0 or y % 400 == 0)) else 28, 31, 30, 31, 30, 31, 31, 30, 31, 30, 31][m - 1]
    d = rng.choice([1, dim, rng.randrange(1, dim + 1)])
    h = rng.choice([0, 23, rng.randrange(0, 24)])
    mi = rng.choice([0, 59, rng.randrange(0, 60)])
    return [str(y), str(m), str(d), str(h), str(mi), gen_seconds(rng)]


def date_us(tok):
    """exact microseconds x 10 (units of 1e-7 s) since 1970 of a printed date - used only to keep keys distinct"""
    y, m, d, h, mi = (int(x) for x in tok[:5])
    base = datetime(y, m, d, h, mi) - EPOCH
    sec = tok[5].split(".")
    return (base.days * 86400 + base.seconds) * 10 ** 7 + int(sec[0]) * 10 ** 7 + int(sec[1])


RECV = ["AERAT1675_120   SPKE", "TRM59800.00     NONE", "LEIAR25.R4      LEIT", "ASH701945E_M    SNOW", "JAV_RINGANT_G3T NONE",
        "TPSCR.G5        TPSH", "SEPCHOKE_B3E6   SPKE", "AOAD/M_T        NONE", "3S-02-TSADM     NONE", "JAVRINGANT_DM   JVDM"]
SATS = [("BLOCK IIA", "G", "G0"), ("BLOCK IIR-M", "G", "G0"), ("GLONASS-M", "R", "R7"), ("GALILEO-2", "E", "E2"),
        ("BEIDOU-3M-CAST", "C", "C2"), ("QZSS-2G", "J", "J0")]
FREQS = ["G01", "G02", "G05", "R01", "R02", "E01", "E05", "E07", "E08", "E06", "C02", "C07", "J01", "S01"]


ROWS_BUDGET = 110
DAZI10_COMMON = [0, 0, 0, 900, 900, 300, 300, 100, 50]
# every DAZI (in tenths of a degree) that divides 360 and fits the F6.1 field
DAZI10_ALL = [0, 5, 10, 20, 25, 30, 50, 75, 100, 120, 150, 225, 300, 450, 600, 720, 900, 1200, 1800, 3600]


def gen_file_model(rng, big_ok=True):
    """ground truth of one file: list of antenna dicts with tokens as printed"""
    n_ant = rng.choice([1, 2, 2, 3, 3, 4, 5, 6])
    ants = []
    used_recv = set()
    used_sat = {}
    prns = [f"{s}{n:02d}" for s in "GREC" for n in (1, 2, 13)]
    rows_budget = ROWS_BUDGET
    no_from = set()
    no_from_ok = rng.random() < 0.2        # one file in five may contain a satellite block without VALID FROM
    with_rms = rng.random() < 0.15
    for _ in range(n_ant):
        is_sat = rng.random() < 0.5
        a = {}
        if is_sat:
            typ, sysc, svn = rng.choice(SATS)
            prn = rng.choice([p for p in prns if p[0] == sysc] or prns) if rng.random() < 0.6 else rng.choice(prns)
            a["type"], a["serial"] = typ, prn
            a["sat"] = f"{svn}{rng.randrange(10, 99)}"
            a["cospar"] = f"{rng.randrange(1990, 2025)}-{rng.randrange(1, 100):03d}{rng.choice('ABC')}"
            if rng.random() < 0.15:
                a["cospar"] = ""              # the COSPAR ID is optional
            # several validity periods per PRN: distinct VALID FROM; the record is optional (at most one block per PRN
            # without it: validity from the beginning)
            if no_from_ok and prn not in no_from and rng.random() < 0.5:
                no_from.add(prn)
                no_from_ok = False
                a["from"] = None
                a["until"] = None if rng.random() < 0.5 else gen_date(rng)
            else:
                while True:
                    vf = gen_date(rng)
                    if date_us(vf) // 10 not in {x // 10 + k for x in used_sat.get(prn, set()) for k in (-1, 0, 1)}:
                        break
                used_sat.setdefault(prn, set()).add(date_us(vf))
                a["from"] = vf
                r = rng.random()
                a["until"] = None if r < 0.3 else gen_date(rng, int(vf[0]), 2040)
        else:
            cand = [t for t in RECV if t not in used_recv]
            if not cand:
                continue
            typ = rng.choice(cand)
            used_recv.add(typ)
            a["type"], a["serial"], a["sat"], a["cospar"] = typ, "", "", ""
            # individual calibration: serial number in columns 21-40 (still keyed by type)
            if rng.random() < 0.2:
                a["serial"] = f"{rng.randrange(1000, 99999)}"
            a["from"] = gen_date(rng) if rng.random() < 0.15 else None
            a["until"] = gen_date(rng) if rng.random() < 0.1 else None
        # DAZI: 0 (no azimuth dependence) or any step that divides 360 and fits F6.1, fractional ones included
        dazi10 = rng.choice(DAZI10_COMMON if rng.random() < 0.55 else DAZI10_ALL)
        if is_sat and rng.random() < 0.5:
            dazi10 = 0
        n_freq = rng.choice([1, 2, 2, 3, 4, 5])
        # zenith grid
        dz10 = rng.choice([50, 50, 50, 10, 10, 5, 20, 25, 100, 150, 300, 1, 2, 3, 6])
        nz = rng.randrange(1, 20)
        z1_10 = rng.choice([0, 0, 0, dz10, 2 * dz10])
        while z1_10 + (nz - 1) * dz10 > 900:
            nz -= 1
        nz = max(nz, 1)
        n_az = 0 if dazi10 == 0 else 3600 // dazi10 + 1
        if n_az >= 13:
            nz = min(nz, 9)
        while n_freq * n_az > rows_budget and n_freq > 1:
            n_freq -= 1
        if n_freq * n_az > rows_budget:
            if rows_budget == ROWS_BUDGET and n_az > ROWS_BUDGET:
                # one fine azimuth grid (0.5 .. 3 degrees: 121 .. 721 rows) per file, with a narrow pattern
                nz = min(nz, 2)
                rows_budget = n_freq * n_az
            else:
                dazi10 = rng.choice([d for d in DAZI10_ALL if d and (3600 // d + 1) * n_freq <= rows_budget] or [3600])
                n_az = 3600 // dazi10 + 1
        rows_budget = max(rows_budget - n_freq * n_az, 10)
        a["dazi"] = fmt1(dazi10)
        a["zen1"], a["zen2"], a["dzen"] = fmt1(z1_10), fmt1(z1_10 + (nz - 1) * dz10), fmt1(dz10)
        a["nfreq"] = str(n_freq)
        codes = rng.sample(FREQS, n_freq)
        a["freqs"] = []
        for code in codes:
            f = {"code": code, "neu": [gen_offset(rng) for _ in range(3)], "noazi": [gen_value(rng) for _ in range(nz)], "rows": []}
            for k in range(n_az):
                f["rows"].append((fmt1(k * dazi10), [gen_value(rng) for _ in range(nz)]))
            a["freqs"].append(f)
        # FREQ RMS sections (standard deviations; same layout, never part of the result) after the frequency sections
        a["rms"] = []
        if with_rms and n_freq * n_az * 2 <= 120:
            for code in codes[: rng.randrange(1, n_freq + 1)]:
                a["rms"].append({"code": code, "neu": [gen_offset(rng) for _ in range(3)],
                                 "noazi": [gen_value(rng) for _ in range(nz)],
                                 "rows": [(fmt1(k * dazi10), [gen_value(rng) for _ in range(nz)]) for k in range(n_az)]})
        ants.append(a)
    if not ants:
        return gen_file_model(rng)
    return ants


def directed_models():
    """Files that are read on every run, before the random stream (fixed content, independent of VERIF_SEED)."""
    r = __import__("random").Random(1515)

    def ant(typ, serial, sat, cospar, vfrom, until, codes, dazi10=0, nz=3):
        n_az = 0 if dazi10 == 0 else 3600 // dazi10 + 1
        fr = [{"code": c, "neu": [gen_offset(r) for _ in range(3)], "noazi": [gen_value(r) for _ in range(nz)],
               "rows": [(fmt1(k * dazi10), [gen_value(r) for _ in range(nz)]) for k in range(n_az)]} for c in codes]
        return {"type": typ, "serial": serial, "sat": sat, "cospar": cospar, "from": vfrom, "until": until,
                "dazi": fmt1(dazi10), "zen1": "0.0", "zen2": fmt1((nz - 1) * 10), "dzen": "1.0", "nfreq": str(len(codes)),
                "freqs": fr, "rms": []}

    def d(y, m, dd, h=0, mi=0, s="0.0000000"):
        return [str(y), str(m), str(dd), str(h), str(mi), s]

    files = []
    # several validity periods of one PRN, not in chronological order: a non-final period without VALID UNTIL, a
    # period that overlaps its successor, a period without VALID FROM; a second PRN in between
    files.append(("validity_periods", [
        ant("BLOCK IIR-M", "G01", "G049", "2009-014A", d(2009, 3, 24), None, ["G01", "G02"]),
        ant("BLOCK IIA", "G01", "G032", "1992-079A", d(1992, 11, 22), d(2009, 6, 30, 23, 59, "59.9999999"), ["G01", "G02"]),
        ant("GLONASS-M", "R01", "R730", "2009-070A", d(2009, 12, 14), None, ["R01"]),
        ant("BLOCK IIF", "G01", "G063", "2011-036A", d(2011, 7, 16), d(2040, 1, 1), ["G01", "G02", "G05"], dazi10=900),
        ant("BLOCK I", "G01", "G001", "1978-020A", None, None, ["G01"]),
    ]))
    # satellite sections whose optional COSPAR ID is blank - two of one block type - next to complete ones and a
    # receiver antenna of a type that looks like a block type
    files.append(("blank_cospar_id", [
        ant("BEIDOU-3M-CAST", "C19", "C201", "", d(2017, 11, 5), None, ["C02", "C07"]),
        ant("BEIDOU-3M-CAST", "C20", "C202", "", d(2017, 11, 5), d(2030, 1, 1), ["C02", "C07"]),
        ant("BEIDOU-3M-CAST", "C21", "C206", "2018-018A", d(2018, 2, 12), None, ["C02"]),
        ant("BEIDOU-3M-CAST", "C19", "C215", "", d(2025, 1, 1), None, ["C02"], dazi10=1800),
        ant("TRM59800.00     NONE", "", "", "", None, None, ["G01", "C02"], dazi10=900),
    ]))
    return files


def lab(body, label, pad):
    line = body.ljust(60)[:60] + label
    return line.ljust(80) if pad else line


def comment(rng, pad):
    text = rng.choice(["# Number of Calibrated Antennas GPS:      001", "ATTENTION! ROUNDED BLOCK MEAN Z-OFFSET VALUE!",
                       "", "   NOAZI  -1.00  not a correction row", "END OF ANTENNA", "1992    11    22     0     0    0.0000000"])
    return lab(text, "COMMENT", pad)


def render(rng, ants, decor=True):
    """ANTEX 1.4 text of the model (fixed-column layout of the standard) with optional lines a reader must ignore"""
    pad = decor and rng.random() < 0.6
    L = []

    def deco(p=0.12):
        if decor and rng.random() < p:
            L.append(rng.choice([comment(rng, pad), comment(rng, pad), "", "   " if pad else ""]))

    L.append(lab("     1.4            M", "ANTEX VERSION / SYST", pad))
    L.append(lab("A", "PCV TYPE / REFANT", pad))
    if decor:
        for _ in range(rng.randrange(0, 4)):
            L.append(comment(rng, pad))
    L.append(lab("", "END OF HEADER", pad))
    for a in ants:
        deco()
        L.append(lab("", "START OF ANTENNA", pad))
        L.append(lab(a["type"].ljust(20) + a["serial"].ljust(20) + a["sat"].ljust(10) + a["cospar"].ljust(10), "TYPE / SERIAL NO", pad))
        if decor and rng.random() < 0.7:
            L.append(lab("ROBOT               Geo++ GmbH               1    04-AUG-14", "METH / BY / # / DATE", pad))
        deco()
        L.append(lab("  " + a["dazi"].rjust(6), "DAZI", pad))
        deco()
        L.append(lab("  " + a["zen1"].rjust(6) + a["zen2"].rjust(6) + a["dzen"].rjust(6), "ZEN1 / ZEN2 / DZEN", pad))
        L.append(lab(a["nfreq"].rjust(6), "# OF FREQUENCIES", pad))
        for key, label in (("from", "VALID FROM"), ("until", "VALID UNTIL")):
            if a[key] is not None:
                t = a[key]
                L.append(lab("".join(x.rjust(6) for x in t[:5]) + t[5].rjust(13), label, pad))
        if decor and rng.random() < 0.7:
            L.append(lab("IGS14_2000", "SINEX CODE", pad))
        deco(0.3)
        for f in a["freqs"]:
            L.append(lab("   " + f["code"].ljust(3), "START OF FREQUENCY", pad))
            deco(0.08)
            L.append(lab("".join(x.rjust(10) for x in f["neu"]), "NORTH / EAST / UP", pad))
            L.append("   NOAZI" + "".join(x.rjust(8) for x in f["noazi"]))
            for az, vals in f["rows"]:
                deco(0.01)
                L.append(az.rjust(8) + "".join(x.rjust(8) for x in vals))
            L.append(lab("   " + f["code"].ljust(3), "END OF FREQUENCY", pad))
            deco(0.08)
        for f in a["rms"]:
            L.append(lab("   " + f["code"].ljust(3), "START OF FREQ RMS", pad))
            L.append(lab("".join(x.rjust(10) for x in f["neu"]), "NORTH / EAST / UP", pad))
            deco(0.08)
            L.append("   NOAZI" + "".join(x.rjust(8) for x in f["noazi"]))
            for az, vals in f["rows"]:
                L.append(az.rjust(8) + "".join(x.rjust(8) for x in vals))
            L.append(lab("   " + f["code"].ljust(3), "END OF FREQ RMS", pad))
        L.append(lab("", "END OF ANTENNA", pad))
    deco()
    return L


# ============================================================================= observation
def us_of(dt):
    d = dt - EPOCH
    return (d.days * 86400 + d.seconds) * 1000000 + d.microseconds


def observe(path, entry="parser"):
    """(obs term, summary for replays, now bracket).  entry: "parser" = parsers.parse_file("antex", path).as_dict(),
    "calibration" = the other way into the same data, midgard.gnss.antenna_calibration.AntennaCalibration(path).data"""
    import numpy as np
    from midgard import parsers
    t_lo = us_of(datetime.now())
    try:
        if entry == "calibration":
            from midgard.gnss.antenna_calibration import AntennaCalibration
            d = AntennaCalibration(file_path=path).data
        else:
            d = parsers.parse_file("antex", path).as_dict()
    except Exception as e:
        t_hi = us_of(datetime.now())
        return f"(ObsErr {emit.s(type(e).__name__)})", {"exception": f"{type(e).__name__}: {e}"}, (t_lo, t_hi)
    t_hi = us_of(datetime.now())
    entries, summary = [], {}

    def floats(x):
        arr = np.asarray(x)
        if arr.ndim != 1 or arr.dtype.kind != "f":
            return None
        return emit.lst(emit.dy(float(v)) for v in arr)

    def entry(ant, vf, e):
        fr = []
        sm = {}
        for k, v in e.items():
            if not isinstance(v, dict):
                continue
            neu = floats(np.array(v.get("neu", []), dtype=float)) or "[]"
            noazi = floats(v.get("noazi", np.array([0], dtype=int))) or "[DNaN]"
            if "azi" not in v:
                azi, sh = "OAziNone", None
            else:
                arr = np.asarray(v["azi"])
                sh = (list(arr.shape), str(arr.dtype))
                if arr.ndim == 2 and arr.dtype.kind == "f":
                    azi = "(OAziF " + emit.lst(emit.lst(emit.dy(float(x)) for x in row) for row in arr) + ")"
                elif arr.ndim == 2 and arr.dtype.kind == "U":
                    azi = "(OAziS " + emit.lst(emit.lst(emit.s(str(x)) for x in row) for row in arr) + ")"
                else:
                    azi = "OAziOther"
            fr.append(f"(Build_obs_freq {emit.s(str(k))} {neu} {noazi} {azi})")
            sm[str(k)] = {"neu": [float(x) for x in v.get("neu", [])], "noazi_len": len(v.get("noazi", [])), "azi": sh}
        sat = "None"
        if "sat_code" in e:
            vu = e.get("valid_until")
            sat = (f"(Some (Build_obs_sat {emit.s(str(e.get('cospar_id')))} {emit.s(str(e.get('sat_code')))} "
                   f"{emit.s(str(e.get('sat_type')))} {emit.zs(us_of(vu) if isinstance(vu, datetime) else -1)}))")
            sm["valid_until"] = str(vu)
        el = "None" if "elevation" not in e else emit.opt(floats(e["elevation"]) or "[DNaN]")
        az = "None" if "azimuth" not in e else emit.opt(floats(e["azimuth"]) or "[DNaN]")
        sm["elevation_len"] = None if "elevation" not in e else len(e["elevation"])
        sm["azimuth_len"] = None if "azimuth" not in e else len(e["azimuth"])
        entries.append(f"(Build_obs_entry {emit.s(ant)} {emit.opt(None if vf is None else emit.zs(us_of(vf)))} {sat} {el} {az} "
                       + emit.lst(fr) + ")")
        summary[f"{ant}@{vf}"] = sm

    for ant, v in d.items():
        dts = [k for k in v if isinstance(k, datetime)]
        if any(isinstance(k, str) and isinstance(x, dict) for k, x in v.items()) or not dts:
            entry(str(ant), None, {k: x for k, x in v.items() if not isinstance(k, datetime)})
        for k in dts:
            entry(str(ant), k, v[k])
    return "(ObsOk " + emit.lst(entries) + ")", summary, (t_lo, t_hi)


# ============================================================================= terms
def lines_term(lines):
    return emit.lst(emit.s(l) for l in lines)


def model_term(ants):
    out = []
    def freq_terms(fl):
        fs = []
        for f in fl:
            rows = emit.lst(emit.pair(emit.s(az), emit.lst(emit.s(x) for x in vals)) for az, vals in f["rows"])
            fs.append(f"(Build_freq_m {emit.s(f['code'])} {emit.s(f['neu'][0])} {emit.s(f['neu'][1])} {emit.s(f['neu'][2])} "
                      f"{emit.lst(emit.s(x) for x in f['noazi'])} {rows})")
        return emit.lst(fs)

    for a in ants:

        def date(t):
            return emit.opt(None if t is None else emit.lst(emit.s(x) for x in t))
        out.append(f"(Build_ant_m {emit.s(a['type'])} {emit.s(a['serial'])} {emit.s(a['sat'])} {emit.s(a['cospar'])} "
                   f"{emit.s(a['dazi'])} {emit.s(a['zen1'])} {emit.s(a['zen2'])} {emit.s(a['dzen'])} {emit.s(a['nfreq'])} "
                   f"{date(a['from'])} {date(a['until'])} {freq_terms(a['freqs'])} {freq_terms(a['rms'])})")
    return emit.lst(out)


def file_case(ctx, lines, name):
    path = os.path.join(ctx.work, name)
    with open(path, "w", encoding="ascii", newline="\n") as f:
        f.write("\n".join(lines) + "\n")
    obs, summary, (lo, hi) = observe(path)
    term = emit.pair(lines_term(lines), emit.pair(emit.zs(lo), emit.zs(hi)), obs)
    # second entry point: AntennaCalibration(path).data must be the same calibrations.  Its observation is shipped to
    # Coq as a case of its own unless it is literally the same term (then the verdict is the same by construction).
    obs2, summary2, (lo2, hi2) = observe(path, entry="calibration")
    extra = None
    if obs2 != obs:
        extra = (emit.pair(lines_term(lines), emit.pair(emit.zs(lo2), emit.zs(hi2)), obs2), summary2)
    return term, summary, extra


# ============================================================================= the run
def mask_names(k):
    return [QUIRKS[b][0] for b in (1, 2, 4, 8, 16, 32) if k & b]


def run(ctx):
    regen(ctx)
    ok = ctx.prove(THEOREMS)
    rng = ctx.rng
    n_files = 100 if ctx.quick() else 600

    cases, truths, metas = [], [], []
    extras = []

    def second_entry(extra, rep):
        if extra is not None:
            extras.append((extra[0], dict(rep, kind=rep["kind"] + ":antenna_calibration", observed=extra[1],
                                          how="write the lines to a file; midgard.gnss.antenna_calibration."
                                              "AntennaCalibration(file_path=path).data")))
            ctx.count("entry:antenna_calibration_differs_from_parser")
        else:
            ctx.count("entry:antenna_calibration_same_term")

    # the repository's own example first
    ex = os.path.join(core.REPO, "tests", "parsers", "example_files", "antex")
    if os.path.exists(ex):
        with open(ex, encoding="ascii", errors="replace") as f:
            lines = f.read().split("\n")
        if lines and lines[-1] == "":
            lines.pop()
        term, summary, extra0 = file_case(ctx, lines, "example.atx")
        cases.append(term)
        truths.append(None)
        metas.append(dict(kind="example_file", file="tests/parsers/example_files/antex", observed=summary))
        second_entry(extra0, metas[-1])
        ctx.count("file:example")
        ctx.case(("example",), nontrivial=True, sample=dict(kind="example_file", observed=summary))
    import random as _random
    for name, ants in directed_models():
        lines = render(_random.Random(7), ants, decor=False)
        term, summary, extra = file_case(ctx, lines, f"directed_{name}.atx")
        cases.append(term)
        truths.append(emit.pair(model_term(ants), lines_term(lines)))
        metas.append(dict(kind="directed_file", name=name, lines=lines, observed=summary,
                          how="write the lines to a file; midgard.parsers.parse_file('antex', path).as_dict()"))
        second_entry(extra, metas[-1])
        ctx.count("file:directed:" + name)
        ctx.case(("directed", name), nontrivial=True)
    for i in range(n_files):
        ants = gen_file_model(rng)
        rms = any(a["rms"] for a in ants)
        decor = rng.random() < 0.85
        lines = render(rng, ants, decor=decor)
        term, summary, extra = file_case(ctx, lines, f"f{i:05d}.atx")
        cases.append(term)
        truths.append(emit.pair(model_term(ants), lines_term(lines)))
        metas.append(dict(kind="generated_file", index=i, lines=lines, observed=summary, rms_sections=rms,
                          how="write the lines to a file; midgard.parsers.parse_file('antex', path).as_dict()"))
        second_entry(extra, metas[-1])
        nf = max(len(a["freqs"]) for a in ants)
        ctx.count(f"antennas:{len(ants)}")
        ctx.count(f"max_freqs:{nf}")
        if rms:
            ctx.count("file:with_freq_rms_sections")
        for a in ants:
            ctx.count(f"dazi:{a['dazi']}")
            ctx.count("kind:" + ("satellite" if a["sat"] else "receiver"))
            ctx.count("dzen:" + a["dzen"])
            for k in ("from", "until"):
                if a["sat"]:
                    ctx.count(f"valid_{k}:" + ("absent" if a[k] is None else ("0s" if a[k][5] == "0.0000000" else
                                                                               "59.9999999s" if a[k][5] == "59.9999999" else "other")))
        ctx.case(("gen", tuple(lines)), nontrivial=nf >= 2 or len(ants) >= 2,
                 sample=dict(kind="generated_file", antennas=[(a["type"], a["serial"], a["dazi"], a["zen1"], a["zen2"], a["dzen"],
                                                               [f["code"] for f in a["freqs"]]) for a in ants]) if i < 3 else None)

    for term, rep in extras:
        cases.append(term)
        truths.append(None)
        metas.append(rep)
        ctx.case(("calibration", rep.get("name"), rep.get("index")), nontrivial=True)
    size = 3 if ctx.quick() else 8
    vs = ctx.coq_cases(emit.shard_terms("check_file", cases, size), REQ, timeout=1500)
    flat = emit.flatten_verdicts(vs, len(cases))
    errs_file = list(ctx.last_coq_errors)
    tcases = [t for t in truths if t is not None]
    tmeta = [m for t, m in zip(truths, metas) if t is not None]
    vt = ctx.coq_cases(emit.shard_terms("check_truth", tcases, size), REQ, timeout=1500)
    flat_t = emit.flatten_verdicts(vt, len(tcases))

    if flat is None or flat_t is None:
        ctx.violation({"broken": "correspondence shards did not evaluate in Coq", "errors": (errs_file + list(ctx.last_coq_errors))[:3]},
                      what="correspondence (model evaluation) failed", found=False)
    else:
        for v, rep in zip(flat, metas):
            if v == 0:
                continue
            if v >= 16:
                for b in (1, 2, 4, 8, 16, 32):
                    if (v - 16) & b:
                        ctx.count("quirk:" + QUIRKS[b][0])
                        ctx.finding(QUIRKS[b][0], QUIRKS[b][1], dict(rep, verdict=v, quirks=mask_names(v - 16)))
            else:
                ctx.violation(dict(rep, verdict=v), what="midgard's result for this ANTEX file differs from the model "
                              "(with and without the known quirks) reading the same text")
        for v, rep in zip(flat_t, tmeta):
            if v == 0:
                continue
            if v == 3:
                ctx.violation(dict(rep, verdict=v), what="harness defect: independent writer and Coq rendering disagree", found=False)
            else:
                ctx.violation(dict(rep, verdict=v), what="with the current label/field table the specification model does not "
                              "read this file into the calibrations it contains")

    if not ok and not ctx.violations:
        ctx.obligations_broken(lambda: None)
    ctx.trusted += [
        "Coq 8.16.1 kernel, coqc, vm_compute (no native_compute)",
        "hand-written model coq/theories/Model/C15_Antex.v of AntexParser's parse methods and ChainParser.read_data/parse_line "
        "(validated against midgard by this run's correspondence); label/field table, lambdas' probe behaviour and "
        "Unit.millimeter2meter regenerated by reflection",
        "harness/drivers/c15.py: reflection, independent ANTEX writer, observation of as_dict(), term emission",
        "Python float()/int() return the correctly rounded / exact value of a decimal numeral",
    ]
    ctx.assume += [
        "a satellite block without VALID FROM is valid from datetime.min (at most one such block per PRN)",
        "receiver antenna types are unique in a file (the parser keys receivers by type only)",
        "correction values are separated by at least one blank (at most 7 characters in an F8.2 field)",
        "valid_until absent = datetime.max (still valid), compared exactly",
    ]
    return ctx.finish(
        level="proof",
        rule=("the repository's example + files from an independent writer: 1..6 antennas (receiver/satellite mixed, several "
              "validity periods per PRN), 1..5 frequencies, DAZI 0 or any divisor of 360 that fits F6.1 (0.5 .. 360, fractional steps 0.5/2.5/7.5/22.5 included), zenith grids with steps 0.1..30 and 1..19 "
              "points, VALID FROM/UNTIL with 0 / 59.9999999 / random seconds or absent (also for satellites), comments/blank "
              "lines/unknown records anywhere, padded or unpadded lines, FREQ RMS sections (with ground truth); distinct_nontrivial = distinct files with >= 2 "
              "antennas or >= 2 frequencies"),
    )


def replay(ctx, path):
    rep = json.load(open(path))
    if "lines" in rep:
        p = os.path.join(ctx.work, "replay.atx")
        with open(p, "w") as f:
            f.write("\n".join(rep["lines"]) + "\n")
        obs, summary, _ = observe(p)
        print("file written to", p)
        print("observed now:", json.dumps(summary, indent=1, default=str)[:4000])
        print("recorded    :", json.dumps(rep.get("observed"), indent=1, default=str)[:4000])
    else:
        print(json.dumps(rep, indent=1)[:6000])
    print("re-run: VERIF_SEED=%s /venv/bin/python run_check.py C15 %s" % (rep.get("seed"), rep.get("tier", "quick")))
    return 0

