"""C04 - time arrays under derivation histories (DESIGN 4.4).

Proof obligations: coq/theories/Props/C04.v (model: Model/C04_TimeArray.v).
Correspondence: operation histories (bounded-exhaustive trees + long random sequences) are run on the
real midgard Time arrays; after every step the object obtained (values, jd1, jd2, len, a derived format,
fmt, scale) is shipped to Coq, where the specification model and the model variants with the quirk
switches are evaluated on the same history and compared (vm_compute)."""
from __future__ import annotations

import copy
import json
import multiprocessing as mp
import os
import random
import struct
import sys

import numpy as np

from harness import core, emit

META = {
    "property_id": "C04",
    "level": "proof",
    "design_ref": "DESIGN.md 4.4",
    "technique": "Coq proof (induction over operation histories) on a hand model of TimeBase + vm_compute correspondence "
                 "with midgard.data.time on bounded-exhaustive history trees and random histories",
    "level_text": (
        "Theorems in Coq 8.16 over an executable model of TimeBase.__getitem__/__array_finalize__/subset/insert/"
        "__copy__/__deepcopy__/to_scale/to_format/__eq__/__hash__: for every operation history every array of the "
        "specification model is aligned (values, jd1, jd2 are the images of one list of source indices; len = number of "
        "epochs), writes fail without changing anything, earlier reads never change a later result, eq implies equal hash; "
        "the model with the source's hand-over mechanism (quirk switches) is refuted by computed witnesses and proved equal "
        "to the specification on histories without a stale hand-over.  The model is tied to the code on every run: "
        "history trees (all sequences up to a bound over an operation alphabet, arrays of 1..6 epochs, jd and gps_ws "
        "formats) and random histories are run on midgard and compared step by step with specification and quirk "
        "variants inside Coq."),
    "level_note": (
        "Trusted: Coq kernel + vm_compute; the hand-written model (validated by the correspondence, not derived); NumPy's "
        "view/finalize dispatch is modelled, not proved; doubles are shipped as tokens numbering their exact bit patterns "
        "(data only moves, comparison = identity of bit patterns); formats/scale conversions enter as elementwise tables "
        "read off a fresh array; lifting flags.writeable or writing __dict__ directly is outside the property."),
}

THEOREMS = [
    "aligned_all_histories", "length_is_epochs", "immutable", "objects_never_change", "history_independent",
    "eq_hash", "F_agrees_when_fresh", "c04_side_channel_refuted", "c04_cache_refuted", "c04_rebuild_refuted",
    "c04_eq_broadcast_refuted", "c04_eq_instant_refuted", "eq_hash_instant",
]

REQ = "From Verif Require Import Model.C04_TimeArray."

# "cacheshape": memoization keyed by value *and shape* (after the repair of __eq__/__hash__): equal arrays of the same shape
# still share the to_scale result object, which is observable only through the hand-over slot -> class of c04_side_channel
QUIRK_IDS = {"side": "c04_side_channel", "cache": "c04_jd_keyed_cache", "rebuild": "c04_gpsws_scalar_rebuild",
             "cacheshape": "c04_side_channel"}
# Model/C04_TimeArray.v `variants` (verdict v >= 2 -> VARIANTS[v - 1])
VARIANTS = [(), ("side",), ("cache",), ("rebuild",), ("side", "cacheshape"), ("side", "cache"), ("side", "rebuild"),
            ("cache", "rebuild"), ("side", "cacheshape", "rebuild"), ("side", "cache", "rebuild")]
WHAT = {
    "c04_side_channel": "TimeBase.__getitem__ leaves jd[item] in _jd1_sliced/_jd2_sliced on the parent; a later view()/tuple "
                        "index of that parent takes the stale slice: values and jd1/jd2 of the result are not aligned",
    "c04_jd_keyed_cache": "to_scale/to_format are lru_cache'd with __hash__/__eq__ that look at the jd bytes only: an array "
                          "with the same jd's but another shape (t[0] vs t[0:1]) gets the first caller's result",
    "c04_gpsws_scalar_rebuild": "a single gps_ws epoch cannot be rebuilt from its values: copy/deepcopy/subset(int) of "
                                "t[i] raise ValueError",
    "c04_eq_broadcast": "__eq__ broadcasts (t[[0,0]] == t[0] is True) while __hash__ hashes the bytes: equal arrays with "
                        "different hashes",
    "c04_npint_bare_float": "t[np.int32(i)] (any NumPy integer scalar other than np.int64, or a 0-d integer array) on a 1-column "
                            "format returns a bare numpy.float64 instead of a Time: __getitem__ tests isinstance(item, (int, np.int_))",
    "c04_gpsws_element_columns": "a single gps_ws epoch t[i] (shape (3,)) can be sliced / fancy-indexed along its columns: "
                                 "t[i][0:1] is a 'Time' holding one bare number with the jd of the epoch",
    "c04_insert_gpsws_other_fmt": "TimeArray.insert(a, pos, b) with a in gps_ws and b in another format inserts the converted "
                                  "(week, seconds, day) columns as rows: garbage values, 3 rows per call, or ValueError",
    "c04_scalar_rebuild_object_formats": "a single epoch in datetime / isot (and iso, yday, date, yydddsssss, decimalyear) format "
                                         "cannot be rebuilt from its 0-d value: copy/deepcopy/subset(int) of t[i] raise TypeError",
    "c04_hash_python_float": "a single Time built from one datetime keeps jd1/jd2 as Python floats; it equals the element t[0] of "
                             "an array (numpy.float64) but __hash__ hashes str() of the one and the bytes of the other",
    "c04_insert_into_rebuilt_empty_text": "TimeArray.insert(a, pos, b) raises when a is an empty datetime / text array that was rebuilt "
                                          "(subset selecting nothing, copy, ...): its values are float64, np.insert cannot put "
                                          "datetimes / strings into them",
    "c04_delattr_allowed": "__setattr__ is blocked but __delattr__ is not: `del t.fmt` succeeds and breaks the array",
}

FMT_TAG = {"jd": 0, "mjd": 1, "gps_ws": 2, "days": 3, "seconds": 4, "datetime": 5, "isot": 6}
# configurations whose root has near-coincident distinct epochs (1 / 5 / 10 / 20 microseconds apart) and exact duplicates:
# "datetime", "isot" and the other formats with a trailing "~"; the derived format read off every object is .datetime
NEAR_FMTS = ("datetime", "isot", "jd~", "mjd~", "gps_ws~")
NEAR_OFFSETS_US = (0, 10, 11, 0, 16, 36)
DELTA_FMTS = ("days", "seconds")
TEXT_FMTS = ("datetime", "isot")      # formats whose values are not floats


# ----------------------------------------------------------------------------- configurations
class Cfg:
    """One root array: n epochs, format, the two scales of the history."""

    def __init__(self, n, fmt):
        self.n, self.name = n, fmt
        self.near = fmt in NEAR_FMTS
        fmt = fmt.rstrip("~")
        self.fmt = fmt
        self.delta = fmt in DELTA_FMTS          # TimeDelta arrays: same base class, no scale conversions registered
        self.has_conv = not self.delta
        self.inverse_ok = (not self.delta) and fmt != "gps_ws"     # insert of scale-1 objects into scale-0 arrays is modelled
        self.der = "mjd"                        # the derived format read off every object
        if fmt == "gps_ws":
            self.scales = ("gps", "utc")
        elif self.delta:
            self.scales = ("utc", None)
            self.der = "seconds" if fmt == "days" else "days"
        else:
            self.scales = ("utc", "tai")
        if self.near:
            self.der = "datetime"

    def array_cls(self):
        from midgard.data._time import TimeArray, TimeDeltaArray
        return TimeDeltaArray if self.delta else TimeArray

    def key(self):
        return (self.n, self.name)

    def root(self):
        from midgard.data.time import Time, TimeDelta
        n = self.n
        if self.near:
            from datetime import datetime, timedelta
            epochs = [datetime(2020, 3, 1, 12, 0, 30) + timedelta(microseconds=NEAR_OFFSETS_US[k]) for k in range(n)]
            t = Time(epochs, scale=self.scales[0], fmt="datetime")
            return t if self.fmt == "datetime" else type(t).from_jds(t.jd1, t.jd2, self.fmt)
        if self.fmt == "days":
            return TimeDelta(np.array([1.0 + 3 * k + (k + 1) / 8 for k in range(n)]), scale="utc", fmt="days")
        if self.fmt == "seconds":
            return TimeDelta(np.array([86400.0 * (1 + 3 * k) + 10800.0 * (k + 1) for k in range(n)]), scale="utc", fmt="seconds")
        if self.fmt == "jd":
            return Time(np.array([2458849.5 + 3 * k + (k + 1) / 8 for k in range(n)]), scale="utc", fmt="jd")
        if self.fmt == "mjd":
            return Time(np.array([58849.0 + 3 * k + (k + 1) / 8 for k in range(n)]), scale="utc", fmt="mjd")
        return Time(np.array([2000.0 + k for k in range(n)]), val2=np.array([10800.0 * (k + 1) + 86400.0 * k for k in range(n)]),
                    scale="gps", fmt="gps_ws")

    def how(self):
        n = self.n
        if self.near:
            return (f"t = Time([datetime(2020, 3, 1, 12, 0, 30) + timedelta(microseconds=us) for us in "
                    f"{list(NEAR_OFFSETS_US[:n])}], scale={self.scales[0]!r}, fmt='datetime'); o0 = "
                    + ("t" if self.fmt == "datetime" else f"type(t).from_jds(t.jd1, t.jd2, {self.fmt!r})"))
        if self.fmt == "days":
            return f"o0 = TimeDelta(np.array([1.0 + 3*k + (k+1)/8 for k in range({n})]), scale='utc', fmt='days')"
        if self.fmt == "seconds":
            return f"o0 = TimeDelta(np.array([86400.0*(1 + 3*k) + 10800.0*(k+1) for k in range({n})]), scale='utc', fmt='seconds')"
        if self.fmt == "jd":
            return f"o0 = Time(np.array([2458849.5 + 3*k + (k+1)/8 for k in range({n})]), scale='utc', fmt='jd')"
        if self.fmt == "mjd":
            return f"o0 = Time(np.array([58849.0 + 3*k + (k+1)/8 for k in range({n})]), scale='utc', fmt='mjd')"
        return (f"o0 = Time(np.array([2000.0 + k for k in range({n})]), val2=np.array([10800.0*(k+1) + 86400.0*k for k in "
                f"range({n})]), scale='gps', fmt='gps_ws')")


_LRU = None


def clear_caches():
    """Reset every functools.lru_cache of the midgard package (found by type, not by name: to_scale/_to_scale/
    to_format/... may be renamed or moved), so that a history starts from the state of a fresh interpreter."""
    global _LRU
    if _LRU is None:
        import functools
        import gc
        import midgard.data._time  # noqa: F401  (make sure the wrappers exist)
        wrapper_t = type(functools.lru_cache()(lambda: None))
        _LRU = [o for o in gc.get_objects() if type(o) is wrapper_t
                and str(getattr(o, "__module__", "")).startswith("midgard")]
    for f in _LRU:
        f.cache_clear()


class TablesError(Exception):
    """a fresh root (or its conversion) is not an elementwise array: no tables for the model"""


def isolation_selftest():
    """After a history that leaves 0-d results in midgard's memoization, clear_caches() must give back the
    behaviour of a fresh interpreter.  Returns None if it does, else a description."""
    from midgard.data.time import Time
    mk = lambda: Time(np.array([2458849.625]), scale="utc", fmt="jd")
    clear_caches()
    t = mk()
    a = t[0]
    a.mjd, a.utc
    old = a.tai
    clear_caches()
    t2 = mk()
    bad = []
    if np.ndim(t2.mjd) != 1:
        bad.append("to_format result of an earlier 0-d object is served to a fresh array")
    if np.ndim(np.asarray(t2.tai)) != 1 or t2.tai is old:
        bad.append("to_scale result of an earlier 0-d object is served to a fresh array")
    if t2.utc is not t2:
        bad.append("own-scale access of a fresh array returns an earlier object")
    clear_caches()
    return "; ".join(bad) or None


# ----------------------------------------------------------------------------- tokens / observation
class Tok:
    """Numbers every distinct value: doubles by bit pattern, datetimes and strings by value."""

    def __init__(self):
        self.d = {}
        self.vals = []

    def __call__(self, x):
        if isinstance(x, np.ndarray) and x.ndim == 0:
            x = x.item()
        if isinstance(x, (float, int, np.floating, np.integer)):
            b = struct.pack("<d", float(x))
            shown = float(x)
        else:
            if isinstance(x, (np.str_, str)):
                x = str(x)
            b = (type(x).__name__, x)
            shown = str(x)
        t = self.d.get(b)
        if t is None:
            t = len(self.vals) + 1
            self.d[b] = t
            self.vals.append(shown)
        return t


class OutOfModel(Exception):
    pass


class Mixed(Exception):
    """jd1 scalar and jd2 an array (or the reverse)"""


def observe(o, cfg, tok, der=True):
    """Canonical observation of a Time object: (scalar, rows, jd1, jd2, len, der, fmt, scale); jd's/der are
    ('S', tok) or ('A', (tok, ...))."""
    fmt = o.fmt
    if fmt not in FMT_TAG:
        raise OutOfModel(f"fmt {fmt!r}")
    ncols = 3 if fmt == "gps_ws" else 1
    arr = np.asarray(o)
    if arr.dtype != np.float64 and not (fmt in ("datetime", "isot") and arr.dtype.kind in "OU"):
        raise OutOfModel(f"dtype {arr.dtype}")
    if ncols == 1:
        if arr.ndim > 1:
            raise OutOfModel(f"shape {arr.shape}")
        scalar = arr.ndim == 0
        rows = tuple((tok(x),) for x in arr.reshape(-1).tolist())
    else:
        if arr.ndim not in (1, 2) or arr.shape[-1] != 3:
            raise OutOfModel(f"shape {arr.shape}")
        scalar = arr.ndim == 1
        rows = tuple(tuple(tok(x) for x in r) for r in arr.reshape(-1, 3))

    def jo(x):
        if x is None:
            raise OutOfModel("None jd")
        a = np.asarray(x)
        if a.ndim == 0:
            return ("S", tok(a))
        if a.ndim != 1:
            raise OutOfModel(f"jd shape {a.shape}")
        return ("A", tuple(tok(v) for v in a))
    try:
        scale = cfg.scales.index(o.scale)
    except ValueError:
        raise OutOfModel(f"scale {o.scale!r}")
    j1, j2 = jo(o.jd1), jo(o.jd2)
    if j1[0] != j2[0]:
        raise Mixed()
    if der and getattr(cfg, "near", False):
        # the scale conversions read time.mjd through the same value-keyed memoization: keep its entries in step with
        # those of the derived format that is observed (the model has one to_format cache)
        o.mjd
    d = jo(getattr(o, getattr(cfg, "der", "mjd"))) if der else None
    return (bool(scalar), rows, jo(o.jd1), jo(o.jd2), int(len(o)), d, FMT_TAG[fmt], scale)


def jo_term(j):
    return f"(S1 {j[1]})" if j[0] == "S" else "(A1 " + emit.lst(str(t) for t in j[1]) + ")"


def oobs_term(ob):
    sc, rows, j1, j2, ln, d, f, s = ob
    return ("(mkO " + emit.b(sc) + " " + emit.lst(emit.lst(str(t) for t in r) for r in rows) + " " + jo_term(j1) + " "
            + jo_term(j2) + f" {ln} " + jo_term(d) + f" {f} {s})")


def obsres_term(r):
    if r[0] == "mixed":
        return "OMixed"
    if r[0] == "nottime":
        return "ONotTime"
    if r[0] == "err":
        return "OErr"
    if r[0] == "obj":
        return "(OObj " + oobs_term(r[1]) + ")"
    return "(OList " + emit.lst(oobs_term(x) for x in r[1]) + ")"


# ----------------------------------------------------------------------------- operations
def pyitem(it, as_array=False):
    k = it[0]
    if k == "int":
        return it[1]
    if k == "slice":
        return slice(it[1], it[2], it[3])
    if k == "mask":
        return np.array(it[1], dtype=bool)
    if k == "take":
        return np.array(it[1], dtype=int) if as_array else list(it[1])
    raise ValueError(it)


def item_term(it):
    k = it[0]
    if k == "int":
        return f"(IInt {emit.z(it[1])})"
    if k == "slice":
        o = lambda x: "None" if x is None else f"(Some {emit.z(x)})"
        return f"(ISlice {o(it[1])} {o(it[2])} {emit.z(it[3])})"
    if k == "mask":
        return "(IMask " + emit.lst(emit.b(x) for x in it[1]) + ")"
    return "(ITake " + emit.lst(emit.z(x) for x in it[1]) + ")"


def item_src(it):
    k = it[0]
    if k == "int":
        return str(it[1])
    if k == "slice":
        f = lambda x: "" if x is None else str(x)
        return f"{f(it[1])}:{f(it[2])}:{f(it[3])}"
    if k == "mask":
        return "np.array(" + repr([bool(x) for x in it[1]]) + ")"
    return repr(list(it[1]))


def op_term(op):
    k = op[0]
    n = lambda x: f"{x}%nat"
    if k == "get":
        return f"(Get {n(op[1])} {item_term(op[2])})"
    if k == "gett":
        return f"(GetT {n(op[1])} {item_term(op[2])})"
    if k == "subset":
        return f"(Subset {n(op[1])} {item_term(op[2])})"
    if k == "insert":
        return f"(Insert {n(op[1])} {emit.z(op[2])} {n(op[3])})"
    if k == "scale":
        return f"(Scale {n(op[1])} {op[2]})"
    if k == "write":
        return f"(Write {n(op[1])} {op[2]})"
    return "(" + {"iter": "Iter", "view": "View", "copy": "Copy", "deepcopy": "Deepcopy"}[k] + " " + n(op[1]) + ")"


def op_src(op, i, cfg):
    """Python source of step i (result named o<i>)."""
    k, t = op[0], f"o{op[1]}"
    r = f"o{i}"
    if k == "get":
        return f"{r} = {t}[{item_src(op[2])}]"
    if k == "gett":
        return f"{r} = {t}[(slice(%r, %r, %r),)]" % tuple(op[2][1:])
    if k == "iter":
        return f"{r} = list({t})"
    if k == "view":
        return f"{r} = {t}.view()"
    if k == "copy":
        return f"{r} = copy.copy({t})"
    if k == "deepcopy":
        return f"{r} = copy.deepcopy({t})"
    if k == "subset":
        return f"{r} = {t}.subset({item_src(op[2]) if op[2][0] != 'slice' else 'slice(%r, %r, %r)' % tuple(op[2][1:])}, {{}})"
    if k == "insert":
        return f"{r} = TimeArray.insert({t}, {op[2]}, o{op[3]}, {{}})"
    if k == "scale":
        return f"{r} = {t}.{cfg.scales[op[2]]}"
    return f"{r} = <write attempt {op[2]} on {t}>  # {WRITE_SRC.get(op[2], '')}"


WRITE_SRC = {0: "o[0] = 1.0", 1: "o.fmt = 'mjd'", 2: "o.jd1[...] = 1.0", 3: "o.val[...] = 1.0", 4: "o += 1.0",
             5: "o.jd2 = o.jd1", 6: "del o.fmt", 7: "o.sort()", 8: "o.fill(1.0)", 9: "o.jd2[...] = 1.0",
             10: "o.jd1[...] += 0.25", 11: "o.jd2[...] += 0.25", 12: "np.asarray(o)[...] = 1.0",
             13: "o.jd1[0] = 1.0 (o.jd1[()] for a 0-d jd)", 14: "np.copyto(o.jd2, 1.0)"}


def do_write(o, w):
    if w == 0:
        o[0 if np.ndim(o) else ()] = 1.0
    elif w == 1:
        o.fmt = "mjd"
    elif w == 2:
        o.jd1[...] = 1.0
    elif w == 3:
        o.val[...] = 1.0
    elif w == 4:
        o += 1.0
    elif w == 5:
        o.jd2 = o.jd1
    elif w == 6:
        del o.fmt
    elif w == 7:
        o.sort()
    elif w == 8:
        o.fill(1.0)
    elif w == 9:
        o.jd2[...] = 1.0
    elif w == 10:
        o.jd1[...] += 0.25
    elif w == 11:
        o.jd2[...] += 0.25
    elif w == 12:
        np.asarray(o)[...] = 1.0
    elif w == 13:
        o.jd1[0 if np.ndim(o.jd1) else ()] = 1.0
    elif w == 14:
        np.copyto(o.jd2, 1.0)
    else:
        raise ValueError(w)


class NotATime(Exception):
    pass


def apply_op(op, objs, cfg):
    from midgard.data._time import TimeArray
    k = op[0]
    o = objs[op[1]]
    if k == "get":
        return o[pyitem(op[2], as_array=(len(op) > 3))]
    if k == "gett":
        return o[(pyitem(op[2]),)]
    if k == "iter":
        return list(o)
    if k == "view":
        return o.view()
    if k == "copy":
        return copy.copy(o) if len(op) < 3 else o.copy()
    if k == "deepcopy":
        return copy.deepcopy(o)
    if k == "subset":
        return o.subset(pyitem(op[2]), {})
    if k == "insert":
        return cfg.array_cls().insert(o, op[2], objs[op[3]], {})
    if k == "scale":
        return getattr(o, cfg.scales[op[2]])
    if k == "write":
        do_write(o, op[2])
        raise NotATime("write attempt did not raise")
    raise ValueError(op)


class History:
    """Runs a history on midgard. objs[i] = object named i (0 = root)."""

    def __init__(self, cfg, tok):
        from midgard.data._time import TimeBase
        self.TimeArray = TimeBase
        clear_caches()
        self.cfg, self.tok = cfg, tok
        root = cfg.root()
        self.objs = [root]
        self.rootobs = observe(root, cfg, tok)
        self.birth = [self.rootobs[:5] + self.rootobs[6:]]
        self.nobs = 1          # objects whose derived format was read (lru_cache holds 128)

    def step(self, op):
        """returns (obsres, changed) ; obsres = ('err',) | ('obj', oobs) | ('list', [oobs]) | ('other', text)"""
        cfg, tok = self.cfg, self.tok
        mark = False
        if op[0] == "insert" and cfg.fmt in TEXT_FMTS:
            # class of c04_insert_into_rebuilt_empty_text, decided on the real objects before the call
            try:
                a, b_ = self.objs[op[1]], self.objs[op[3]]
                va = np.asarray(a)
                mark = (va.ndim >= 1 and va.shape[0] == 0 and va.dtype.kind == "f" and np.asarray(b_).size > 0)
            except Exception:
                mark = False
        try:
            r = apply_op(op, self.objs, cfg)
        except NotATime as e:
            res = ("other", str(e))
            r = None
        except Exception:
            res = ("err",)
            r = None
        else:
            try:
                if isinstance(r, list):
                    if not all(isinstance(x, self.TimeArray) for x in r):
                        raise OutOfModel("iteration yields non-Time elements")
                    res = ("list", [observe(x, cfg, tok) for x in r])
                    self.nobs += len(r)
                elif isinstance(r, self.TimeArray):
                    ob = observe(r, cfg, tok)
                    res = ("obj", ob)
                    self.objs.append(r)
                    self.birth.append(ob[:5] + ob[6:])
                    self.nobs += 1
                else:
                    raise OutOfModel(f"result of type {type(r).__name__}")
            except Mixed:
                res = ("mixed",)
            except OutOfModel as e:
                res = ("other", str(e))
            except Exception as e:
                res = ("other", f"observation failed: {type(e).__name__}: {e}")
        changed = []
        n_old = len(self.objs) - (1 if res[0] == "obj" else 0)
        for i in range(n_old):
            try:
                now = observe(self.objs[i], cfg, tok, der=False)
                now = now[:5] + now[6:]
            except Exception as e:
                now = ("broken", str(e))
            if now != self.birth[i]:
                changed.append(i)
        if mark and res[0] == "err" and not changed:
            changed = [-1]
        return res, changed

    def summary(self, k):
        """(scalar, rows, scale) of object k - what the alphabet depends on."""
        b = self.birth[k]
        return b[0], len(b[1]), b[6]


def build_tables(cfg, tok):
    """elementwise tables from a fresh root: (scale, fmt, jd pair) -> row, jd pair -> converted pair,
    (scale, jd pair) -> mjd; format after conversion."""
    clear_caches()
    try:
        chain = [cfg.root()]
        obs = [observe(chain[0], cfg, tok)]
        if cfg.has_conv:
            # root -> scale 1 (-> scale 0 -> scale 1 ... until the round trip reproduces itself: the conversions are not
            # exact inverses of each other, inserts between the scales can pile them up)
            for i in range(1, 8 if cfg.inverse_ok else 2):
                nxt = getattr(chain[-1], cfg.scales[i % 2])
                ob = observe(nxt, cfg, tok)
                chain.append(nxt)
                obs.append(ob)
                if i >= 3 and ob[2:4] == obs[i - 2][2:4]:
                    break
    except (Mixed, OutOfModel) as e:
        raise TablesError(f"fresh root {cfg.how()} / its scale conversions: {type(e).__name__} {e}")
    finally:
        clear_caches()
    vj, cv, cvi, dv = {}, {}, {}, {}
    for ob in obs:
        sc, rows, j1, j2, ln, d, f, s = ob
        if not (j1[0] == j2[0] == d[0] == "A" and len(rows) == len(j1[1]) == len(j2[1]) == len(d[1]) == cfg.n):
            raise TablesError(f"fresh root {cfg.how()} (scale tag {s}): observation {ob!r} is not an array of {cfg.n} "
                              "aligned epochs")
        for k in range(cfg.n):
            vj.setdefault((s, f, (j1[1][k], j2[1][k])), rows[k])
            dv.setdefault((s, (j1[1][k], j2[1][k])), d[1][k])
    for i in range(1, len(obs)):
        tab = cv if i % 2 == 1 else cvi
        for k in range(cfg.n):
            tab.setdefault((obs[i - 1][2][1][k], obs[i - 1][3][1][k]), (obs[i][2][1][k], obs[i][3][1][k]))
    fmt_to = [(obs[0][6], obs[1][6] if len(obs) > 1 else obs[0][6])]
    pairs = lambda tab: emit.lst(f"(({a}, {b_}), ({c}, {d_}))" for (a, b_), (c, d_) in tab.items())
    t = ("(mkT " + emit.lst(f"(({s}, {f}, ({a}, {b_})), {emit.lst(str(x) for x in row)})" for (s, f, (a, b_)), row in vj.items())
         + " " + pairs(cv) + " " + pairs(cvi) + " "
         + emit.lst(f"(({s}, ({a}, {b_})), {v})" for (s, (a, b_)), v in dv.items()) + " "
         + emit.lst(f"({a}, {b_})" for a, b_ in fmt_to) + " " + emit.b(cfg.scales == ("utc", "tai")) + ")")
    return t


# ----------------------------------------------------------------------------- alphabets
def alt_mask(m, first=True):
    return tuple((i % 2 == 0) == first for i in range(m))


def ops_for(k, summ, cfg, rich, nobjs):
    scalar, m, scale = summ
    ops = []
    if scalar:
        # a single epoch: view / copy / scale work, every kind of indexing, iteration, subset, insert-into must raise
        ops += [("view", k), ("copy", k), ("get", k, ("int", 0)), ("iter", k)]
        if scale == 0 and cfg.has_conv:
            ops.append(("scale", k, 1))
        if rich:
            ops += [("deepcopy", k), ("scale", k, scale), ("write", k, 1), ("subset", k, ("slice", 0, 1, 1)),
                    ("insert", k, 0, k)]
            if cfg.fmt != "gps_ws":
                ops += [("get", k, ("slice", 0, 1, 1)), ("get", k, ("take", (0,))), ("get", k, ("mask", (True,))),
                        ("gett", k, ("slice", 0, 1, 1))]
        return ops
    ops += [("get", k, ("int", 0)), ("get", k, ("int", -1)), ("get", k, ("slice", 1, None, 1)),
            ("get", k, ("slice", None, None, -1)), ("get", k, ("mask", alt_mask(m))),
            ("get", k, ("take", (m - 1, 0))), ("gett", k, ("slice", None, 2, 1)),
            ("iter", k), ("view", k), ("copy", k), ("subset", k, ("mask", tuple(i > 0 or m == 1 for i in range(m)))),
            ("insert", k, 1 if m >= 1 else 0, 0 if scale == 0 else k)]
    if scale == 0:
        ops.append(("scale", k, 1 if cfg.has_conv else 0))
    else:
        ops.append(("insert", k, 1 if m >= 1 else 0, 0))      # insert the root (other scale) into a converted array
    ops.append(("write", k, 0))
    if rich:
        ops += [("deepcopy", k), ("get", k, ("slice", None, None, 2)), ("get", k, ("int", m)),
                ("get", k, ("take", (0, 0))), ("subset", k, ("take", (m - 1,))), ("subset", k, ("slice", 0, -1, 1)),
                ("scale", k, scale), ("insert", k, -1, k), ("write", k, 1), ("write", k, 2), ("write", k, 3),
                ("write", k, 4)]
    return ops


def cross_b(h, cfg, k):
    """names that can be inserted into array k although they are in the other scale (insert converts them): arrays, and
    single epochs whose derived format is not served in array shape by the value-keyed cache (that combination gives
    jd1 scalar / jd2 array inside the conversion: outside the model)"""
    if not cfg.has_conv:
        return []
    sk = h.summary(k)[2]
    if sk == 0 and not cfg.inverse_ok:
        return []
    out = []
    for i in range(len(h.objs)):
        sc_i, m_i, s_i = h.summary(i)
        if s_i == sk:
            continue
        if sc_i:
            try:
                if np.ndim(getattr(h.objs[i], cfg.der)) != 0:
                    continue
            except Exception:
                continue
        out.append(i)
    return out


def child_ops(h, cfg, rich):
    n = len(h.objs)
    targets = [0] if n == 1 else [0, n - 1]
    ops = []
    for k in targets:
        summ = h.summary(k)
        ops += ops_for(k, summ, cfg, rich, n)
        if not summ[0]:
            # the most recent array and the most recent single epoch of the other scale
            cb = cross_b(h, cfg, k)
            arrs = [i for i in cb if not h.summary(i)[0]]
            els = [i for i in cb if h.summary(i)[0]]
            for i in arrs[-1:] + els[-1:]:
                op = ("insert", k, 1 if summ[1] >= 1 else 0, i)
                if op not in ops:
                    ops.append(op)
    return ops


def random_item(rng, m):
    r = rng.random()
    if r < 0.3:
        return ("int", rng.choice([0, -1, rng.randrange(-m - 1, m + 2)]))
    if r < 0.6:
        return ("slice", rng.choice([None, 0, 1, -1, rng.randrange(-m - 1, m + 2)]),
                rng.choice([None, m, -1, 2, rng.randrange(-m - 1, m + 2)]), rng.choice([1, 1, 2, -1, -2, 3]))
    if r < 0.8:
        mm = m if rng.random() < 0.9 else m + 1
        return ("mask", tuple(rng.random() < 0.6 for _ in range(mm)))
    return ("take", tuple(rng.randrange(-m, m) if (m and rng.random() < 0.95) else m for _ in range(rng.randrange(0, 4))))


def random_op(rng, h, cfg):
    n = len(h.objs)
    k = rng.choice([0, n - 1, rng.randrange(n)])
    scalar, m, scale = h.summary(k)
    if scalar:
        c = rng.choice(["view", "copy", "deepcopy", "scale", "scale", "write", "insb", "insb", "idx0d"])
        if c == "idx0d":
            # indexing / iterating / subsetting a single epoch must raise (gps_ws: only the forms that do not select columns)
            forms = [("get", k, ("int", rng.choice([0, -1, 1]))), ("iter", k), ("subset", k, ("slice", 0, 1, 1)),
                     ("insert", k, 0, k)]
            if h.birth[k][5] != FMT_TAG["gps_ws"]:
                forms += [("get", k, ("slice", None, None, 1)), ("get", k, ("take", (0,))), ("get", k, ("mask", (True,))),
                          ("gett", k, ("slice", 0, 1, 1)), ("subset", k, ("take", (0,)))]
            return rng.choice(forms)
        if c == "scale":
            return ("scale", k, rng.choice([scale, 1]) if (scale == 0 and cfg.has_conv) else scale)
        if c == "write":
            return ("write", k, rng.choice([1, 2, 3, 5, 9, 12, 13]))
        if c == "insb":
            # insert this scalar into an array of the same scale / format
            cands = [i for i in range(n) if not h.summary(i)[0] and h.summary(i)[2] == scale
                     and h.birth[i][5] == h.birth[k][5]]
            cands += [i for i in range(n) if not h.summary(i)[0] and k in cross_b(h, cfg, i)]
            if cands:
                a = rng.choice(cands)
                return ("insert", a, rng.randrange(-1, 2), k)
            return ("view", k)
        return (c, k)
    c = rng.choice(["get", "get", "get", "get", "gett", "iter", "view", "view", "copy", "deepcopy", "subset", "insert",
                    "scale", "write"])
    if c == "get":
        it = random_item(rng, m)
        if it[0] == "take" and rng.random() < 0.3:
            return ("get", k, it, "array")
        return ("get", k, it)
    if c == "gett":
        it = random_item(rng, m)
        while it[0] != "slice":
            it = random_item(rng, m)
        return ("gett", k, it)
    if c == "subset":
        it = random_item(rng, m)
        if it[0] == "int" and rng.random() < 0.7:
            it = ("mask", tuple(rng.random() < 0.6 for _ in range(m)))
        return ("subset", k, it)
    if c == "insert":
        cands = [i for i in range(n) if h.summary(i)[2] == scale and h.birth[i][5] == h.birth[k][5]]
        if m == 0 and cfg.fmt in ("datetime", "isot"):
            # an empty text / datetime array holds float64 values (np.array([])): np.insert of strings into it raises.
            # Noted in design/C04.md, not generated.
            return ("view", k)
        other = cross_b(h, cfg, k)          # objects of the other scale: insert converts them
        if other and rng.random() < 0.6:
            cands = other
        return ("insert", k, rng.randrange(-m - 1, m + 2), rng.choice(cands))
    if c == "scale":
        return ("scale", k, rng.choice([scale, 1]) if (scale == 0 and cfg.has_conv) else scale)
    if c == "write":
        return ("write", k, rng.choice([0, 1, 2, 2, 3, 4, 5, 7, 8, 9, 9, 10, 11, 12, 13, 14]))
    if c == "copy" and rng.random() < 0.5:
        return ("copy", k, "method")
    return (c, k)


# ----------------------------------------------------------------------------- tree / sequence tasks (worker side)
def run_prefix(cfg, tok, ops):
    h = History(cfg, tok)
    last = None
    for op in ops:
        last = h.step(op)
    return h, last


def build_tree(cfg, tok, prefix, depth, rich_levels, meta):
    """Node terms for all children of `prefix` (which has been run already as part of its own node)."""
    h, _ = run_prefix(cfg, tok, prefix)
    rich = len(prefix) < rich_levels
    terms = []
    for op in child_ops(h, cfg, rich):
        terms.append(node_term(cfg, tok, prefix + [op], depth, rich_levels, meta))
    return terms


def node_term(cfg, tok, path, depth, rich_levels, meta):
    h, (res, changed) = run_prefix(cfg, tok, path)
    meta.append((tuple(path), res if res[0] == "other" else None, tuple(changed)))
    kids = []
    if len(path) < depth and res[0] not in ("other", "mixed") and h.nobs < 110:
        rich = len(path) < rich_levels
        for op in child_ops(h, cfg, rich):
            kids.append(node_term(cfg, tok, path + [op], depth, rich_levels, meta))
    ob = "OErr" if res[0] == "other" else obsres_term(res)
    return ("(Node " + op_term(path[-1]) + " " + ob + " "
            + emit.lst(emit.z(c) for c in changed) + " " + emit.lst(kids) + ")")


def case_term(cfg, tok, rootobs, tries):
    tables = build_tables(cfg, tok)
    js = emit.lst(f"({a}, {b_})" for a, b_ in zip(rootobs[2][1], rootobs[3][1]))
    return f"({tables}, {FMT_TAG[cfg.fmt]}, {js}, {oobs_term(rootobs)}, {emit.lst(tries)})"


def _task_tree(args, want_paths=False):
    """one subtree: config + first operation.  Returns (case term, depths of the nodes in preorder (bytes),
    {preorder index: (outside-model text, changed names)} for the nodes where these are not empty).
    With want_paths: the list of paths in preorder instead (the enumeration is deterministic)."""
    n, fmt, first, depth, rich_levels = args
    cfg = Cfg(n, fmt)
    tok = Tok()
    meta = []
    h = History(cfg, tok)
    rootobs = h.rootobs
    t = node_term(cfg, tok, [first], depth, rich_levels, meta)
    if want_paths:
        return [m[0] for m in meta]
    exc = {i: (o, c) for i, (p, o, c) in enumerate(meta) if o is not None or c}
    return case_term(cfg, tok, rootobs, [t]), bytes(len(p) for p, _, _ in meta), exc


def _task_random(args):
    """one random history.  Returns (case term, meta)."""
    n, fmt, seed, length = args
    cfg = Cfg(n, fmt)
    tok = Tok()
    rng = random.Random(seed)
    h = History(cfg, tok)
    rootobs = h.rootobs
    meta = []
    nodes = []
    path = []
    for _ in range(length):
        op = random_op(rng, h, cfg)
        res, changed = h.step(op)
        path.append(op)
        meta.append((tuple(path), res if res[0] == "other" else None, tuple(changed)))
        nodes.append((op, res, changed))
        if res[0] in ("other", "mixed") or h.nobs > 100:
            break
    term = None
    for op, res, changed in reversed(nodes):
        ob = "OErr" if res[0] == "other" else obsres_term(res)
        opt = op_term(op)
        term = "(Node " + opt + " " + ob + " " + emit.lst(emit.z(c) for c in changed) + " " + emit.lst([term] if term else []) + ")"
    return case_term(cfg, tok, rootobs, [term] if term else []), meta


def _guard(fn, args):
    """A worker never raises: anything unexpected comes back as ('harness-error', kind, text) and is classified
    by run()."""
    import traceback
    try:
        return fn(args)
    except TablesError as e:
        return ("harness-error", "tables", str(e))
    except Exception as e:
        return ("harness-error", "exception", f"{type(e).__name__}: {e}\n{traceback.format_exc()[-1500:]}")


def task_tree(args, want_paths=False):
    if want_paths:
        return _task_tree(args, want_paths=True)
    return _guard(_task_tree, args)


def task_random(args):
    return _guard(_task_random, args)


def first_ops(cfg):
    tok = Tok()
    h = History(cfg, tok)
    return child_ops(h, cfg, True)


# ----------------------------------------------------------------------------- eq/hash and write attempts
def eqhash_cases(ctx, rng):
    """pairs of objects derived from one root: observed ==, equality of hashes."""
    cases, metas = [], []
    n_hist = 12 if ctx.quick() else 60
    for hi in range(n_hist):
        cfg = Cfg(rng.choice([1, 2, 3, 4]), rng.choice(["jd", "mjd", "gps_ws"]))
        if hi < 3:
            cfg = Cfg(*[(3, "jd"), (2, "mjd"), (3, "gps_ws")][hi])      # always present, whatever the seed
        tok = Tok()
        h = History(cfg, tok)
        pool = [h.objs[0]]
        srcs = ["o0"]
        m = cfg.n
        cand = [("get", 0, ("int", 0)), ("get", 0, ("slice", 0, 1, 1)), ("get", 0, ("take", (0, 0))),
                ("get", 0, ("take", (0,))), ("copy", 0), ("view", 0), ("get", 0, ("slice", None, None, -1)),
                ("scale", 0, 1), ("get", 0, ("int", -1)), ("get", 0, ("take", (0, 0, 0)))]
        rng.shuffle(cand)
        for i, op in enumerate(cand[: 7]):
            hh = History(cfg, tok)       # fresh root for every derivation: no stale hand-over here
            try:
                r = apply_op(op, hh.objs, cfg)
            except Exception:
                continue
            pool.append(r)
            srcs.append(op_src(op, len(pool) - 1, cfg).split(" = ", 1)[1].replace("o0", "root()"))
        # same jd1, other jd2 (same scale): an array a quarter of an hour later
        try:
            from midgard.data.time import Time
            r0 = cfg.root()
            if cfg.fmt == "gps_ws":
                sh = Time(np.asarray(r0)[:, 0], val2=np.asarray(r0)[:, 1] + 900.0, scale="gps", fmt="gps_ws")
            else:
                sh = Time(np.asarray(r0) + 1.0 / 64, scale="utc", fmt=cfg.fmt)
            pool.append(sh)
            srcs.append("<root shifted by 1/64 day (gps_ws: 900 s)>")
        except Exception:
            pass
        # nearly equal arrays: scale round trips (last bits of jd2 may change) and copies whose jd2 is moved by one
        # ulp / 1e-16 / 1e-15 day.  __eq__ must be exact equality of the jd pairs (eq => equal hash)
        clear_caches()
        r0 = cfg.root()
        trips = ([("tai", cfg.scales[0]), ("gps", cfg.scales[0]), ("tt", "tai", cfg.scales[0])] if cfg.scales[0] == "utc"
                 else [("utc", "gps"), ("tai", "gps"), ("tt", "tai", "gps")])
        for trip in trips:
            try:
                x = r0
                for sc in trip:
                    x = getattr(x, sc)
                if x.fmt != r0.fmt:
                    x = type(x).from_jds(x.jd1, x.jd2, r0.fmt)
                pool.append(x)
                srcs.append("root()." + ".".join(trip))
                if cfg.n > 1:
                    pool.append(x[1])
                    srcs.append("root()." + ".".join(trip) + "[1]")
            except Exception:
                pass
        # the same instants with another jd1/jd2 split (from_jds, and through arithmetic with a TimeDelta): not the same
        # jd pairs, so == must be False (and whatever == says, equal arrays must hash equally)
        for label, d1 in (("jd1 + 0.5, jd2 - 0.5", 0.5), ("jd1 - 1, jd2 + 1", -1.0), ("jd1 + 0.25, jd2 - 0.25", 0.25)):
            try:
                x = type(r0).from_jds(r0.jd1 + d1, r0.jd2 - d1, r0.fmt)
                pool.append(x)
                srcs.append(f"<root re-split: from_jds({label})>")
                if cfg.n > 1:
                    pool.append(x[1:])
                    srcs.append(f"<root re-split: from_jds({label})>[1:]")
            except Exception:
                pass
        try:
            from midgard.data.time import TimeDelta
            half = TimeDelta(np.full(cfg.n, 0.5), scale=cfg.scales[0], fmt="days")
            back = (r0 + half) - half
            if back.fmt != r0.fmt:
                back = type(back).from_jds(back.jd1, back.jd2, r0.fmt)
            pool.append(back)
            srcs.append("(root() + half a day) - half a day")
        except Exception:
            pass
        # a single epoch built from one Python datetime keeps jd1/jd2 as Python floats
        try:
            from datetime import datetime as _dt, timedelta as _td
            from midgard.data.time import Time as _Time
            e0 = r0[0]
            when = _dt(2000, 1, 1) + _td(days=float(e0.jd1) - 2451544.5) + _td(days=float(e0.jd2))
            x = _Time(when, scale=cfg.scales[0], fmt="datetime")
            pool.append(x)
            srcs.append(f"Time({when!r}, scale={cfg.scales[0]!r}, fmt='datetime')   # = root()[0]")
            pool.append(e0)
            srcs.append("root()[0]")
        except Exception:
            pass
        for label, bump in (("1 ulp", None), ("1e-16", 1e-16), ("1e-15", 1e-15), ("-3e-16", -3e-16)):
            try:
                jd2 = np.nextafter(r0.jd2, 1.0) if bump is None else r0.jd2 + bump
                pool.append(type(r0).from_jds(r0.jd1, jd2, r0.fmt))
                srcs.append(f"<root with jd2 moved by {label}>")
            except Exception:
                pass
        clear_caches()
        obs = []
        for o in pool:
            try:
                obs.append(observe(o, cfg, tok))
            except Exception:
                obs.append(None)
        for i in range(len(pool)):
            for j in range(0 if hi < 3 else i, len(pool)):   # both orders for the three fixed configurations
                if obs[i] is None or obs[j] is None:
                    continue
                try:
                    e = pool[i] == pool[j]
                    if e is NotImplemented:
                        eo = 0
                    else:
                        eo = 1 if bool(e) else 0
                except Exception:
                    eo = 2
                try:
                    hq = hash(pool[i]) == hash(pool[j])
                except Exception:
                    hq = False
                try:
                    if (i != j and np.shape(pool[i].jd2) == np.shape(pool[j].jd2) and pool[i].scale == pool[j].scale
                            and np.all(pool[i].jd1 == pool[j].jd1)):
                        d = np.max(np.abs(np.asarray(pool[i].jd2) - np.asarray(pool[j].jd2))) if np.size(pool[i].jd2) else 1.0
                        if 0 < d < 1e-14:
                            ctx.count("eqhash:nearly_equal_pairs")
                except Exception:
                    pass
                pyf = isinstance(pool[i].jd1, float) or isinstance(pool[j].jd1, float)
                cases.append(f"({oobs_term(obs[i])}, {oobs_term(obs[j])}, {eo}, {emit.b(hq)}, {emit.b(pyf)})")
                metas.append(dict(kind="eq_hash", root=cfg.how(), a=srcs[i], b=srcs[j], eq=["False", "True", "raised"][eo],
                                  hashes_equal=bool(hq)))
                ctx.case(("EQ", cfg.key(), srcs[i], srcs[j]), nontrivial=(i != j))
    return cases, metas


def index_type_cases(ctx):
    """t[np.int32(i)], t[np.array(i)], ... against t[i] with the Python int, each on a fresh array"""
    from midgard.data._time import TimeBase
    cases, metas = [], []
    kinds = [("np.int64", lambda i: np.int64(i)), ("np.int32", lambda i: np.int32(i)), ("np.int16", lambda i: np.int16(i)),
             ("np.uint8", lambda i: np.uint8(i) if i >= 0 else None), ("np.intp", lambda i: np.intp(i)),
             ("np.array(i)", lambda i: np.array(i)), ("np.array(i, dtype=np.int32)", lambda i: np.array(i, dtype=np.int32))]
    for fmt in INDEX_FMTS:
        for n in (1, 3):
            for i in sorted({0, n - 1, -1, -n, n}):
                for kname, mk in kinds:
                    idx = mk(i)
                    if idx is None:
                        continue
                    cfg = Cfg(n, fmt)
                    tok = Tok()
                    res = []
                    for item in (int(i), idx):
                        clear_caches()
                        t = cfg.root()
                        try:
                            r = t[item]
                        except Exception:
                            res.append(("err",))
                            continue
                        if not isinstance(r, TimeBase):
                            res.append(("nottime", f"{type(r).__name__} {r!r}"))
                            continue
                        try:
                            res.append(("obj", observe(r, cfg, tok)))
                        except Exception as e:
                            res.append(("nottime", f"unobservable {type(e).__name__}: {e}"))
                    k = 0 if kname in ("np.int64", "np.intp") else 1
                    cases.append(f"({k}, {obsres_term(res[0])}, {obsres_term(res[1])})")
                    metas.append(dict(kind="index_type", root=cfg.how().replace("o0 =", "t ="), index=f"{kname} with i = {i}",
                                      with_python_int=res[0][0], with_numpy_index=res[1][0] if res[1][0] != "nottime" else res[1][1]))
                    ctx.case(("IDX", fmt, n, i, kname), nontrivial=True)
                    ctx.count(f"index-type:{kname}")
    # a single gps_ws epoch (shape (3,)) indexed along its columns must raise like a 0-d element of a one-column format
    for src, f in (("t[1][0:1]", lambda t: t[1][0:1]), ("t[1][[0]]", lambda t: t[1][[0]]),
                   ("t[1][np.array([True, False, True])]", lambda t: t[1][np.array([True, False, True])]),
                   ("t[1][::-1]", lambda t: t[1][::-1])):
        cfg = Cfg(3, "gps_ws")
        clear_caches()
        t = cfg.root()
        try:
            r = f(t)
            res = ("nottime", f"{type(r).__name__} of shape {np.shape(r)}: {np.asarray(r).tolist()!r}")
        except Exception:
            res = ("err",)
        cases.append(f"(2, OErr, {obsres_term(res)})")
        metas.append(dict(kind="element_columns", root=cfg.how().replace("o0 =", "t ="), expression=src,
                          expected="an exception (IndexError for the one-column formats)",
                          observed="raised" if res[0] == "err" else res[1]))
        ctx.case(("IDX0D", src), nontrivial=True)
    clear_caches()
    return cases, metas


INDEX_FMTS = ("jd", "mjd", "gps_ws", "days")


def memo_cases(ctx):
    """subset(idx, memo) with ONE memo for several distinct arrays that hold the same epochs (a copy, the same epochs in
    another format, gps_ws next to jd), with equal and with different index lists; the same array twice must give the
    same object again"""
    from midgard.data.time import Time
    cases, metas = [], []
    cfg = AnyScale()
    jd = np.array([2_458_000.5 + i + 0.25 * (i % 4) for i in range(6)])

    def arrays(kind):
        if kind == "copy":
            t = Time(jd, scale="utc", fmt="jd")
            return [("t", t), ("copy.copy(t)", copy.copy(t))]
        if kind == "fmt":
            t = Time(jd, scale="utc", fmt="jd")
            return [("t", t), ("type(t).from_jds(t.jd1, t.jd2, 'mjd')", type(t).from_jds(t.jd1, t.jd2, "mjd"))]
        if kind == "gps":
            t = Time(jd, scale="gps", fmt="jd")
            return [("t", t), ("type(t).from_jds(t.jd1, t.jd2, 'gps_ws')", type(t).from_jds(t.jd1, t.jd2, "gps_ws"))]
        t = Time(jd, scale="utc", fmt="mjd")
        return [("t", t), ("t.view()", t.view()), ("t[:]", t[:])]

    items = [("take", (0, 1)), ("take", (3, 4, 5)), ("mask", (True, False, True, True, False, False)),
             ("slice", 1, 4, 1), ("take", (5, 0, 2))]
    plans = []
    for kind in ("copy", "fmt", "gps", "views"):
        for ia, ib in ((0, 1), (2, 2), (4, 3), (1, 1)):
            plans.append((kind, [(0, ia), (1, ib), (0, ia)]))
        plans.append((kind, [(1, 2), (0, 0), (1, 2), (0, 0)]))
    for kind, seq in plans:
        clear_caches()
        tok = Tok()
        arrs = arrays(kind)
        memo = {}
        results = []
        calls, lines = [], [f"t = Time(np.array([2458000.5 + i + 0.25*(i % 4) for i in range(6)]), ...)  # {kind}", "memo = {}"]
        ok = True
        for which, ii in seq:
            name, arr = arrs[which]
            it = items[ii]
            try:
                oa = observe(arr, cfg, tok)
                try:
                    r = arr.subset(pyitem(it), memo)
                    again = next((k for k, x in enumerate(results) if x is r), -1)
                    results.append(r)
                    res = ("obj", observe(r, cfg, tok))
                except Exception:
                    results.append(None)
                    again, res = -1, ("err",)
            except Exception as e:
                ctx.count(f"memo:outside-model:{type(e).__name__}")
                ok = False
                break
            calls.append(f"({which}, {oobs_term(oa)}, {item_term(it)}, {obsres_term(res)}, {emit.z(again)})")
            lines.append(f"{name}.subset({item_src(it) if it[0] != 'slice' else 'slice(%r, %r, %r)' % tuple(it[1:])}, memo)"
                         + ("   # -> raised" if res[0] == "err" else f"   # -> fmt {results[-1].fmt}, len {len(results[-1])}"
                            + (f", the object of call {again}" if again >= 0 else "")))
        if not ok:
            continue
        cases.append(emit.lst(calls))
        metas.append(dict(kind="shared_memo", arrays=kind, calls=lines))
        ctx.case(("MEMO", kind, tuple(seq)), nontrivial=True)
        ctx.count(f"memo:{kind}")
    clear_caches()
    return cases, metas


class AnyScale:
    """observation context for the insert oracle: four scales, no root"""
    scales = ("utc", "tai", "gps", "tt")


def insert_cases(ctx):
    """TimeArray.insert(a, pos, b, {}) for every pair of scales and formats (b converted by insert itself).  The
    expected result is built in Coq from a and from b brought to a's scale/format by a *fresh* conversion."""
    from midgard.data.time import Time
    from midgard.data._time import TimeArray
    cases, metas = [], []
    cfg = AnyScale()

    def make(scale, fmt, n, start):
        mjd = start + np.arange(n) * 1.25 + 0.125
        if fmt == "gps_ws":
            x = Time(mjd, scale="gps", fmt="mjd")
            x = type(x).from_jds(x.jd1, x.jd2, "gps_ws")
            clear_caches()
            return x
        return Time(mjd if fmt == "mjd" else mjd + 2_400_000.5, scale=scale, fmt=fmt)

    sizes = ((1, 1), (3, 2), (4, 1)) if ctx.quick() else ((1, 1), (3, 2), (4, 1), (6, 3), (2, 6))
    combos = [(sa, sb, fa, fb) for sa in cfg.scales for sb in cfg.scales for fa in ("jd", "mjd") for fb in ("jd", "mjd")]
    # the three-column format (gps scale only) as target and as inserted array
    combos += [("gps", sb, "gps_ws", fb) for sb in ("gps", "utc", "tai") for fb in ("jd", "mjd")]
    combos += [("gps", "gps", "gps_ws", "gps_ws")]
    combos += [(sa, "gps", fa, "gps_ws") for sa in ("gps", "utc", "tt") for fa in ("jd", "mjd")]
    for sa, sb, fa, fb in combos:
        if True:
            if True:
                if True:
                    for na, nb in sizes:
                        for pos in sorted({0, na // 2, na, -1, na + 1}):
                            for b_elem in ((False, True) if (nb == 1 and pos == 0) else (False,)):
                                tok = Tok()
                                how = (f"a = Time(<mjd 58000.125 + 1.25 k, k < {na}> as {fa}, scale={sa!r}, fmt={fa!r}); "
                                       f"b = Time(<mjd 58100.125 + 1.25 k, k < {nb}> as {fb}, scale={sb!r}, fmt={fb!r})"
                                       + ("[0]" if b_elem else "") + f"; TimeArray.insert(a, {pos}, b, {{}})")
                                try:
                                    clear_caches()
                                    a = make(sa, fa, na, 58000)
                                    b = make(sb, fb, nb, 58100)
                                    if b_elem:
                                        b = b[0]
                                    oa = observe(a, cfg, tok)
                                    # b in a's scale and format, by a fresh conversion on an equal array
                                    b2 = make(sb, fb, nb, 58100)
                                    if b_elem:
                                        b2 = b2[0]
                                    bc = b2 if sa == sb else getattr(b2, sa)
                                    if bc.fmt != fa:
                                        bc = type(bc).from_jds(bc.jd1, bc.jd2, fa)
                                    ob = observe(bc, cfg, tok)
                                    clear_caches()
                                    try:
                                        new = TimeArray.insert(a, pos, b, {})
                                    except Exception:
                                        res = ("err",)
                                    else:
                                        res = ("obj", observe(new, cfg, tok))
                                except Mixed:
                                    ctx.count("insert:outside-model:mixed")
                                    continue
                                except Exception as e:
                                    ctx.count(f"insert:outside-model:{type(e).__name__}")
                                    metas.append(dict(kind="insert", how=how, error=f"{type(e).__name__}: {e}"))
                                    cases.append(None)
                                    continue
                                cls = fa == "gps_ws" and fb != "gps_ws"
                                cases.append(f"({emit.b(cls)}, {oobs_term(oa)}, {oobs_term(ob)}, {emit.z(pos)}, {obsres_term(res)})")
                                def show(o):
                                    return dict(val=[[tok.vals[t - 1] for t in r] for r in o[1]],
                                                jd1=[tok.vals[t - 1] for t in (o[2][1] if o[2][0] == "A" else (o[2][1],))],
                                                jd2=[tok.vals[t - 1] for t in (o[3][1] if o[3][0] == "A" else (o[3][1],))])
                                metas.append(dict(kind="insert", how=how, a=show(oa), b_in_scale_and_format_of_a=show(ob),
                                                  observed=("error" if res[0] == "err" else show(res[1]))))
                                ctx.case(("INS", sa, sb, fa, fb, na, nb, pos, b_elem), nontrivial=True)
                                ctx.count(f"insert:{'same' if sa == sb else 'other'}-scale:{'same' if fa == fb else 'other'}-fmt")
    clear_caches()
    return cases, metas


# every kind of derived object of the property: how it is obtained from a fresh root `t` of 3 epochs
WRITE_TARGETS = [
    ("root", "t", lambda t, cfg: t),
    ("elem", "t[1]", lambda t, cfg: t[1]),
    ("slice", "t[0:2]", lambda t, cfg: t[0:2]),
    ("slice_step", "t[::-1]", lambda t, cfg: t[::-1]),
    ("take_list", "t[[0, 2]]", lambda t, cfg: t[[0, 2]]),
    ("take_array", "t[np.array([2, 0])]", lambda t, cfg: t[np.array([2, 0])]),
    ("mask", "t[np.array([True, False, True])]", lambda t, cfg: t[np.array([True, False, True])]),
    ("take_of_slice", "t[1:][[0]]", lambda t, cfg: t[1:][[0]]),
    ("iter_elem", "list(t)[2]", lambda t, cfg: list(t)[2]),
    ("view", "t.view()", lambda t, cfg: t.view()),
    ("scale", "t.<other scale>", lambda t, cfg: getattr(t, cfg.scales[1])),
    ("scale_of_take", "t[[0, 2]].<other scale>", lambda t, cfg: getattr(t[[0, 2]], cfg.scales[1])),
    ("take_of_scale", "t.<other scale>[[0, 2]]", lambda t, cfg: getattr(t, cfg.scales[1])[[0, 2]]),
    ("copy", "copy.copy(t)", lambda t, cfg: copy.copy(t)),
    ("copy_of_mask", "copy.copy(t[mask])", lambda t, cfg: copy.copy(t[np.array([True, False, True])])),
    ("deepcopy", "copy.deepcopy(t)", lambda t, cfg: copy.deepcopy(t)),
    ("subset_mask", "t.subset(np.array([True, False, True]), {})", lambda t, cfg: t.subset(np.array([True, False, True]), {})),
    ("subset_index", "t.subset([0, 2], {})", lambda t, cfg: t.subset([0, 2], {})),
    ("subset_slice", "t.subset(slice(0, 2), {})", lambda t, cfg: t.subset(slice(0, 2), {})),
    ("insert", "TimeArray.insert(t, 1, t, {})", None),
    ("from_jds", "type(t).from_jds(t.jd1.copy(), t.jd2.copy(), t.fmt)", lambda t, cfg: type(t).from_jds(t.jd1.copy(), t.jd2.copy(), t.fmt)),
]


def write_cases(ctx):
    """in-place write attempts (values, jd1, jd2, attributes) on every kind of derived object: each must raise and
    leave the bits of the object and of the root it came from unchanged"""
    from midgard.data._time import TimeArray
    cases, metas = [], []
    for fmt in ("jd", "mjd", "gps_ws", "days"):
        for target, src, make in WRITE_TARGETS:
            if "other scale" in src and not Cfg(3, fmt).has_conv:
                continue
            for w in sorted(WRITE_SRC):
                cfg = Cfg(3, fmt)
                tok = Tok()
                h = History(cfg, tok)
                t = h.objs[0]
                rep = dict(kind="write_attempt", root=cfg.how().replace("o0 =", "t ="), target=src.replace("<other scale>", cfg.scales[1] or "-"),
                           attempt=WRITE_SRC[w].replace("o", "x", 1) if WRITE_SRC[w].startswith("o") else WRITE_SRC[w])
                try:
                    o = cfg.array_cls().insert(t, 1, t, {}) if make is None else make(t, cfg)
                    before = [observe(x, cfg, tok, der=False) for x in (t, o)]
                    hash_before = hash(o)
                except Exception as e:
                    ctx.count(f"write:outside-model:{target}:{type(e).__name__}")
                    continue
                try:
                    do_write(o, w)
                    raised = False
                except Exception:
                    raised = True
                try:
                    after = [observe(x, cfg, tok, der=False) for x in (t, o)]
                    changed = before != after or hash(o) != hash_before
                except Exception as e:
                    after = f"broken: {type(e).__name__}: {e}"
                    changed = True
                cases.append(f"({w}, {emit.b(raised)}, {emit.b(changed)})")
                metas.append(dict(rep, raised=raised, observables_or_hash_changed=changed, after=str(after)[:300]))
                ctx.case(("W", fmt, target, w), nontrivial=True)
                ctx.count(f"write:{w}")
                ctx.count(f"write-target:{target}")
    return cases, metas


# ----------------------------------------------------------------------------- the run
def plan(ctx):
    """tree tasks and random tasks for the tier"""
    trees, rnd = [], []
    lengths = [1, 2, 3, 4, 5, 6]
    if ctx.quick():
        deep = {(1, "jd"), (3, "jd"), (2, "gps_ws"), (2, "days")}
        for fmt in ("jd", "gps_ws", "days"):
            for n in lengths:
                cfg = Cfg(n, fmt)
                d = 3 if (n, fmt) in deep else 2
                for op in first_ops(cfg):
                    rich_first = op in first_ops_rich_only(cfg)
                    trees.append((n, fmt, op, 2 if rich_first else d, 1))
        for fmt in NEAR_FMTS:
            for n in (3, 5):
                cfg = Cfg(n, fmt)
                base = [o for o in first_ops(cfg) if o not in first_ops_rich_only(cfg)]
                for op in base:
                    trees.append((n, fmt, op, 2, 0))
        # directed: an emptied datetime / text array (subset selecting nothing), then everything of the alphabet on it
        for fmt in TEXT_FMTS:
            trees.append((1, fmt, ("subset", 0, ("slice", 0, -1, 1)), 2, 0))
            trees.append((3, fmt, ("subset", 0, ("slice", 0, 0, 1)), 2, 0))
        n_rnd, ln = 400, 30
    else:
        for fmt in ("jd", "gps_ws", "days"):
            for n in lengths:
                cfg = Cfg(n, fmt)
                d = 4 if (n, fmt) in {(1, "jd"), (2, "jd"), (3, "gps_ws")} else 3
                for op in first_ops(cfg):
                    rich_first = op in first_ops_rich_only(cfg)
                    trees.append((n, fmt, op, 3 if rich_first else d, 1))
        for fmt in NEAR_FMTS:
            for n in lengths:
                cfg = Cfg(n, fmt)
                for op in first_ops(cfg):
                    rich_first = op in first_ops_rich_only(cfg)
                    trees.append((n, fmt, op, 2 if (rich_first or n not in (3, 5)) else 3, 1))
        n_rnd, ln = 4000, 30
    for i in range(n_rnd):
        rnd.append((ctx.rng.choice(lengths), ctx.rng.choice(["jd", "mjd", "gps_ws", "jd", "gps_ws", "days", "seconds", "jd~", "gps_ws~", "mjd~"]),
                    ctx.rng.randrange(1 << 60), ctx.rng.choice([ln, ln, 12, 6])))
    return trees, rnd


def first_ops_rich_only(cfg):
    tok = Tok()
    h = History(cfg, tok)
    base = child_ops(h, cfg, False)
    return [o for o in child_ops(h, cfg, True) if o not in base]


def path_src(cfg, path):
    return [cfg.how()] + [op_src(op, i + 1, cfg) for i, op in enumerate(named_steps(path))]


def named_steps(path):
    return list(path)


def replay_of(cfg_key, path, verdict, other, changed):
    cfg = Cfg(*cfg_key)
    # names: only steps that produced an object get a name; recompute by running
    tok = Tok()
    h = History(cfg, tok)
    lines = [cfg.how()]
    observed = None
    for op in path:
        nm = len(h.objs)
        res, ch = h.step(op)
        lines.append(op_src(op, nm, cfg) + ("" if res[0] == "obj" else f"   # -> {res[0]}"))
        observed = res
    def show(ob):
        if ob is None:
            return None
        sc, rows, j1, j2, ln, d, f, s = ob
        val = lambda t: tok.vals[t - 1]
        jv = lambda j: val(j[1]) if j[0] == "S" else [val(t) for t in j[1]]
        return dict(scalar=sc, val=[[val(t) for t in r] for r in rows], jd1=jv(j1), jd2=jv(j2), len=ln, mjd=jv(d),
                    fmt=[k for k, v in FMT_TAG.items() if v == f][0], scale=cfg.scales[s])
    if observed[0] == "obj":
        obs = show(observed[1])
    elif observed[0] == "list":
        obs = [show(x) for x in observed[1]]
    else:
        obs = observed
    return dict(kind="history", config=dict(n=cfg.n, fmt=cfg.name, scales=cfg.scales), history=lines,
                ops=[list(map(lambda x: list(x) if isinstance(x, tuple) else x, op)) for op in path],
                observed_last_step=obs, verdict=verdict, changed_objects=list(changed), outside_model=other,
                how="from midgard.data.time import Time; from midgard.data._time import TimeArray; import numpy as np, copy; "
                    "run the lines of 'history' in order on a fresh interpreter (or after TimeBase.to_scale.cache_clear(); "
                    "TimeBase.to_format.cache_clear()); compare val/jd1/jd2/len/.mjd of the last object")


def run(ctx):
    ok = ctx.prove(THEOREMS) if not os.environ.get("VERIF_C04_NOPROOF") else True     # development aid only
    rng = ctx.rng
    iso = isolation_selftest()
    if iso:
        # the histories cannot be separated from each other: no sound comparison is possible
        ctx.violation(dict(kind="isolation", problem=iso,
                           hint="harness/drivers/c04.py clear_caches() resets functools.lru_cache wrappers of the midgard "
                                "package; midgard now memoizes through something else"),
                      what="C04 harness cannot reset midgard's memoization between histories: " + iso, found=False)
        return ctx.finish(level="proof", rule="isolation self-test failed; correspondence not run")
    trees, rnd = plan(ctx)
    ctx.log(f"plan: {len(trees)} subtrees, {len(rnd)} random histories")
    nproc = min(core.NCPU, 16)
    with mp.get_context("fork").Pool(nproc) as pool:
        tree_res = pool.map(task_tree, trees, chunksize=1)
        rnd_res = pool.map(task_random, rnd, chunksize=8)
    ctx.log("midgard runs done")

    cases, metas = [], []          # metas[i] = ("tree", task, depths, exceptions) | ("rnd", cfg_key, [(path, other, changed)])
    n_err = 0
    for task, res in list(zip(trees, tree_res)) + list(zip(rnd, rnd_res)):
        if res[0] == "harness-error":
            n_err += 1
            ctx.count(f"outside-model:{res[1]}")
            cfg = Cfg(task[0], task[1])
            if res[1] == "tables":
                # isolation was verified above, so this is the behaviour of a fresh array: a concrete input
                ctx.violation(dict(kind="fresh_root", config=cfg.key(), how=cfg.how(), observed=res[2]),
                              what="a fresh array (or its scale conversion) is not an elementwise array: " + res[2][:200])
            else:
                ctx.violation(dict(kind="harness_error", task=repr(task), error=res[2]),
                              what="the driver could not run a history task: " + res[2].split("\n")[0][:200], found=False)
            continue
        if len(task) == 5:
            term, depths, exc = res
            cases.append(term)
            metas.append(("tree", task, depths, exc))
            ctx.count(f"tree:{task[1]}:n={task[0]}:depth={task[3]}", len(depths))
        else:
            term, meta = res
            cases.append(term)
            metas.append(("rnd", (task[0], task[1]), meta))
            ctx.count(f"random:{task[1]}:n={task[0]}", len(meta))
    del tree_res, rnd_res
    path_cache = {}

    def node_info(i, idx):
        """(cfg_key, depth, path-thunk, other, changed) of node idx (0-based, without the root) of case i"""
        m = metas[i]
        if m[0] == "tree":
            task = m[1]
            o, c = m[3].get(idx, (None, ()))

            def path():
                if i not in path_cache:
                    path_cache.clear()
                    path_cache[i] = task_tree(task, want_paths=True)
                return path_cache[i][idx]
            return (task[0], task[1]), m[2][idx], path, o, c
        p, o, c = m[2][idx]
        return m[1], len(p), (lambda: p), o, c

    def n_nodes_of(i):
        m = metas[i]
        return len(m[2])
    # shards balanced by text size
    order = sorted(range(len(cases)), key=lambda i: -len(cases[i]))
    nshard = max(1, min(4 * nproc, len(cases)))
    bins = [[] for _ in range(nshard)]
    sizes = [0] * nshard
    for i in order:
        j = sizes.index(min(sizes))
        bins[j].append(i)
        sizes[j] += len(cases[i])
    bins = [b for b in bins if b]
    shards = ["check_cases " + emit.lst(cases[i] for i in b) for b in bins]
    ctx.log(f"emitting {len(shards)} shards, {sum(sizes) / 1e6:.1f} MB")
    vs = ctx.coq_cases(shards, REQ, timeout=1500)
    ctx.log("model evaluated")

    n_nodes = 0
    unknown = {}
    bad = []
    for b, v in zip(bins, vs):
        expect = sum(1 + n_nodes_of(i) for i in b)
        if v is None or len(v) != expect:
            ctx.violation({"broken": "correspondence shard did not evaluate in Coq (or verdict count mismatch)",
                           "errors": [e[1][-1500:] for e in ctx.last_coq_errors[:2]], "expected": expect,
                           "got": None if v is None else len(v)},
                          what="correspondence (model evaluation) failed", found=False)
            continue
        pos = 0
        for i in b:
            cfg_key = metas[i][1][:2] if metas[i][0] == "tree" else metas[i][1]
            if v[pos] != 0:
                ctx.violation(dict(kind="root", config=cfg_key, how=Cfg(*cfg_key).how()),
                              what="fresh root array is not aligned with its own jd's / format table")
            pos += 1
            for idx in range(n_nodes_of(i)):
                verdict = v[pos]
                pos += 1
                n_nodes += 1
                cfg_key, depth, path, other, changed = node_info(i, idx)
                ctx.case((i, idx), nontrivial=depth >= 2)
                ctx.count(f"verdict:{verdict}")
                if verdict == 0:
                    continue
                if verdict == 50:
                    fid = "c04_insert_into_rebuilt_empty_text"
                    ctx.count(f"quirk:{fid}")
                    if any(k.get("id") == fid and k.get("status", "open") == "open" for k in ctx.known):
                        ctx.finding(fid, WHAT[fid], {})
                    elif fid not in unknown or (depth, cfg_key[0]) < unknown[fid][:2]:
                        unknown[fid] = (depth, cfg_key[0], cfg_key, path(), verdict, other, ())
                    continue
                if verdict >= 2 and verdict - 1 < len(VARIANTS):
                    qs = VARIANTS[verdict - 1]
                    for qn in qs:
                        fid = QUIRK_IDS[qn]
                        if qn == "rebuild" and Cfg(*cfg_key).fmt in ("datetime", "isot"):
                            fid = "c04_scalar_rebuild_object_formats"
                        ctx.count(f"quirk:{fid}")
                        known = any(k.get("id") == fid and k.get("status", "open") == "open" for k in ctx.known)
                        if known:
                            ctx.finding(fid, WHAT[fid], {})
                        elif fid not in unknown or (depth, cfg_key[0]) < unknown[fid][:2]:
                            unknown[fid] = (depth, cfg_key[0], cfg_key, path(), verdict, other, changed)
                    continue
                if len(bad) < 2000:
                    bad.append((depth, cfg_key[0], cfg_key, path(), verdict, other, changed))
                else:
                    bad.append((99, 0, cfg_key, None, verdict, other, changed))
    for fid, (_, _, cfg_key, path, verdict, other, changed) in sorted(unknown.items()):
        ctx.finding(fid, WHAT[fid], replay_of(cfg_key, path, verdict, other, changed))
    bad.sort(key=lambda x: (x[0], x[1], repr(x[3])))
    bad = [x for x in bad if x[3] is not None] or bad[:0]
    for i, (_, _, cfg_key, path, verdict, other, changed) in enumerate(bad[:25]):
        rep = replay_of(cfg_key, path, verdict, other, changed)
        rep["unexplained_nodes_in_this_run"] = len(bad)
        if i < 5:
            try:
                rep["model_says"] = [model_prediction(ctx, cfg_key, path, v) for v in ("quirks_off", "quirks_on")]
            except Exception as e:
                rep["model_says"] = f"(not evaluated: {e})"
        ctx.violation(rep, what="midgard's result differs from the specification model and from every quirk variant "
                                "(or an earlier object changed): " + "; ".join(rep["history"][1:])[:220])
    for m in metas:
        if m[0] == "rnd" and len(m[2]) >= 4 and len(ctx.samples) < 3:
            cfg = Cfg(*m[1])
            ctx.samples.append(dict(config=m[1], history=replay_of(m[1], m[2][3][0], 0, None, ())["history"]))
    ctx.log(f"{n_nodes} history nodes compared")

    # ---- eq/hash and write attempts
    ec, em = eqhash_cases(ctx, rng)
    ve = emit.flatten_verdicts(ctx.coq_cases(emit.shard_terms("check_eqhash", ec, 400), REQ), len(ec))
    wc, wm = write_cases(ctx)
    vw = emit.flatten_verdicts(ctx.coq_cases(emit.shard_terms("check_write", wc, 400), REQ), len(wc))
    ic, im = insert_cases(ctx)
    for rep in [m for c, m in zip(ic, im) if c is None]:
        ctx.violation(rep, what="insert oracle: arrays could not be built / observed: " + rep["error"][:150])
    im = [m for c, m in zip(ic, im) if c is not None]
    ic = [c for c in ic if c is not None]
    vi = emit.flatten_verdicts(ctx.coq_cases(emit.shard_terms("check_insert", ic, 200), REQ), len(ic))
    mc, mm = memo_cases(ctx)
    vm = emit.flatten_verdicts(ctx.coq_cases(emit.shard_terms("check_memo", mc, 50), REQ), len(mc))
    xc, xm = index_type_cases(ctx)
    vx = emit.flatten_verdicts(ctx.coq_cases(emit.shard_terms("check_idx", xc, 400), REQ), len(xc))
    for name, flat, meta, fid in (("eqhash", ve, em, "c04_eq_broadcast"), ("write", vw, wm, "c04_delattr_allowed"),
                                  ("insert", vi, im, "c04_insert_gpsws_other_fmt"), ("index-type", vx, xm, "c04_npint_bare_float"),
                                  ("shared-memo", vm, mm, None)):
        if flat is None:
            ctx.violation({"broken": f"{name} shard did not evaluate", "errors": [e[1][-1500:] for e in ctx.last_coq_errors[:2]]},
                          what="correspondence (model evaluation) failed", found=False)
            continue
        n_rep = 0
        for vd, rep in zip(flat, meta):
            ctx.count(f"{name}:verdict:{vd}")
            if vd == 0:
                continue
            if not (vd == 2 and fid):
                n_rep += 1
                if n_rep > 10:          # the first ten replay files are enough, the rest is in the histogram
                    continue
            if vd == 3 and name == "eqhash":
                ctx.count("quirk:c04_hash_python_float")
                ctx.finding("c04_hash_python_float", WHAT["c04_hash_python_float"], rep)
                continue
            if vd == 2 and rep.get("kind") == "element_columns":
                ctx.count("quirk:c04_gpsws_element_columns")
                ctx.finding("c04_gpsws_element_columns", WHAT["c04_gpsws_element_columns"], rep)
                continue
            if vd == 2 and fid:
                ctx.count(f"quirk:{fid}")
                ctx.finding(fid, WHAT[fid], rep)
            else:
                ctx.violation(rep, what=f"{name}: midgard differs from the model")

    if not ok and not ctx.violations:
        ctx.obligations_broken(lambda: None)
    ctx.trusted += [
        "Coq 8.16.1 kernel, coqc, vm_compute (no native_compute)",
        "hand-written model coq/theories/Model/C04_TimeArray.v (validated against midgard.data._time by this run's correspondence; "
        "NumPy's __array_finalize__/__getitem__ dispatch is modelled)",
        "harness/drivers/c04.py (generators, call of the implementation, tokenisation of doubles by bit pattern, term emission)",
    ]
    ctx.assume += [
        "root data are dyadic so that Format.from_jds(Format.to_jds(v)) = v exactly (inexact format round trips are C02's subject)",
        "to_scale/to_format lru_caches are cleared at the start of every history; histories read at most ~110 objects (cache size 128)",
        "a single epoch of the other scale is inserted only when its derived format is not served in array shape by the "
        "value-keyed cache; gps_ws <- other format/scale inserts are checked by the insert oracle only (open finding)",
        "flags.writeable = True, setflags(write=True) and direct __dict__ access are deliberate circumvention, outside the property",
    ]
    return ctx.finish(
        level="proof",
        rule=("history trees: every sequence up to the tier's depth over the per-object alphabet {o[0], o[-1], o[1:], o[::-1], "
              "o[mask], o[[m-1,0]], o[(slice,)], list(o), view, copy, subset(mask), insert, other scale, write} applied to the "
              "root or the most recent object (first level also: deepcopy, o[::2], out-of-range, duplicate take, subset by "
              "list/slice, own scale, self-insert, 4 more write forms); arrays of 1..6 epochs, jd and gps_ws; random histories "
              "up to 30 steps over all objects with random indices incl. out-of-range/empty, jd/mjd/gps_ws; every node compares "
              "val, jd1, jd2, len, .mjd, fmt, scale of the object obtained + bit-identity of all earlier objects. "
              "eq/hash pairs include scale round trips (t.tai.utc, t.gps.utc, t.tt.tai.utc) and copies with jd2 moved by "
              "1 ulp / 1e-16 / 1e-15 day; insert oracle: all pairs of {utc,tai,gps,tt} x {jd,mjd} for target and inserted array. "
              "distinct_nontrivial = distinct (config, history) of length >= 2 plus eq/hash pairs, inserts and write attempts"),
    )


def model_prediction(ctx, cfg_key, path, variant="quirks_on"):
    """Last-step prediction of a model variant, evaluated in Coq (text)."""
    cfg = Cfg(*cfg_key)
    tok = Tok()
    h = History(cfg, tok)
    tables = build_tables(cfg, tok)
    js = emit.lst(f"({a}, {b_})" for a, b_ in zip(h.rootobs[2][1], h.rootobs[3][1]))
    ops = emit.lst(op_term(op) for op in path)
    out = ctx.coq_eval(REQ, f"List.last (predict {tables} {FMT_TAG[cfg.fmt]} {js} {ops} {variant}) OErr")
    toks = {i + 1: v for i, v in enumerate(tok.vals)}
    return dict(variant=variant, last_step=" ".join(out.split()), tokens=toks)


def replay(ctx, path):
    rep = json.load(open(path))
    print(json.dumps(rep, indent=1))
    if rep.get("kind") == "history":
        cfg = Cfg(rep["config"]["n"], rep["config"]["fmt"])
        tok = Tok()
        h = History(cfg, tok)
        def tup(x):
            return tuple(tup(y) for y in x) if isinstance(x, list) else x
        for op in rep["ops"]:
            res, ch = h.step(tup(op))
            print(op, "->", res[0], "changed:", ch)
            if res[0] == "obj":
                o = h.objs[-1]
                print("   val", np.asarray(o).tolist(), "jd1", np.asarray(o.jd1).tolist(), "jd2", np.asarray(o.jd2).tolist(),
                      "len", len(o))
    print("re-run: VERIF_SEED=%s /venv/bin/python run_check.py C04 %s" % (rep.get("seed"), rep.get("tier", "quick")))
    return 0
