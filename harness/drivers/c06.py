"""C06 - local-frame conversions are proper rotations tied to the geodetic normal (DESIGN 4.6).

Proof obligations: coq/theories/Props/C06.v (model Model/C06_Rot.v, proofs Proofs/C06_Rot.v, libraries Lib/Ival, Lib/Atan2,
Lib/Vec3, Lib/Mat3).  Correspondence: midgard.math.rotation and the Position/PositionDelta/PosVel/PosVelDelta API are run on
generated inputs; every returned double is shipped exactly (`Dy m e`) and compared inside Coq with interval enclosures of the
real-number model (Coq-Interval, 80 bits) and with exact rational certificates (orthogonality, determinant, round trip)."""
from __future__ import annotations

import json
import math

import numpy as np

from harness import core, emit

META = {
    "property_id": "C06",
    "level": "proof",
    "design_ref": "DESIGN.md 4.6",
    "technique": "Coq proof over R (stdlib reals + Coquelicot derivatives) on a hand model + vm_compute correspondence with "
                 "interval enclosures (Coq-Interval) and exact rational certificates on midgard's doubles",
    "level_text": (
        "Theorems in Coq 8.16 over the real numbers, for all angles / latitudes / longitudes / vectors: R(-a)=R(a)^T, "
        "R(a)R(b)=R(a+b), det=1, orthogonality, dR = d/da R entrywise (Coquelicot is_derive), enu2trs = R3(-(pi/2+lon)) "
        "R1(-(pi/2-lat)), trs2enu = enu2trs^T, both proper rotations (preserve dot products, lengths, cross products; round "
        "trip is the identity), Up = ellipsoid normal (gradient of the ellipsoid at the geodetic foot point, height runs "
        "along it), East perpendicular to the rotation axis and Up, North = Up x East, along/cross/radial triad is a "
        "right-handed orthonormal frame whenever r x v != 0, azimuth/elevation/zenith distance recover the angles of the "
        "target direction in the triad, block action on position/velocity differences.  The model is tied to the code on "
        "every run: rotation.R1..dR3/enu2trs/trs2enu and the data API are run on generated inputs and each returned double "
        "is compared inside Coq (vm_compute) with a rigorous interval enclosure of the real-number model (relative 1e-12) "
        "and with exact rational certificates on the doubles (||M^T M - I|| and |det M - 1| within 8 ulp, round trip "
        "within relative 1e-9)."),
    "level_note": (
        "Trusted: Coq kernel + vm_compute, Coq-Interval (its correctness lemmas are proved in Coq; BigZ uses the primitive "
        "63-bit integer axioms), stdlib real axioms, the hand-written model (validated by the correspondence, not derived "
        "from the source), the driver.  Latitude/longitude of a reference position are taken from midgard (trs2llh is "
        "C05).  HashArray/lru_cache aliasing belongs to C08: the driver passes fresh copies and copies results."),
}

THEOREMS = [
    "R_neg_transpose", "R_add", "R_det_one", "R_orthogonal", "dR_is_derivative",
    "enu2trs_as_R3R1", "trs2enu_as_R1R3", "trs2enu_transpose", "enu_rotation", "enu_preserves", "enu_roundtrip",
    "up_is_normal", "normal_is_ellipsoid_gradient", "foot_of_normal", "height_along_normal", "east_perp_axis_up", "north_completes_rh",
    "acr_orthonormal_rh", "acr_axes", "az_el_are_angles_in_triad", "posvel_block_roundtrip",
    "model_exprs_ok", "check_all_sound", "check_rot_sound", "check_enu_sound", "check_delta_sound",
    "check_acr_mat_sound", "check_acr_delta_sound", "check_normal_sound", "normal_frame_complete", "check_azel_sound",
    "elevation_clip_irrelevant", "az_el_at_zenith", "az_el_at_nadir",
    "det_l_rows3", "posvel_block_is_rotation", "enu_block_is_rotation", "acr_block_roundtrip", "enu_acr_composition",
    "acr_1d_transposed_refuted",
]

REQ = "From Verif Require Import Lib.Dyadic Model.C06_Rot."
PI = math.pi


# ----------------------------------------------------------------------------- emit helpers
def dys(a):
    return emit.lst(emit.dy(x) for x in np.asarray(a, dtype=float).ravel())


def fl(a):
    return [float(x) for x in np.asarray(a, dtype=float).ravel()]


def fresh(a):
    """fresh writable copy (HashArray makes arguments read-only; that is C08's business)"""
    return np.array(a, dtype=float, copy=True)


def out(a):
    """copy of a result as plain ndarray"""
    return np.array(np.asarray(a), dtype=float, copy=True)


class Cases:
    """one family of cases evaluated by one check_* function"""

    def __init__(self, fn, size):
        self.fn, self.size = fn, size
        self.terms, self.meta, self.seen = [], [], {}

    def add(self, term, rep):
        if term in self.seen:         # identical case (e.g. scalar and array call giving the same doubles)
            return
        self.seen[term] = True
        self.terms.append(term)
        self.meta.append(rep)


# ----------------------------------------------------------------------------- generators
SPECIAL_ANGLES = [0.0, PI / 2, -PI / 2, PI, -PI, 2 * PI, -2 * PI, 4 * PI, -4 * PI, PI / 4, 3 * PI / 4, -3 * PI / 4,
                  PI / 6, 1e-300, -1e-9, 1e-9, 3 * PI / 2, -7 * PI / 2, math.nextafter(PI / 2, 0), math.nextafter(PI, 4)]


def gen_angle(rng):
    u = rng.random()
    if u < 0.15:
        return rng.choice(SPECIAL_ANGLES)
    if u < 0.25:
        return rng.choice([-4, -3, -2, -1, 1, 2, 3, 4]) * PI * rng.choice([1, 0.5, 0.25]) + rng.choice([0, 1e-12, -1e-7])
    return rng.uniform(-4 * PI, 4 * PI)


LATS = [0.0, PI / 2, -PI / 2, PI / 4, -PI / 4, 1e-10, -1e-10, math.nextafter(PI / 2, 0), -math.nextafter(PI / 2, 0), 1.0, -1.0]
LONS = [0.0, PI, -PI, PI / 2, -PI / 2, 1e-10, -1e-10, math.nextafter(PI, 0), 3.0, -3.0, 0.75 * PI, -0.75 * PI]


def gen_latlon(rng):
    u = rng.random()
    lat = rng.choice(LATS) if u < 0.3 else math.asin(rng.uniform(-1, 1)) if u < 0.7 else rng.uniform(-PI / 2, PI / 2)
    lon = rng.choice(LONS) if rng.random() < 0.3 else rng.uniform(-PI, PI)
    return lat, lon


def gen_unit(rng):
    while True:
        v = np.array([rng.gauss(0, 1) for _ in range(3)])
        n = np.linalg.norm(v)
        if n > 1e-3:
            return v / n


def gen_delta(rng):
    u = rng.random()
    if u < 0.08:
        return np.zeros(3)
    mag = 10 ** rng.uniform(-9, 8)
    if u < 0.2:
        v = np.zeros(3)
        v[rng.randrange(3)] = rng.choice([-1, 1]) * mag
        return v
    return gen_unit(rng) * mag


def gen_ref_trs(rng):
    """reference position (TRS metres): all latitudes incl. the poles and the equator, all longitudes, heights -1e4..4e7"""
    from midgard.data.position import Position
    u = rng.random()
    if u < 0.12:
        return np.array(rng.choice([[0.0, 0.0, 6356752.314140356], [0.0, 0.0, -6356752.314140356], [0.0, 0.0, 6356852.0],
                                    [6378137.0, 0.0, 0.0], [-6378137.0, 0.0, 0.0], [-6378137.0, -0.0, 0.0],
                                    [0.0, 6378137.0, 0.0], [0.0, -6378137.0, 1e-3], [1e-3, 0.0, 6356752.0],
                                    [-4e6, 1e-9, -4.9e6], [3771793.968, 140253.342, 5124304.349]]))
    lat, lon = gen_latlon(rng)
    h = rng.choice([0.0, 100.0, -1e4, 8848.0, 2e7, 4e7]) if rng.random() < 0.5 else rng.uniform(-1e4, 1e5)
    return out(Position(np.array([lat, lon, h]), system="llh").trs.val)


def gen_state(rng):
    """orbit state (r, v) with r x v != 0 (angle between r and v at least ~3 degrees)"""
    while True:
        r = gen_unit(rng) * rng.choice([6.6e6, 7.0e6, 2.656e7, 4.2164e7, rng.uniform(6.5e6, 5e7)])
        v = gen_unit(rng) * rng.choice([7.6e3, 3.9e3, 3.07e3, rng.uniform(5e2, 1.1e4)])
        if rng.random() < 0.2:     # nearly circular: v perpendicular to r
            v = np.cross(np.cross(r, v), r)
            v = v / np.linalg.norm(v) * 7.5e3
        c = np.linalg.norm(np.cross(r, v)) / (np.linalg.norm(r) * np.linalg.norm(v))
        if c > 0.05:
            return np.concatenate([r, v])


# ----------------------------------------------------------------------------- the run
def run(ctx):
    ok = ctx.prove(THEOREMS)
    rng = ctx.rng
    q = ctx.quick()
    from midgard.math import rotation
    from midgard.data.position import Position, PositionDelta, PosVel, PosVelDelta

    fam = {
        "rot": Cases("check_rot", 150), "group": Cases("check_group", 300), "negT": Cases("check_negT", 400),
        "enu": Cases("check_enu", 150), "delta": Cases("check_delta", 120), "rt": Cases("check_roundtrip", 400),
        "triad": Cases("check_triad", 400), "normal": Cases("check_normal", 80), "acrm": Cases("check_acr_mat", 40), "acrd": Cases("check_acr_delta", 40),
        "azel": Cases("check_azel", 60),
    }
    other_mism = []
    RF = {1: (rotation.R1, rotation.dR1), 2: (rotation.R2, rotation.dR2), 3: (rotation.R3, rotation.dR3)}

    def shape_ok(what, arr, want, rep):
        if tuple(np.shape(arr)) != tuple(want):
            other_mism.append(dict(rep, what=f"{what}: shape {np.shape(arr)} expected {want}"))
            return False
        return True

    def conv(what, obj_fn, want, cols, rep):
        """value of a converted difference as (-1, cols) rows; its shape must be the shape of the input array"""
        val = out(obj_fn())
        if tuple(val.shape) != tuple(want):
            rep = dict(rep, kind="shape", how=what, observed_shape=list(val.shape), expected_shape=list(want))
            if len(want) == 2 and want[0] == 1 and tuple(val.shape) == (want[1],):
                ctx.count("quirk:single_row_squeezed")
                ctx.finding("c06_single_row_squeezed",
                            "a (1,3)/(1,6) array of differences is converted to shape (3,)/(6,) (np.squeeze in delta_*)", rep)
            else:
                other_mism.append(dict(rep, what=f"{what}: shape {val.shape}, expected {tuple(want)}"))
        return val.reshape(-1, cols)

    # ---- A. elementary rotations: scalar, (n,) array, list input; angles in [-4pi, 4pi]
    n_ang = 100 if q else 1200
    angles = [gen_angle(rng) for _ in range(n_ang)]
    for k in (1, 2, 3):
        for deriv in (False, True):
            f = RF[k][1 if deriv else 0]
            name = f"rotation.{'d' if deriv else ''}R{k}"
            arr = out(f(fresh(angles)))
            lst_res = out(f([float(a) for a in angles[:5]]))
            if not shape_ok(name + "((n,))", arr, (n_ang, 3, 3), dict(kind="rot", fn=name)):
                continue
            shape_ok(name + "(list)", lst_res, (5, 3, 3), dict(kind="rot", fn=name))
            for i, a in enumerate(angles):
                variants = [("array", arr[i])]
                if i < 5:
                    variants.append(("list", lst_res[i]))
                if i % 3 == 0:
                    sc = out(f(float(a)))
                    if shape_ok(name + "(scalar)", sc, (3, 3), dict(kind="rot", fn=name, angle=a)):
                        variants.append(("scalar", sc))
                if i % 7 == 0:
                    one = out(f(fresh([a])))
                    if shape_ok(name + "((1,))", one, (1, 3, 3), dict(kind="rot", fn=name, angle=a)):
                        variants.append(("array1", one[0]))
                for form, m in variants:
                    rep = dict(kind="rot", fn=name, angle=float(a), input_form=form, observed=fl(m),
                               how=f"{name}({a!r}) [{form}]")
                    fam["rot"].add(emit.pair(emit.z(k), emit.b(deriv), emit.dy(a), dys(m)), rep)
                    ctx.case(("rot", k, deriv, float(a), form), nontrivial=(a != 0.0), sample=rep if (k, deriv, i) == (3, False, 1) else None)
                    ctx.count(f"rot:{'d' if deriv else ''}R{k}:{form}")
    n_grp = 150 if q else 1200
    for _ in range(n_grp):
        k = rng.choice((1, 2, 3))
        a, b = gen_angle(rng) / 2, gen_angle(rng) / 2
        ab = a + b
        f = RF[k][0]
        ma, mb, mab, mneg = out(f(float(a))), out(f(float(b))), out(f(float(ab))), out(f(float(-a)))
        fam["group"].add(emit.pair(emit.dy(a), emit.dy(b), emit.dy(ab), dys(ma), dys(mb), dys(mab)),
                         dict(kind="group", fn=f"rotation.R{k}", a=a, b=b, a_plus_b=ab, Ra=fl(ma), Rb=fl(mb), Rab=fl(mab),
                              how=f"R{k}(a) @ R{k}(b) vs R{k}(a+b)"))
        fam["negT"].add(emit.pair(dys(ma), dys(mneg)),
                        dict(kind="negT", fn=f"rotation.R{k}", a=a, Ra=fl(ma), Rminus=fl(mneg), how=f"R{k}(-a) vs R{k}(a).T"))
        ctx.case(("group", k, a, b), nontrivial=True)
        ctx.count(f"group:R{k}")

    # ---- B. enu2trs / trs2enu as functions of (lat, lon): scalar and (n,) arrays, poles and the date line included
    n_ll = 150 if q else 2000
    lls = [(la, lo) for la in LATS[:5] for lo in LONS[:5]][: (10 if q else 25)] + [gen_latlon(rng) for _ in range(n_ll)]
    lat_a, lon_a = np.array([x[0] for x in lls]), np.array([x[1] for x in lls])
    for to_trs, f, name in ((True, rotation.enu2trs, "rotation.enu2trs"), (False, rotation.trs2enu, "rotation.trs2enu")):
        arr = out(f(fresh(lat_a), fresh(lon_a)))
        if not shape_ok(name + "((n,),(n,))", arr, (len(lls), 3, 3), dict(kind="enu", fn=name)):
            continue
        for i, (la, lo) in enumerate(lls):
            variants = [("array", arr[i])]
            if i % 3 == 0:
                sc = out(f(float(la), float(lo)))
                if shape_ok(name + "(scalar)", sc, (3, 3), dict(kind="enu", fn=name, lat=la, lon=lo)):
                    variants.append(("scalar", sc))
            for form, m in variants:
                rep = dict(kind="enu", fn=name, lat=float(la), lon=float(lo), input_form=form, observed=fl(m),
                           how=f"{name}({la!r}, {lo!r}) [{form}]")
                fam["enu"].add(emit.pair(emit.b(to_trs), emit.dy(la), emit.dy(lo), dys(m)), rep)
                ctx.case(("enu", to_trs, float(la), float(lo), form), nontrivial=True, sample=rep if i == 30 and to_trs else None)
                ctx.count(f"enu:{name.split('.')[1]}:{form}:{'pole' if abs(abs(la) - PI / 2) < 1e-9 else 'general'}")

    # ---- B'. the same functions called with keyword arguments (any order, mixed with positional) and every scalar-like input type
    kw_pairs = [(0.3, 1.1), (-0.9, 2.5), (PI / 2, 0.7), (-1e-10, -3.0), (1.2, -0.4)] + [gen_latlon(rng) for _ in range(6 if q else 60)]
    for to_trs, f, name in ((True, rotation.enu2trs, "rotation.enu2trs"), (False, rotation.trs2enu, "rotation.trs2enu")):
        for tname, cast in (("float", float), ("np.float64", np.float64), ("0-d array", lambda x: np.array(float(x))),
                            ("(1,) array", lambda x: np.array([float(x)])), ("(n,) array", None)):
            if cast is None:
                a_in = lambda: fresh([x[0] for x in kw_pairs])
                b_in = lambda: fresh([x[1] for x in kw_pairs])
            for j, (la, lo) in enumerate(kw_pairs if cast is not None else [(None, None)]):
                if cast is not None:
                    a_in = lambda: cast(la)
                    b_in = lambda: cast(lo)
                for cname, call in (("f(lon=lon, lat=lat)", lambda: f(lon=b_in(), lat=a_in())), ("f(lat=lat, lon=lon)", lambda: f(lat=a_in(), lon=b_in())),
                                    ("f(lat, lon=lon)", lambda: f(a_in(), lon=b_in()))):
                    res = out(call())
                    rows = kw_pairs if cast is None else [(la, lo)]
                    want = (len(kw_pairs), 3, 3) if cast is None else ((1, 3, 3) if tname == "(1,) array" else (3, 3))
                    if not shape_ok(f"{name} {cname} [{tname}]", res, want, dict(kind="enu", fn=name)):
                        continue
                    res = res.reshape(-1, 3, 3)
                    for k, (la_, lo_) in enumerate(rows):
                        rep = dict(kind="enu", fn=name, lat=float(la_), lon=float(lo_), input_form=f"{cname} [{tname}]", observed=fl(res[k]),
                                   how=f"{name}: {cname} with lat={la_!r}, lon={lo_!r} as {tname}")
                        fam["enu"].add(emit.pair(emit.b(to_trs), emit.dy(la_), emit.dy(lo_), dys(res[k])), rep)
                        ctx.case(("enu-kw", to_trs, float(la_), float(lo_), cname, tname), nontrivial=True)
                    ctx.count(f"enu:keyword:{cname}:{tname}")

    # ---- C. reference positions in every system (trs, llh) on every ellipsoid; the triad against the ellipsoid normal at the
    #         position (independent of midgard's latitude/longitude); difference vectors, shapes (3,), (1,3), (n,3)
    from midgard.math import ellipsoid as ELL
    ELLS = [ELL.GRS80, ELL.sphere, ELL.WGS72, ELL.WGS84, ELL.IERS2003, ELL.IERS2010, ELL.DORIS]

    def gen_ell():
        return ELL.GRS80 if rng.random() < 0.3 else rng.choice(ELLS)

    def gen_llh():
        lat, lon = gen_latlon(rng)
        h = rng.choice([0.0, 100.0, -1e4, 8848.0, 2e7, 4e7]) if rng.random() < 0.5 else rng.uniform(-1e4, 1e5)
        return np.array([lat, lon, h])

    def normal_case(ell, x, e, n_, u, base, how):
        rep = dict(base, kind="normal", ellipsoid=ell.name, a=float(ell.a), e2=float(ell.e2), trs=fl(x), east=fl(e), north=fl(n_), up=fl(u),
                   how=how + " (.enu_east/.enu_north/.enu_up against the ellipsoid normal at the position)")
        fam["normal"].add(emit.pair(emit.dy(ell.a), emit.dy(ell.e2), dys(x), dys(e), dys(n_), dys(u)), rep)
        ctx.case(("normal", ell.name, fl(x), how), nontrivial=True, sample=rep if ell.name == "WGS72" and len(fam["normal"].terms) % 50 == 0 else None)
        ctx.count(f"normal:{ell.name}")

    def do_refs(shape, system, ell, rows, tag):
        """rows: (n,3) coordinates in `system`; runs matrices, triad, normal, deltas, round trips, PosVel frame, in-place history"""
        n = len(rows)
        mk = (lambda a: fresh(a[0])) if shape == "(3,)" else (lambda a: fresh(a))
        ref = Position(mk(rows), system=system, ellipsoid=ell)
        refs = out(ref.trs.val).reshape(-1, 3)
        ds = np.array([gen_delta(rng) for _ in range(n)])
        llh = out(ref.llh.val).reshape(-1, 3)
        e2t = out(ref.enu2trs).reshape(-1, 3, 3)
        t2e = out(ref.trs2enu).reshape(-1, 3, 3)
        east, north, up = (out(x).reshape(-1, 3) for x in (ref.enu_east, ref.enu_north, ref.enu_up))
        srep = dict(kind="shape", shape=shape, ref_system=system, ellipsoid=ell.name, ref=fl(rows[0]))
        want = np.shape(mk(ds))
        d_trs = PositionDelta(mk(ds), system="trs", ref_pos=ref)
        enu = conv("PositionDelta(d, 'trs', ref_pos=ref).enu.val", lambda: d_trs.enu.val, want, 3, srep)
        back = conv("PositionDelta(d, 'trs', ref_pos=ref).enu.trs.val", lambda: d_trs.enu.trs.val, want, 3, srep)
        d_enu = PositionDelta(mk(ds), system="enu", ref_pos=ref)
        trs = conv("PositionDelta(d, 'enu', ref_pos=ref).trs.val", lambda: d_enu.trs.val, want, 3, srep)
        back2 = conv("PositionDelta(d, 'enu', ref_pos=ref).trs.enu.val", lambda: d_enu.trs.enu.val, want, 3, srep)
        # position/velocity reference on the same ellipsoid: its frame is the frame of its position part
        vel = np.array([gen_delta(rng) * 1e-3 for _ in range(n)])
        pv_ref = PosVel(mk(np.hstack([refs, np.array([gen_unit(rng) * 3e3 for _ in range(n)])])), system="trs", ellipsoid=ell)
        pv_e, pv_n, pv_u = (out(x).reshape(-1, 3) for x in (pv_ref.enu_east, pv_ref.enu_north, pv_ref.enu_up))
        pv_llh = out(pv_ref.pos.llh.val).reshape(-1, 3)     # the latitude/longitude this object uses (trs2llh is C05; its error grows to
        #                                                     2e-11 rad at 2e7 m height); the frame itself is checked by normal_case
        pvd = PosVelDelta(mk(np.hstack([ds, vel])), system="trs", ref_pos=pv_ref)
        want6 = np.shape(mk(np.hstack([ds, vel])))
        pv_enu = conv("PosVelDelta(dv, 'trs', ref_pos=pv).enu.val", lambda: pvd.enu.val, want6, 6, srep)
        pv_back = conv("PosVelDelta(dv, 'trs', ref_pos=pv).enu.trs.val", lambda: pvd.enu.trs.val, want6, 6, srep)
        ctx.count(f"delta:shape:{shape}")
        ctx.count(f"ref:system:{system}")
        for i in range(n):
            la, lo = llh[i, 0], llh[i, 1]
            base = dict(ref=fl(rows[i]), ref_system=system, ref_trs=fl(refs[i]), ellipsoid=ell.name, lat=float(la), lon=float(lo), shape=shape, row=i, tag=tag)
            ctx.count("delta:ref:" + ("pole" if abs(abs(la) - PI / 2) < 1e-9 else "south" if la < 0 else "north"))
            ctx.count("delta:mag:" + ("zero" if not ds[i].any() else f"1e{int(math.floor(math.log10(np.linalg.norm(ds[i]))))}"))
            fam["enu"].add(emit.pair(emit.b(True), emit.dy(la), emit.dy(lo), dys(e2t[i])),
                           dict(base, kind="enu", fn="Position.enu2trs", observed=fl(e2t[i]), how=f"Position(ref, system={system!r}, ellipsoid={ell.name}).enu2trs"))
            fam["enu"].add(emit.pair(emit.b(False), emit.dy(la), emit.dy(lo), dys(t2e[i])),
                           dict(base, kind="enu", fn="Position.trs2enu", observed=fl(t2e[i]), how=f"Position(ref, system={system!r}, ellipsoid={ell.name}).trs2enu"))
            fam["triad"].add(emit.pair(dys(e2t[i]), dys(east[i]), dys(north[i]), dys(up[i])),
                             dict(base, kind="triad", enu2trs=fl(e2t[i]), east=fl(east[i]), north=fl(north[i]), up=fl(up[i]),
                                  how="Position.enu_east/north/up vs columns of Position.enu2trs"))
            normal_case(ell, refs[i], east[i], north[i], up[i], base, f"Position(ref, system={system!r}, ellipsoid={ell.name})")
            normal_case(ell, refs[i], pv_e[i], pv_n[i], pv_u[i], base, f"PosVel([ref_trs, v], system='trs', ellipsoid={ell.name})")
            for to_trs, dd, oo, how, (la_, lo_) in (
                    (False, ds[i], enu[i], "PositionDelta(d, 'trs', ref_pos=ref).enu", (la, lo)),
                    (True, ds[i], trs[i], "PositionDelta(d, 'enu', ref_pos=ref).trs", (la, lo)),
                    (False, ds[i], pv_enu[i, :3], "PosVelDelta(dv, 'trs', ref_pos=pv).enu [pos]", pv_llh[i, :2]),
                    (False, vel[i], pv_enu[i, 3:], "PosVelDelta(dv, 'trs', ref_pos=pv).enu [vel]", pv_llh[i, :2])):
                rep = dict(base, kind="delta", to_trs=to_trs, d=fl(dd), observed=fl(oo), how=how, lat=float(la_), lon=float(lo_))
                fam["delta"].add(emit.pair(emit.b(to_trs), emit.dy(la_), emit.dy(lo_), dys(dd), dys(oo)), rep)
                ctx.case(("delta", to_trs, system, ell.name, fl(refs[i]), fl(dd)), nontrivial=bool(dd.any()), sample=rep if shape == "(n,3)" and i == 1 and tag == "random" else None)
            for dd, bb, how in ((ds[i], back[i], ".enu.trs"), (ds[i], back2[i], ".trs.enu"),
                                (ds[i], pv_back[i, :3], "posvel .enu.trs [pos]"), (vel[i], pv_back[i, 3:], "posvel .enu.trs [vel]")):
                fam["rt"].add(emit.pair(dys(dd), dys(bb)), dict(base, kind="roundtrip", d=fl(dd), back=fl(bb), how=how))
                ctx.case(("rt", fl(refs[i]), fl(dd), how), nontrivial=bool(np.any(dd)))
        # history: read the frame (done above), move the position in place, read it again
        if system == "trs" and (tag == "corpus" or rng.random() < 0.4):
            j = rng.randrange(n)
            new = gen_ref_trs(rng) if rng.random() < 0.7 else np.array([0.0, 0.0, -6356752.3141])
            if shape == "(3,)":
                ref[:] = fresh(new)
            elif n == 1:
                ref[:] = fresh([new])
            else:
                ref[j] = fresh(new)
            refs2 = out(ref.trs.val).reshape(-1, 3)
            e2t2 = out(ref.enu2trs).reshape(-1, 3, 3)
            east2, north2, up2 = (out(x).reshape(-1, 3) for x in (ref.enu_east, ref.enu_north, ref.enu_up))
            ctx.count("history:setitem")
            for i in range(n):
                base = dict(ref_trs=fl(refs2[i]), ellipsoid=ell.name, shape=shape, row=i, moved_row=j, tag=tag,
                            history="read frame; ref[row] = new position (in place); read frame again")
                fam["triad"].add(emit.pair(dys(e2t2[i]), dys(east2[i]), dys(north2[i]), dys(up2[i])),
                                 dict(base, kind="triad", enu2trs=fl(e2t2[i]), east=fl(east2[i]), north=fl(north2[i]), up=fl(up2[i]),
                                      how="after in-place move: enu_east/north/up vs columns of enu2trs"))
                normal_case(ell, refs2[i], east2[i], north2[i], up2[i], base, "Position after in-place __setitem__")

    SP = [0.0, 0.0, -6356752.3141]
    corpus_rows = [("(3,)", [SP]), ("(1,3)", [SP]),
                   ("(n,3)", [[3771793.968, 140253.342, 5124304.349], SP, [0.0, 0.0, 6356752.3141], [4e-10, -3e-10, -6.4e6], [0.0, 0.0, -7e6]]),
                   ("(3,)", [[4e-10, -3e-10, -6356752.0]]), ("(3,)", [[0.0, 0.0, 6356752.3141]])]
    for ell in (ELL.GRS80, ELL.WGS72):
        for shape, rows in corpus_rows:
            do_refs(shape, "trs", ell, np.array(rows, dtype=float), "corpus")
    do_refs("(n,3)", "llh", ELL.WGS72, np.array([[-PI / 2, 0.0, 0.0], [PI / 2, 1.0, 100.0], [-0.8, 2.0, 50.0]]), "corpus")
    n_ref = 40 if q else 500
    for _ in range(n_ref):
        shape = rng.choice(["(3,)", "(1,3)", "(n,3)", "(n,3)"])
        n = 1 if shape != "(n,3)" else rng.randrange(2, 6)
        system = rng.choice(["trs", "llh"])
        ell = gen_ell()
        if system == "llh":
            rows = np.array([gen_llh() for _ in range(n)])
        else:
            rows = np.array([gen_ref_trs(rng) if rng.random() < 0.5 else out(Position(gen_llh(), system="llh", ellipsoid=ell).trs.val) for _ in range(n)])
        do_refs(shape, system, ell, rows, "random")

    # ---- D. along / cross / radial
    def do_orbit(shape, states, dd6, tag):
        n = len(states)
        mk = (lambda a: fresh(a[0])) if shape == "(6,)" else (lambda a: fresh(a))
        pv = PosVel(mk(states), system="trs")
        t2a = out(pv.trs2acr).reshape(-1, 3, 3)
        a2t = out(pv.acr2trs).reshape(-1, 3, 3)
        srep = dict(kind="shape", shape=shape, state=fl(states[0]))
        want6 = np.shape(mk(dd6))
        d_trs = PosVelDelta(mk(dd6), system="trs", ref_pos=pv)
        acr = conv("PosVelDelta(d, 'trs', ref_pos=pv).acr.val", lambda: d_trs.acr.val, want6, 6, srep)
        back = conv("PosVelDelta(d, 'trs', ref_pos=pv).acr.trs.val", lambda: d_trs.acr.trs.val, want6, 6, srep)
        d_acr = PosVelDelta(mk(dd6), system="acr", ref_pos=pv)
        trs = conv("PosVelDelta(d, 'acr', ref_pos=pv).trs.val", lambda: d_acr.trs.val, want6, 6, srep)
        # the unit vectors of the triad as attributes: columns of acr2trs, bit for bit
        try:
            axes = [out(x).reshape(-1, 3) for x in (pv.acr_along, pv.acr_cross, pv.acr_radial)]
        except IndexError as e:
            axes = None
            arep = dict(srep, kind="acr_axes", how="PosVel(state, system='trs').acr_along / .acr_cross", error=f"IndexError: {e}")
            if shape == "(6,)":
                ctx.count("quirk:acr_axes_1d_indexerror")
                ctx.finding("c06_acr_axes_1d_indexerror", "PosVelArray.acr_along/acr_cross raise IndexError for a single (6,) state", arep)
            else:
                other_mism.append(dict(arep, what="acr_along/acr_cross raised IndexError"))
        ctx.count(f"acr:shape:{shape}")
        for i in range(n):
            r, v = states[i, :3], states[i, 3:]
            base = dict(state=fl(states[i]), shape=shape, row=i)
            rep = dict(base, kind="acr_mat", observed=fl(t2a[i]), how="PosVel(state, system='trs').trs2acr")
            fam["acrm"].add(emit.pair(dys(r), dys(v), dys(t2a[i])), rep)
            fam["negT"].add(emit.pair(dys(t2a[i]), dys(a2t[i])), dict(base, kind="negT", fn="PosVel.acr2trs vs trs2acr.T",
                                                                       Ra=fl(t2a[i]), Rminus=fl(a2t[i]), how="PosVel.acr2trs == PosVel.trs2acr.T"))
            ctx.case(("acrm", fl(states[i]), shape == "(6,)"), nontrivial=True, sample=rep if i == 0 and shape == "(n,6)" else None)
            if axes is not None:
                fam["triad"].add(emit.pair(dys(a2t[i]), dys(axes[0][i]), dys(axes[1][i]), dys(axes[2][i])),
                                 dict(base, kind="triad", acr2trs=fl(a2t[i]), along=fl(axes[0][i]), cross=fl(axes[1][i]), radial=fl(axes[2][i]),
                                      how="PosVel.acr_along/acr_cross/acr_radial vs columns of PosVel.acr2trs"))
                ctx.case(("acr_axes", fl(states[i])), nontrivial=True)
            for to_trs, dd, oo, how in ((False, dd6[i, :3], acr[i, :3], "PosVelDelta(d, 'trs', ref_pos=pv).acr [pos]"),
                                        (False, dd6[i, 3:], acr[i, 3:], "PosVelDelta(d, 'trs', ref_pos=pv).acr [vel]"),
                                        (True, dd6[i, :3], trs[i, :3], "PosVelDelta(d, 'acr', ref_pos=pv).trs [pos]")):
                rep = dict(base, kind="acr_delta", to_trs=to_trs, d=fl(dd), observed=fl(oo), how=how)
                fam["acrd"].add(emit.pair(emit.b(to_trs), dys(r), dys(v), dys(dd), dys(oo)), rep)
                ctx.case(("acrd", to_trs, fl(states[i]), fl(dd), shape == "(6,)"), nontrivial=bool(dd.any()))
            for dd, bb in ((dd6[i, :3], back[i, :3]), (dd6[i, 3:], back[i, 3:])):
                fam["rt"].add(emit.pair(dys(dd), dys(bb)), dict(base, kind="roundtrip", d=fl(dd), back=fl(bb), how="posvel .acr.trs"))
                ctx.case(("rt-acr", fl(states[i]), fl(dd)), nontrivial=bool(dd.any()))
        # histories on ONE object: differences given in a local frame, converted to the other local frame (two hops over trs) and
        # asked for .trs before and/or after; every answer against the rotation model, not only against each other
        pv_llh = out(pv.pos.llh.val).reshape(-1, 3)
        fresh_e = conv("PosVelDelta(d, 'enu', ref_pos=pv).trs.val", lambda: PosVelDelta(mk(dd6), system="enu", ref_pos=pv).trs.val, want6, 6, srep)
        fresh_a = conv("PosVelDelta(d, 'acr', ref_pos=pv).trs.val", lambda: PosVelDelta(mk(dd6), system="acr", ref_pos=pv).trs.val, want6, 6, srep)
        hist = []
        for src, other in (("enu", "acr"), ("acr", "enu")):
            for order in ("other,trs", "trs,other,trs"):
                obj = PosVelDelta(mk(dd6), system=src, ref_pos=pv)
                if order.startswith("trs"):
                    obj.trs.val
                o_val = conv(f"PosVelDelta(d, {src!r}, ref_pos=pv).{other}.val", lambda: getattr(obj, other).val, want6, 6, srep)
                t_val = conv(f"PosVelDelta(d, {src!r}, ref_pos=pv): .{other} then .trs.val", lambda: obj.trs.val, want6, 6, srep)
                hist.append((src, other, order, o_val, t_val))
                ctx.count(f"history:{src}->{other}:{order}")
        for i in range(n):
            r, v = states[i, :3], states[i, 3:]
            la, lo = pv_llh[i, 0], pv_llh[i, 1]
            base = dict(state=fl(states[i]), shape=shape, row=i, lat=float(la), lon=float(lo), tag=tag)
            for lo3, hi3, half in ((0, 3, "pos"), (3, 6, "vel")):
                dd = dd6[i, lo3:hi3]
                def delta_case(to_trs, din, oo, how):
                    rep = dict(base, kind="delta", to_trs=to_trs, d=fl(din), observed=fl(oo), how=how)
                    fam["delta"].add(emit.pair(emit.b(to_trs), emit.dy(la), emit.dy(lo), dys(din), dys(oo)), rep)
                    ctx.case(("hist-delta", to_trs, fl(states[i]), fl(din), how), nontrivial=bool(np.any(din)))
                def acr_case(to_trs, din, oo, how):
                    rep = dict(base, kind="acr_delta", to_trs=to_trs, d=fl(din), observed=fl(oo), how=how)
                    fam["acrd"].add(emit.pair(emit.b(to_trs), dys(r), dys(v), dys(din), dys(oo)), rep)
                    ctx.case(("hist-acr", to_trs, fl(states[i]), fl(din), how), nontrivial=bool(np.any(din)))
                delta_case(True, dd, fresh_e[i, lo3:hi3], f"fresh PosVelDelta(d, 'enu', ref_pos=pv).trs [{half}]")
                acr_case(True, dd, fresh_a[i, lo3:hi3], f"fresh PosVelDelta(d, 'acr', ref_pos=pv).trs [{half}]")
                for src, other, order, o_val, t_val in hist:
                    how = f"one object PosVelDelta(d, {src!r}, ref_pos=pv), accesses {order.replace('other', other)} [{half}]"
                    if src == "enu":      # acr = trs2acr (enu2trs d);  trs = enu2trs d
                        acr_case(False, fresh_e[i, lo3:hi3], o_val[i, lo3:hi3], how + " : the .acr value against trs2acr * (enu2trs * d)")
                        delta_case(True, dd, t_val[i, lo3:hi3], how + " : the last .trs value against enu2trs * d")
                    else:                 # enu = trs2enu (acr2trs d);  trs = acr2trs d
                        delta_case(False, fresh_a[i, lo3:hi3], o_val[i, lo3:hi3], how + " : the .enu value against trs2enu * (acr2trs * d)")
                        acr_case(True, dd, t_val[i, lo3:hi3], how + " : the last .trs value against acr2trs * d")

    S0 = [15095082.616, -16985925.155, 13592114.624, 1000.0, 2000.0, -1500.0]
    S1 = [-4.2e7 * 0.6, 4.2e7 * 0.8, 1.0e5, -2460.0, -1845.0, 30.0]
    D0 = [1.0, 2.0, 3.0, 0.1, 0.2, 0.3]
    D1 = [-250.0, 40.5, 7.25, 1e-3, -2e-3, 5e-4]
    for shape, st, dd in (("(6,)", [S0], [D0]), ("(1,6)", [S1], [D1]), ("(n,6)", [S0, S1, S0], [D0, D1, D1])):
        do_orbit(shape, np.array(st), np.array(dd), "corpus")
    n_orb = 26 if q else 320
    for _ in range(n_orb):
        shape = rng.choice(["(6,)", "(1,6)", "(n,6)", "(n,6)"])
        n = 1 if shape != "(n,6)" else rng.randrange(2, 5)
        states = np.array([gen_state(rng) for _ in range(n)])
        dd6 = np.array([np.concatenate([gen_delta(rng), gen_delta(rng) * 1e-3]) for _ in range(n)])
        do_orbit(shape, states, dd6, "random")

    # ---- E. azimuth / elevation / zenith distance; reference and target stored in either system, any ellipsoid
    n_az = 70 if q else 600
    for _ in range(n_az):
        shape = rng.choice(["(3,)", "(n,3)"])
        n = 1 if shape == "(3,)" else rng.randrange(2, 5)
        ell = gen_ell()
        rsys, osys = rng.choice(["trs", "llh"]), rng.choice(["trs", "llh"])
        if rsys == "llh":
            rrows = np.array([gen_llh() for _ in range(n)])
        else:
            rrows = np.array([gen_ref_trs(rng) for _ in range(n)])
        others = []
        for i in range(n):
            p = Position(fresh(rrows[i]), system=rsys, ellipsoid=ell)
            m = out(p.enu2trs).reshape(3, 3)   # (1,3,3) when trs2llh's cache was filled by a (1,3) call with the same bytes (C08)
            u = rng.random()
            el = rng.choice([PI / 2, -PI / 2, 0.0, 1.5, 1.5707, -1.0]) if u < 0.3 else math.asin(rng.uniform(-1, 1))
            az = rng.choice([0.0, PI, -PI, PI / 2, -PI / 2, math.nextafter(PI, 0)]) if rng.random() < 0.3 else rng.uniform(-PI, PI)
            dist = 10 ** rng.uniform(0, 7.6)
            enu_vec = dist * np.array([math.cos(el) * math.sin(az), math.cos(el) * math.cos(az), math.sin(el)])
            others.append(out(p.trs.val).reshape(3) + m @ enu_vec)
            ctx.count("azel:" + ("zenith/nadir" if abs(abs(el) - PI / 2) < 1e-3 else "south-cut" if abs(abs(az) - PI) < 1e-6 else "general"))
        others = np.array(others)
        mk = (lambda a: fresh(a[0])) if shape == "(3,)" else (lambda a: fresh(a))
        if osys == "llh":
            orows = out(Position(fresh(others), system="trs", ellipsoid=ell).llh.val).reshape(-1, 3)
        else:
            orows = others
        oth = Position(mk(orows), system=osys, ellipsoid=ell)
        ref = Position(mk(rrows), system=rsys, ellipsoid=ell, other=oth)
        ctx.count(f"azel:systems:{rsys}->{osys}")
        refs = out(ref.trs.val).reshape(-1, 3)
        oths = out(oth.trs.val).reshape(-1, 3)
        llh = out(ref.llh.val).reshape(-1, 3)
        east, north, up = (out(x).reshape(-1, 3) for x in (ref.enu_east, ref.enu_north, ref.enu_up))
        az_o = out(ref.azimuth).reshape(-1)
        el_o = out(ref.elevation).reshape(-1)
        zd_o = out(ref.zenith_distance).reshape(-1)
        az2 = out(ref.azimuth_to(oth)).reshape(-1)
        el2 = out(ref.elevation_to(oth)).reshape(-1)
        zd2 = out(ref.zenith_distance_to(oth)).reshape(-1)
        for i in range(n):
            base = dict(ref=fl(rrows[i]), ref_system=rsys, other=fl(orows[i]), other_system=osys, ellipsoid=ell.name,
                        ref_trs=fl(refs[i]), other_trs=fl(oths[i]), lat=float(llh[i, 0]), lon=float(llh[i, 1]), shape=shape, row=i)
            normal_case(ell, refs[i], east[i], north[i], up[i], base, f"Position(ref, system={rsys!r}, ellipsoid={ell.name}) [azel reference]")
            for form, (a_, e_, z_) in (("property", (az_o[i], el_o[i], zd_o[i])), ("_to", (az2[i], el2[i], zd2[i]))):
                rep = dict(base, kind="azel", form=form, observed=dict(azimuth=float(a_), elevation=float(e_), zenith_distance=float(z_)),
                           how=f"Position(ref, system={rsys!r}, ellipsoid={ell.name}, other=Position(other, system={osys!r}, ...))"
                               + (".azimuth/.elevation/.zenith_distance" if form == "property" else ".azimuth_to/.elevation_to/.zenith_distance_to(other)"))
                fam["azel"].add(emit.pair(emit.dy(llh[i, 0]), emit.dy(llh[i, 1]), dys(refs[i]), dys(oths[i]),
                                          emit.dy(a_), emit.dy(e_), emit.dy(z_)), rep)
                ctx.case(("azel", rsys, osys, fl(refs[i]), fl(oths[i]), form), nontrivial=True, sample=rep if i == 0 and form == "property" and shape == "(n,3)" else None)

    # ---------------------------------------------------------------- evaluate inside Coq and decide
    names = list(fam)
    all_shards, owner = [], []
    for nme in names:
        sh = emit.shard_terms(fam[nme].fn, fam[nme].terms, fam[nme].size)
        all_shards += sh
        owner += [nme] * len(sh)
    ctx.log("cases: " + ", ".join(f"{n}={len(fam[n].terms)}" for n in names) + f"; {len(all_shards)} shards")
    vs = ctx.coq_cases(all_shards, REQ)
    for i, v in enumerate(vs):        # a shard killed from outside (memory pressure of parallel builds) is re-run once, alone
        if v is None:
            ctx.notes.append(f"shard {i} ({owner[i]}) re-run after failure")
            vs[i] = ctx.coq_cases([all_shards[i]], REQ)[0]
    for nme in names:
        mine = [v for v, o in zip(vs, owner) if o == nme]
        flat = emit.flatten_verdicts(mine, len(fam[nme].terms))
        if flat is None:
            ctx.violation({"broken": f"correspondence shards of family {nme} did not evaluate in Coq", "errors": ctx.last_coq_errors[:2]},
                          what="correspondence (model evaluation) failed", found=False)
            continue
        for v, rep in zip(flat, fam[nme].meta):
            if v == 0:
                continue
            if v == 2 and rep.get("shape") == "(6,)":
                ctx.count("quirk:acr_1d_transposed")
                ctx.finding("c06_acr_1d_transposed",
                            "PosVelArray.trs2acr of a single (6,) state stacks the along/cross/radial unit vectors as columns "
                            "(np.stack(axis=1)): trs2acr/acr2trs are swapped, .acr of a difference is not its along/cross/radial "
                            "components", rep)
            elif v == 3 and rep.get("kind") == "azel":
                ctx.count("quirk:elevation_nan_at_zenith")
                ctx.finding("c06_elevation_nan_at_zenith",
                            "elevation/zenith_distance are NaN for a target at the zenith or nadir: the rounded projection of the unit "
                            "direction on Up exceeds 1 by an ulp and np.arcsin returns nan", rep)
            else:
                ctx.violation(rep, what=f"midgard's result differs from the model ({rep.get('kind')}: {rep.get('how')})")
    for rep in other_mism:
        ctx.violation(rep, what=rep.get("what", "outside the model"))

    if not ok and not ctx.violations:
        ctx.obligations_broken(lambda: None)
    ctx.trusted += [
        "Coq 8.16.1 kernel, coqc, vm_compute (no native_compute)",
        "Coq-Interval 4.x (FloatIntervalFull over BigZ radix-2 floats; enclosure lemmas proved in Coq, used through Lib/Ival.v)",
        "Coquelicot (is_derive) and the standard library's classical real numbers",
        "hand-written model coq/theories/Model/C06_Rot.v (validated against midgard by this run's correspondence)",
        "harness/drivers/c06.py (generators, call of the implementation, exact term emission)",
    ]
    ctx.assume += [
        "latitude/longitude of a reference position are the doubles midgard's trs2llh returns (geodetic conversion is C05)",
        "orbit states have r x v != 0 (generated with sin(angle(r, v)) > 0.05)",
        "implementation-vs-model budget: relative 1e-12 per entry (absolute 1e-15 at zero entries), 8 ulp (32 ulp for the "
        "normalised acr triad) on the orthogonality/determinant certificates; round trip relative 1e-9 as stated",
    ]
    return ctx.finish(
        level="proof",
        rule=("angles: uniform in [-4pi,4pi] + multiples of pi/4, 1e-300, neighbours of pi/2 and pi; scalar/(n,)/(1,)/list inputs; "
              "lat/lon: uniform on the sphere + poles, equator, date line, +-1e-10; reference positions from llh (heights -1e4..4e7) "
              "+ exact pole/axis points; differences: zero, axis aligned, random direction, 1e-9..1e8 m; shapes (3,),(1,3),(n,3); "
              "orbit states LEO..GEO, speeds 0.5..11 km/s, incl. circular; targets at az/el incl. zenith, nadir, horizon, due "
              "south (atan2 cut). distinct_nontrivial = distinct (function, input, input form) with a non-zero angle/vector"),
    )


def replay(ctx, path):
    rep = json.load(open(path))
    print(json.dumps(rep, indent=1))
    how = rep.get("how")
    if how:
        print("implementation call:", how)
    print("re-run: VERIF_SEED=%s /venv/bin/python run_check.py C06 %s" % (rep.get("seed"), rep.get("tier", "quick")))
    return 0
