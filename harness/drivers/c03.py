"""C03 - Time and time-difference arithmetic obeys the affine laws (DESIGN 4.3).

Proof obligations: coq/theories/Props/C03.v  (model: Model/C03_TimeArith.v, lemmas: Proofs/C03_*.v).

Tie to the source, re-established on every run:
  * `regen`: a small fail-closed `ast` translator turns the bodies of TimeArray.__add__/__sub__ and
    TimeDeltaArray.__add__/__sub__ (midgard/data/_time.py) into terms of the program language of the model
    (Gen/C03_TimeArith.v).  Coq decides which member of the faithful model family the regenerated methods
    are (`gen_is_model`, by linear normal forms) - the specification, or the specification with listed quirks.
  * correspondence: real Time/TimeDelta arithmetic on all scales / duration formats / scalar and array
    operands, exact doubles shipped to Coq, compared there with the rational model (1/2 ns per operation,
    1 ns per law), plus byte images and flags of every operand / caller array before and after."""
from __future__ import annotations

import ast
import json
import os
from datetime import datetime, timedelta
from fractions import Fraction

from harness import core, emit

META = {
    "property_id": "C03",
    "level": "proof",
    "design_ref": "DESIGN.md 4.3",
    "technique": ("Coq proof over all rationals on a specification model of two-part Julian-date arithmetic; the four arithmetic "
                  "methods are regenerated from the source by an ast translator and proved equal to a member of the model family "
                  "(reflective linear normal form); vm_compute correspondence with midgard on exact doubles"),
    "level_text": (
        "Theorems in Coq 8.16 for all rational epochs/durations (no range limit): (t+d)-t=d, (t-d)+d=t, (t2-t1)+t1=t2, "
        "t-d=t+(-d), d1+d2=d2+d1, (d1+d2)-d2=d1, t+d=d+t, and generally every accepted expression over +, -, unary minus "
        "evaluates to the signed sum of its leaves (all operation sequences, by induction); independence of the duration format, refusal of mixed scales and of "
        "time+time / duration-time, scale and format of every result, and a rounding-error bound (two-part arithmetic on "
        "half-integer day parts loses < 0.04 ns for any rounding function with relative error 2^-53). The methods' bodies are "
        "re-read from /repo on every run and proved (kernel) to equal the model with the quirk set Coq computes for them; so are "
        "TimeDeltaArray.__neg__ and the eight _to_jds/_from_jds bodies of the four duration formats (unit factors, floor split). "
        "Operand integrity: state machine over cells, theorem for all call sequences; rounding bound discharged for IEEE "
        "binary64 with Flocq. numpy broadcasting and datetime.timedelta rounding are tied by the correspondence."),
    "level_note": (
        "Trusted: Coq kernel + vm_compute; the ast translator in harness/drivers/c03.py (about 150 lines, refuses what it does not "
        "know); that numpy's float64 + is IEEE binary64 addition (Flocq's b64_plus); standard real-number axioms in "
        "two_part_accuracy_binary64."),
}

THEOREMS = [
    "add_sub_cancel", "sub_add_cancel", "diff_add", "sub_is_add_neg", "delta_add_comm", "delta_add_sub",
    "time_delta_add_comm", "expression_affine", "expression_same_point", "expression_defined", "duration_format_irrelevant", "mixed_scale_refused", "meaningless_refused",
    "result_scale_fmt", "operands_untouched", "results_fresh_and_frozen", "c03_seconds_inplace_refuted", "c03_val2_aliased_refuted",
    "delta_to_jds_value", "delta_to_jds_normalised", "delta_from_to_jds",
    "two_part_accuracy", "two_part_accuracy_binary64", "method_eqb_sound", "method_eqb_complete", "gen_is_model", "gen_neg_is_model", "gen_delta_formats_are_model", "gen_laws_if_clean",
    "gen_delta_class_for_every_scale",
    "c03_sub_drops_days_refuted", "c03_add_collapses_refuted", "c03_neg_keeps_jds_refuted",
]

REQ = "From Verif Require Import Lib.Dyadic Model.C03_TimeArith Model.C03_Cells."                      # correspondence: hand model only
REQ_GEN = "From Verif Require Import Model.C03_TimeArith Gen.C03_TimeArith Model.C03_Classify."
SRC = os.path.join("midgard", "data", "_time.py")


# ============================================================================= the ast translator
class Refuse(Exception):
    """The source has a shape the translator does not know: nothing is generated from it (fail closed)."""


KIND_OF_CLASS = {"TimeArray": "KTime", "TimeDeltaArray": "KDelta"}
OPS = [("TimeAdd", "TimeArray", "__add__"), ("TimeSub", "TimeArray", "__sub__"),
       ("DeltaAdd", "TimeDeltaArray", "__add__"), ("DeltaSub", "TimeDeltaArray", "__sub__")]


def _is_name(n, name):
    return isinstance(n, ast.Name) and n.id == name


def _who(n):
    if _is_name(n, "self"):
        return "Self"
    if _is_name(n, "other"):
        return "Other"
    return None


def _is_not_implemented_return(st):
    return isinstance(st, ast.Return) and _is_name(st.value, "NotImplemented")


def _is_scale_attr(n, who):
    return isinstance(n, ast.Attribute) and n.attr == "scale" and _who(n.value) == who


def _is_scale_guard(st):
    """`if self.scale != other.scale: return NotImplemented` (either order, or `not a == b`)."""
    if not (isinstance(st, ast.If) and not st.orelse and len(st.body) == 1 and _is_not_implemented_return(st.body[0])):
        return False
    t = st.test
    neg = False
    if isinstance(t, ast.UnaryOp) and isinstance(t.op, ast.Not):
        neg, t = True, t.operand
    if not (isinstance(t, ast.Compare) and len(t.ops) == 1 and len(t.comparators) == 1):
        return False
    a, b = t.left, t.comparators[0]
    sides = (_is_scale_attr(a, "Self") and _is_scale_attr(b, "Other")) or (_is_scale_attr(a, "Other") and _is_scale_attr(b, "Self"))
    if not sides:
        return False
    return isinstance(t.ops[0], ast.Eq) if neg else isinstance(t.ops[0], ast.NotEq)


def _isinstance_kind(test):
    if (isinstance(test, ast.Call) and _is_name(test.func, "isinstance") and len(test.args) == 2 and not test.keywords
            and _is_name(test.args[0], "other") and isinstance(test.args[1], ast.Name) and test.args[1].id in KIND_OF_CLASS):
        return KIND_OF_CLASS[test.args[1].id]
    return None


class _Branch:
    """Translate one straight-line branch body; locals are inlined."""

    def __init__(self, self_kind, other_kind):
        self.kinds = {"Self": self_kind, "Other": other_kind}
        self.env = {}

    def num(self, n):
        if isinstance(n, ast.Attribute) and _who(n.value):
            w = _who(n.value)
            if n.attr in ("jd1", "jd2"):
                return f"(EAttr {w} {'Jd1' if n.attr == 'jd1' else 'Jd2'})"
            if n.attr == "jd" or (n.attr == "days" and self.kinds[w] == "KDelta"):
                return f"(EAttr {w} Days)"          # .jd / .days = jd1 + jd2 (TimeJD/TimeDeltaJD/TimeDeltaDay._from_jds)
            raise Refuse(f"attribute .{n.attr} in arithmetic")
        if isinstance(n, ast.Name):
            if n.id in self.env and self.env[n.id][0] == "num":
                return self.env[n.id][1]
            raise Refuse(f"name {n.id!r} is not a numeric local")
        if isinstance(n, ast.BinOp) and isinstance(n.op, (ast.Add, ast.Sub)):
            return f"({'EAdd' if isinstance(n.op, ast.Add) else 'ESub'} {self.num(n.left)} {self.num(n.right)})"
        if isinstance(n, ast.UnaryOp) and isinstance(n.op, ast.USub):
            return f"(ENeg {self.num(n.operand)})"
        if isinstance(n, ast.UnaryOp) and isinstance(n.op, ast.UAdd):
            return self.num(n.operand)
        raise Refuse(f"expression {ast.dump(n)[:80]}")

    def fmt(self, n):
        if isinstance(n, ast.Attribute) and n.attr == "fmt" and _who(n.value):
            return f"(FmtOf {_who(n.value)})"
        if isinstance(n, ast.Constant) and isinstance(n.value, str):
            return f"(FmtConst {emit.s(n.value)})"
        if isinstance(n, ast.Name) and n.id in self.env and self.env[n.id][0] == "fmt":
            return self.env[n.id][1]
        if (isinstance(n, ast.IfExp) and isinstance(n.body, ast.Constant) and isinstance(n.body.value, str)
                and isinstance(n.orelse, ast.Constant) and isinstance(n.orelse.value, str)):
            c = self._both_fmt_equal(n.test)
            return f"(FmtIfBoth {emit.s(c)} {emit.s(n.body.value)} {emit.s(n.orelse.value)})"
        raise Refuse(f"format expression {ast.dump(n)[:80]}")

    @staticmethod
    def _both_fmt_equal(test):
        """`self.fmt == other.fmt == "c"` in any order, or `self.fmt == "c" and other.fmt == "c"` -> c."""
        def terms_of_compare(t):
            if isinstance(t, ast.Compare) and all(isinstance(o, ast.Eq) for o in t.ops):
                return [t.left] + list(t.comparators)
            raise Refuse("format condition")
        if isinstance(test, ast.BoolOp) and isinstance(test.op, ast.And):
            groups = [terms_of_compare(v) for v in test.values]
        else:
            groups = [terms_of_compare(test)]
        # union-find by hand: all groups must be linked through a shared term to claim one equality class
        whos, consts = set(), set()
        for g in groups:
            gw, gc = set(), set()
            for term in g:
                if isinstance(term, ast.Attribute) and term.attr == "fmt" and _who(term.value):
                    gw.add(_who(term.value))
                elif isinstance(term, ast.Constant) and isinstance(term.value, str):
                    gc.add(term.value)
                else:
                    raise Refuse("format condition term")
            if len(groups) > 1 and len(gc) != 1:
                raise Refuse("format condition: each conjunct must compare with the constant")
            whos |= gw
            consts |= gc
        if whos != {"Self", "Other"} or len(consts) != 1:
            raise Refuse("format condition does not constrain both formats to one constant")
        return consts.pop()

    def target(self, n):
        w = _who(n)
        if w:
            return "TSelf" if w == "Self" else "TOther"
        if (isinstance(n, ast.Subscript) and isinstance(n.value, ast.Subscript) and _is_name(n.value.value, "_SCALES")
                and isinstance(n.value.slice, ast.Constant) and n.value.slice.value in KIND_OF_CLASS
                and _is_scale_attr(n.slice, "Self")):
            return "TDeltaSelfScale" if n.value.slice.value == "TimeDeltaArray" else "TTimeSelfScale"
        raise Refuse(f"from_jds receiver {ast.dump(n)[:80]}")

    def body(self, stmts):
        for i, st in enumerate(stmts):
            last = i == len(stmts) - 1
            if isinstance(st, ast.Expr) and isinstance(st.value, ast.Constant) and isinstance(st.value.value, str):
                continue
            if isinstance(st, ast.Assign) and len(st.targets) == 1 and isinstance(st.targets[0], ast.Name):
                name = st.targets[0].id
                if name in ("self", "other"):
                    raise Refuse("operand rebound")
                try:
                    self.env[name] = ("num", self.num(st.value))
                except Refuse:
                    self.env[name] = ("fmt", self.fmt(st.value))
                continue
            if isinstance(st, ast.Return) and last:
                if _is_name(st.value, "NotImplemented"):
                    return "ONotImpl"
                c = st.value
                if not (isinstance(c, ast.Call) and isinstance(c.func, ast.Attribute) and c.func.attr == "from_jds"):
                    raise Refuse("return value is not X.from_jds(...)")
                args = {}
                for k, a in zip(("jd1", "jd2", "fmt"), c.args):
                    args[k] = a
                if len(c.args) > 3:
                    raise Refuse("from_jds arguments")
                for kw in c.keywords:
                    if kw.arg not in ("jd1", "jd2", "fmt") or kw.arg in args:
                        raise Refuse("from_jds keyword")
                    args[kw.arg] = kw.value
                if set(args) != {"jd1", "jd2", "fmt"}:
                    raise Refuse("from_jds arguments")
                return f"(OFromJds {self.target(c.func.value)} {self.num(args['jd1'])} {self.num(args['jd2'])} {self.fmt(args['fmt'])})"
            raise Refuse(f"statement {type(st).__name__} at line {getattr(st, 'lineno', '?')}")
        raise Refuse("branch does not end in a return")


def translate_method(fn, self_kind):
    """FunctionDef -> (guard, [(kind, outcome term)])."""
    a = fn.args
    if [x.arg for x in a.args] != ["self", "other"] or a.vararg or a.kwarg or a.kwonlyargs or a.posonlyargs or fn.decorator_list:
        raise Refuse("signature")
    guard = False
    branches = []
    stmts = list(fn.body)
    done = False
    for st in stmts:
        if done:
            raise Refuse("code after the final return")
        if isinstance(st, ast.Expr) and isinstance(st.value, ast.Constant) and isinstance(st.value.value, str):
            continue
        if _is_scale_guard(st):
            if branches:
                raise Refuse("scale guard after a branch")       # branches before the guard would run unguarded
            guard = True
            continue
        if isinstance(st, ast.If):
            node = st
            while True:
                k = _isinstance_kind(node.test)
                if k is None:
                    raise Refuse(f"condition at line {node.lineno}")
                branches.append((k, _Branch(self_kind, k).body(node.body)))
                if not node.orelse:
                    break
                if len(node.orelse) == 1 and isinstance(node.orelse[0], ast.If):
                    node = node.orelse[0]
                    continue
                if len(node.orelse) == 1 and _is_not_implemented_return(node.orelse[0]):
                    done = True
                    break
                raise Refuse(f"else branch at line {node.lineno}")
            continue
        if _is_not_implemented_return(st):
            done = True
            continue
        raise Refuse(f"statement {type(st).__name__} at line {getattr(st, 'lineno', '?')}")
    if not done:
        raise Refuse("method can fall off its end (returns None)")
    return guard, branches


def translate_neg(cls):
    """TimeDeltaArray.__neg__ -> 'NegAbsent' | 'NegUnknown' | '(NegBody <outcome>)'.
    A body outside the grammar is NOT a refusal of the whole translation: the four binary methods stay tied, the
    obligation gen_neg_is_model fails and the correspondence (unary minus on results of arithmetic) decides."""
    fns = [n for n in cls.body if isinstance(n, ast.FunctionDef) and n.name == "__neg__"]
    if not fns:
        return "NegAbsent"
    if len(fns) != 1:
        return "NegUnknown"
    fn = fns[0]
    a = fn.args
    if [x.arg for x in a.args] != ["self"] or a.vararg or a.kwarg or a.kwonlyargs or a.posonlyargs or fn.decorator_list:
        return "NegUnknown"
    try:
        br = _Branch("KDelta", "KDelta")
        oc = br.body(list(fn.body))
    except Refuse:
        return "NegUnknown"
    if "Other" in oc:
        return "NegUnknown"
    return f"(NegBody {oc})"


# ----------------------------------------------------------------------------- duration formats: _to_jds / _from_jds
class _FmtPath:
    """Symbolic execution of one TimeDelta*._to_jds / _from_jds body.  Every try/except alternative is a path; the
    result is the list of returned expressions (terms of `fexpr`, Model/C03_Formats.v), one entry per path."""

    ZERO_CALLS = ("zeros", "zeros_like")

    def __init__(self, inputs, n_results, consts):
        self.inputs = inputs            # python name -> fexpr term
        self.n_results = n_results
        self.consts = consts            # resolver: (owner, attr) -> run-time value
        self.val2_default_zero = False

    # -- expressions
    def num(self, n, env):
        if isinstance(n, ast.Name):
            if n.id in env:
                return env[n.id]
            raise Refuse(f"name {n.id!r}")
        if isinstance(n, ast.BinOp) and isinstance(n.op, (ast.Add, ast.Sub)):
            return f"({'FAdd' if isinstance(n.op, ast.Add) else 'FSub'} {self.num(n.left, env)} {self.num(n.right, env)})"
        if isinstance(n, ast.UnaryOp) and isinstance(n.op, ast.USub):
            return f"(FNeg {self.num(n.operand, env)})"
        if isinstance(n, ast.UnaryOp) and isinstance(n.op, ast.UAdd):
            return self.num(n.operand, env)
        if isinstance(n, ast.BinOp) and isinstance(n.op, ast.Mult):
            for c, e in ((n.left, n.right), (n.right, n.left)):
                k = self.const(c)
                if k is not None:
                    return f"(FScale {emit.s(k[0])} {emit.dy(k[1])} {self.num(e, env)})"
            raise Refuse("product without a unit constant")
        if isinstance(n, ast.Call):
            f = n.func
            # np.floor(e), np.asarray(e), np.array(e)
            if isinstance(f, ast.Attribute) and _is_name(f.value, "np") and len(n.args) == 1 and not n.keywords:
                if f.attr == "floor":
                    return f"(FFloor {self.num(n.args[0], env)})"
                if f.attr in ("asarray", "array"):
                    return self.num(n.args[0], env)
            # (timedelta expression).total_seconds(): the inputs already stand for total seconds
            if isinstance(f, ast.Attribute) and f.attr == "total_seconds" and not n.args and not n.keywords:
                return self.num(f.value, env)
            # timedelta(days=e)
            if _is_name(f, "timedelta") and not n.args and len(n.keywords) == 1 and n.keywords[0].arg == "days":
                return f"(FTdDays {self.num(n.keywords[0].value, env)})"
            raise Refuse(f"call {ast.dump(f)[:60]}")
        if isinstance(n, ast.ListComp) and len(n.generators) == 1:
            g = n.generators[0]
            if g.ifs or g.is_async:
                raise Refuse("comprehension with condition")
            env2 = dict(env)
            it = g.iter
            if isinstance(it, ast.Call) and _is_name(it.func, "zip") and isinstance(g.target, ast.Tuple) \
                    and len(it.args) == len(g.target.elts) and all(isinstance(t, ast.Name) for t in g.target.elts):
                for t, a in zip(g.target.elts, it.args):
                    env2[t.id] = self.num(a, env)          # element-wise: the loop variable is the element of that array
            elif isinstance(g.target, ast.Name):
                env2[g.target.id] = self.num(it, env)
            else:
                raise Refuse("comprehension shape")
            return self.num(n.elt, env2)
        raise Refuse(f"expression {ast.dump(n)[:80]}")

    def const(self, n):
        """Unit.<name> / cls.<name> -> (name, run-time float value) ; None if n is not such a constant."""
        if isinstance(n, ast.Attribute) and isinstance(n.value, ast.Name) and n.value.id in ("Unit", "cls"):
            v = self.consts(n.value.id, n.attr)
            if isinstance(v, bool) or not isinstance(v, (int, float)) or float(v) != v:
                raise Refuse(f"constant {n.value.id}.{n.attr} = {v!r}")
            return n.attr, float(v)
        return None

    def is_zero_like(self, n):
        if isinstance(n, ast.Constant) and n.value in (0, 0.0) and not isinstance(n.value, bool):
            return True
        if isinstance(n, ast.Call) and isinstance(n.func, ast.Attribute) and _is_name(n.func.value, "np") and n.func.attr in self.ZERO_CALLS:
            return True
        if isinstance(n, ast.Call) and _is_name(n.func, "timedelta"):
            args = list(n.args) + [k.value for k in n.keywords]
            return all(isinstance(a, ast.Constant) and a.value in (0, 0.0) for a in args)
        if isinstance(n, ast.BinOp) and isinstance(n.op, ast.Mult) and isinstance(n.left, ast.List) and len(n.left.elts) == 1:
            return self.is_zero_like(n.left.elts[0])          # [timedelta(seconds=0)] * len(val)
        return False

    def only_zero_to_val2(self, stmts):
        """the `if val2 is None:` prelude: every assignment (through try/except) gives val2 a zero"""
        for st in stmts:
            if isinstance(st, ast.Assign) and len(st.targets) == 1 and _is_name(st.targets[0], "val2") and self.is_zero_like(st.value):
                continue
            if isinstance(st, ast.Try) and not st.orelse and not st.finalbody and st.handlers:
                if self.only_zero_to_val2(st.body) and all(self.only_zero_to_val2(h.body) for h in st.handlers):
                    continue
            return False
        return bool(stmts)

    # -- statements
    def run(self, stmts, env):
        """-> list of result tuples (one per path)"""
        for i, st in enumerate(stmts):
            rest = stmts[i + 1:]
            if isinstance(st, ast.Expr) and isinstance(st.value, ast.Constant) and isinstance(st.value.value, str):
                continue
            if isinstance(st, ast.If) and not st.orelse and isinstance(st.test, ast.Compare) and _is_name(st.test.left, "val2") \
                    and len(st.test.ops) == 1 and isinstance(st.test.ops[0], ast.Is) \
                    and isinstance(st.test.comparators[0], ast.Constant) and st.test.comparators[0].value is None:
                if "val2" not in self.inputs or not self.only_zero_to_val2(st.body):
                    raise Refuse("`if val2 is None` prelude")
                self.val2_default_zero = True
                continue
            if isinstance(st, ast.Assign) and len(st.targets) == 1 and isinstance(st.targets[0], ast.Name):
                env = dict(env)
                env[st.targets[0].id] = self.num(st.value, env)
                continue
            if isinstance(st, ast.Try) and not st.orelse and not st.finalbody and len(st.handlers) == 1 and len(st.body) == 1:
                h = st.handlers[0]
                names = [h.type] if isinstance(h.type, ast.Name) else (list(h.type.elts) if isinstance(h.type, ast.Tuple) else [])
                if not names or h.name or not all(isinstance(x, ast.Name) and x.id in ("AttributeError", "TypeError") for x in names):
                    raise Refuse("except clause")
                return self.run(list(st.body) + rest, env) + self.run(list(h.body) + rest, env)
            if isinstance(st, ast.Return):
                v = st.value
                if self.n_results == 2:
                    if not (isinstance(v, ast.Tuple) and len(v.elts) == 2):
                        raise Refuse("_to_jds must return (jd1, jd2)")
                    return [(self.num(v.elts[0], env), self.num(v.elts[1], env))]
                return [(self.num(v, env),)]
            raise Refuse(f"statement {type(st).__name__} at line {getattr(st, 'lineno', '?')}")
        raise Refuse("path without return")


def translate_formats(tree, consts):
    """-> list of (fmt name, val2_default_zero, [(e1, e2)], [e]) for the TimeDeltaFormat subclasses; formats whose bodies
    are outside the grammar are left out (the obligation gen_delta_formats_are_model then fails for lack of them)."""
    out, problems = [], []
    for cls in [n for n in tree.body if isinstance(n, ast.ClassDef)]:
        if not any(isinstance(b, ast.Name) and b.id == "TimeDeltaFormat" for b in cls.bases):
            continue
        name = None
        for st in cls.body:
            if isinstance(st, ast.Assign) and len(st.targets) == 1 and _is_name(st.targets[0], "fmt") \
                    and isinstance(st.value, ast.Constant) and isinstance(st.value.value, str):
                name = st.value.value
        if name is None:
            continue
        try:
            fns = {n.name: n for n in cls.body if isinstance(n, ast.FunctionDef)}
            res = []
            for meth, inputs, k in (("_to_jds", ("val", "val2"), 2), ("_from_jds", ("jd1", "jd2"), 1)):
                fn = fns.get(meth)
                if fn is None:
                    raise Refuse(f"{meth} missing")
                args = [a.arg for a in fn.args.args]
                if args[:3] != ["cls", inputs[0], inputs[1]] or any(a not in ("scale",) for a in args[3:]) or fn.args.vararg or fn.args.kwarg:
                    raise Refuse(f"{meth} signature {args}")
                if [d_.id for d_ in fn.decorator_list if isinstance(d_, ast.Name)] != ["classmethod"] or len(fn.decorator_list) != 1:
                    raise Refuse(f"{meth} decorators")
                p = _FmtPath({inputs[0]: "(FVar V1)", inputs[1]: "(FVar V2)"}, k, lambda owner, attr, _n=name: consts(_n, owner, attr))
                paths = p.run(list(fn.body), dict(p.inputs))
                res.append((paths, p.val2_default_zero))
            out.append((name, res[0][1], res[0][0], [t[0] for t in res[1][0]]))
        except Refuse as e:
            problems.append(f"{name}: {e}")
    return out, problems



def translate_source(text):
    tree = ast.parse(text)
    classes = {n.name: n for n in tree.body if isinstance(n, ast.ClassDef)}
    out = {}
    for op, cls, meth in OPS:
        if cls not in classes:
            raise Refuse(f"class {cls} not found")
        fns = [n for n in classes[cls].body if isinstance(n, ast.FunctionDef) and n.name == meth]
        if len(fns) != 1:
            raise Refuse(f"{cls}.{meth}: {len(fns)} definitions")
        out[op] = translate_method(fns[0], KIND_OF_CLASS[cls])
    out["__neg__"] = translate_neg(classes["TimeDeltaArray"])
    out["__tree__"] = tree
    # the reflected / in-place operators must stay switched off, otherwise Python's dispatch is not the model's
    for cls in ("TimeArray", "TimeDeltaArray"):
        for meth in ("__radd__", "__rsub__"):
            fns = [n for n in classes[cls].body if isinstance(n, ast.FunctionDef) and n.name == meth]
            if len(fns) != 1:
                raise Refuse(f"{cls}.{meth} missing")
            body = [s for s in fns[0].body if not (isinstance(s, ast.Expr) and isinstance(s.value, ast.Constant))]
            if not (len(body) == 1 and _is_not_implemented_return(body[0])):
                raise Refuse(f"{cls}.{meth} is not `return NotImplemented`")
    return out


def gen_text(methods, refused, time_scales, delta_scales, delta_formats):
    lines = ["From Coq Require Import String List QArith.",
             "From Verif Require Import Lib.Dyadic Model.C03_TimeArith Model.C03_Formats.",
             "Import ListNotations.",
             "Open Scope string_scope.",
             f"Definition gen_translated : bool := {emit.b(not refused)}."]
    if refused:
        lines.append(f"Definition gen_refusal : string := {emit.s(refused[:200])}.")
    for op, _, _ in OPS:
        guard, branches = methods[op] if not refused else (False, [])
        bl = emit.lst(f"({k}, {oc})" for k, oc in branches)
        lines.append(f"Definition gen_{op} : method := mkMethod {emit.b(guard)}\n  {bl}.")
    lines.append(f"Definition gen_neg : neg_src := {methods.get('__neg__', 'NegUnknown') if not refused else 'NegUnknown'}.")
    lines.append("Definition gen_method (op : opname) : method :=\n  match op with TimeAdd => gen_TimeAdd | TimeSub => gen_TimeSub "
                 "| DeltaAdd => gen_DeltaAdd | DeltaSub => gen_DeltaSub end.")
    fsrcs = methods.get("__formats__", []) if not refused else []
    lines.append("Definition gen_delta_fmt_srcs : list fmt_src :=\n  " + emit.lst(
        f"mkFmtSrc {emit.s(nm)} {emit.b(z)}\n    {emit.lst(emit.pair(a, b_) for a, b_ in to)}\n    {emit.lst(fr)}" for nm, z, to, fr in fsrcs) + ".")
    lines.append(f"Definition gen_time_scales : list string := {emit.lst(emit.s(x) for x in time_scales)}.")
    lines.append(f"Definition gen_delta_scales : list string := {emit.lst(emit.s(x) for x in delta_scales)}.")
    lines.append(f"Definition gen_delta_formats : list string := {emit.lst(emit.s(x) for x in delta_formats)}.")
    return "\n".join(lines) + "\n"


def regen(ctx):
    """Regenerate Gen/C03_TimeArith.v from the current source. Returns the refusal text ('' = translated)."""
    text = open(os.path.join(core.REPO, SRC), encoding="utf8").read()
    refused = ""
    methods = {}
    try:
        methods = translate_source(text)
    except Refuse as e:
        refused = f"ast translator refused midgard/data/_time.py: {e}"
    except SyntaxError as e:
        refused = f"source does not parse: {e}"
    from midgard.data.time import Time, TimeDelta
    if not refused:
        from midgard.math.unit import Unit
        from midgard.data import _time as _t

        def consts(fmt_name, owner, attr):
            return getattr(Unit, attr) if owner == "Unit" else getattr(_t._FORMATS["TimeDeltaFormat"][fmt_name], attr)
        fsrcs, problems = translate_formats(methods.pop("__tree__"), consts)
        methods["__formats__"] = fsrcs
        if problems:
            ctx.notes.append("duration formats outside the translator's grammar: " + "; ".join(problems))
            ctx.log("format translator: " + "; ".join(problems))
    ctx.regen("C03_TimeArith", gen_text(methods, refused, list(Time.SCALES), list(TimeDelta.SCALES), list(TimeDelta.FORMATS)))
    return refused


# ============================================================================= scenarios (pure data, JSON-serialisable)
DELTA_FMTS = ["days", "seconds", "jd", "timedelta"]
TIME_FMTS = ["jd", "jd", "mjd", "datetime"]
DFMT_TERM = {"days": "DDays", "jd": "DJd", "seconds": "DSeconds", "timedelta": "DTimedelta"}
DAY_US = 86400 * 10 ** 6


def _hex(x):
    return float(x).hex()


def gen_duration_days(rng, klass=None):
    """One duration in days (float), |x| <= 40000; returns (class label, value)."""
    k = klass or rng.choice(["whole", "whole", "subday", "subday", "mixed", "mixed", "mixed", "neg_mixed", "tiny", "pico", "edge", "decimal", "secs"])
    if k == "pico":       # 1e-12 s .. 1e-6 s, both signs: below the resolution of 1 - jd2
        return k, rng.choice([1, -1]) * rng.choice([1, 1, 2, 5, 9.5]) * 10.0 ** rng.randint(-12, -6) / 86400.0
    if k == "carry":      # fractions that carry when two of them are added
        return k, rng.randint(0, 300) + rng.choice([0.6, 0.7, 0.9, 0.5, 0.999999, rng.uniform(0.5, 1)])
    if k == "whole":
        return k, float(rng.randint(-40000, 40000))
    if k == "subday":
        return k, rng.choice([rng.uniform(-1, 1), rng.randint(-86399, 86399) / 86400.0, rng.choice([0.25, 0.5, -0.75, 0.125])])
    if k == "mixed":
        return k, rng.randint(1, 39999) + rng.random()
    if k == "neg_mixed":
        return k, -(rng.randint(1, 39999) + rng.random())
    if k == "tiny":
        return k, rng.choice([1, -1]) * rng.randint(1, 999) * 1e-9 / 86400.0 * rng.choice([1, 1000, 10 ** 6])
    if k == "edge":
        return k, rng.choice([0.0, 1.0, -1.0, 40000.0, -40000.0, 39999.999999999, -39999.5, 2.25, -2.25, 0.5, 1e-15, 36525.0])
    if k == "decimal":
        return k, round(rng.uniform(-40000, 40000), rng.choice([1, 2, 3, 6]))
    return k, rng.randint(-40000 * 86400, 40000 * 86400) / 86400.0


def gen_delta_spec(rng, n, fmt=None, klass=None):
    """n = 0: scalar, else array of n."""
    fmt = fmt or rng.choice(DELTA_FMTS)
    cnt = max(n, 1)
    labels, vals, vals2 = [], [], None
    two_part = fmt != "timedelta" and rng.random() < 0.15
    for _ in range(cnt):
        lab, x = gen_duration_days(rng, klass)
        labels.append(lab)
        if fmt == "timedelta":
            us = round(x * DAY_US)
            vals.append(us)
        elif fmt == "seconds":
            vals.append(_hex(x * 86400.0))
        else:
            vals.append(_hex(x))
    if two_part:
        vals2 = [_hex(rng.choice([0.0, rng.random(), -rng.random(), 0.5]) * (86400.0 if fmt == "seconds" else 1.0)) for _ in range(cnt)]
    return {"fmt": fmt, "n": n, "val": vals, "val2": vals2, "labels": labels,
            "np_scalar": rng.random() < 0.3, "readonly": False}


def gen_time_spec(rng, n, fmt=None):
    fmt = fmt or rng.choice(TIME_FMTS)
    cnt = max(n, 1)
    vals, vals2 = [], None
    two_part = fmt == "jd" and rng.random() < 0.3
    for _ in range(cnt):
        day = rng.randint(0, 80000)                      # MJD 0 .. 80000  (1858 .. 2077)
        frac = rng.choice([0.0, 0.25, 0.5, rng.random(), rng.random(), 1 - 1e-9, rng.randint(0, 86399) / 86400.0])
        if fmt == "jd":
            if two_part:
                vals.append(_hex(2400000.5 + day))
            else:
                vals.append(_hex(2400000.5 + day + frac))
        elif fmt == "mjd":
            vals.append(_hex(day + frac))
        else:
            dt = datetime(1980, 1, 6) + timedelta(days=rng.randint(0, 30000), microseconds=rng.randrange(DAY_US))
            vals.append(dt.isoformat())
    if two_part:
        vals2 = [_hex(rng.random()) for _ in range(cnt)]
    return {"fmt": fmt, "n": n, "val": vals, "val2": vals2, "np_scalar": rng.random() < 0.3}


def gen_scenario(rng, scales):
    shape = rng.choice(["ss", "ss", "sa", "as", "aa", "aa", "a1"])
    n = rng.choice([2, 3, 5])
    nt = 0 if shape[0] == "s" else (1 if shape == "a1" else n)
    nd = 0 if shape[1] == "s" else (1 if shape == "a1" else n)
    scale = rng.choice(scales)
    other_scale = rng.choice([s for s in scales if s != scale])
    tf = rng.choice(TIME_FMTS)
    kl = "carry" if rng.random() < 0.25 else None          # both durations with fractions >= 1/2: d + d2 carries
    return {"scale": scale, "other_scale": other_scale, "shape": shape,
            "t": gen_time_spec(rng, nt, tf), "t2": gen_time_spec(rng, nt, rng.choice([tf, tf, rng.choice(TIME_FMTS)])),
            "d": gen_delta_spec(rng, nd, klass=kl), "d2": gen_delta_spec(rng, nd, klass=kl),
            "extra": [gen_delta_spec(rng, nd, klass=rng.choice([None, None, "carry", "neg_mixed"])) for _ in range(rng.randint(1, 4))],
            "tiny": gen_delta_spec(rng, nd, klass="pico")}


CORPUS = [   # earlier failures first (DESIGN 2.8)
    {"scale": "utc", "other_scale": "tai", "shape": "aa",
     "t": {"fmt": "jd", "n": 1, "val": [_hex(2458849.5)], "val2": None, "np_scalar": False},
     "t2": {"fmt": "jd", "n": 1, "val": [_hex(2458851.75)], "val2": None, "np_scalar": False},
     "d": {"fmt": "days", "n": 1, "val": [_hex(2.25)], "val2": None, "labels": ["edge"], "np_scalar": False, "readonly": False},
     "d2": {"fmt": "seconds", "n": 2, "val": [_hex(86400.0), _hex(10.0)], "val2": None, "labels": ["edge", "edge"], "np_scalar": False, "readonly": False}},
    {"scale": "gps", "other_scale": "utc", "shape": "ss",
     "t": {"fmt": "jd", "n": 0, "val": [_hex(2458849.5)], "val2": [_hex(0.3)], "np_scalar": False},
     "t2": {"fmt": "datetime", "n": 0, "val": ["2020-01-01T12:00:00"], "val2": None, "np_scalar": False},
     "d": {"fmt": "days", "n": 0, "val": [_hex(30000.7)], "val2": None, "labels": ["decimal"], "np_scalar": False, "readonly": False},
     "d2": {"fmt": "timedelta", "n": 0, "val": [3 * DAY_US + 3600 * 10 ** 6], "val2": None, "labels": ["mixed"], "np_scalar": False, "readonly": False}},
]


CORPUS.append(   # unary minus of a carried sum and of a picosecond duration (seed C03-a/3)
    {"scale": "utc", "other_scale": "tai", "shape": "ss",
     "t": {"fmt": "datetime", "n": 0, "val": ["2020-01-01T12:00:00"], "val2": None, "np_scalar": False},
     "t2": {"fmt": "datetime", "n": 0, "val": ["2021-03-01T06:00:00"], "val2": None, "np_scalar": False},
     "d": {"fmt": "days", "n": 0, "val": [_hex(0.7)], "val2": None, "labels": ["carry"], "np_scalar": False, "readonly": False},
     "d2": {"fmt": "days", "n": 0, "val": [_hex(0.6)], "val2": None, "labels": ["carry"], "np_scalar": False, "readonly": False},
     "extra": [{"fmt": "seconds", "n": 0, "val": [_hex(0.9 * 86400.0)], "val2": None, "labels": ["carry"], "np_scalar": False, "readonly": False},
               {"fmt": "jd", "n": 0, "val": [_hex(-3.75)], "val2": None, "labels": ["neg_mixed"], "np_scalar": False, "readonly": False}],
     "tiny": {"fmt": "seconds", "n": 0, "val": [_hex(1e-12)], "val2": None, "labels": ["pico"], "np_scalar": False, "readonly": False}})


# ============================================================================= running midgard
def build_time(spec, scale):
    import numpy as np
    from midgard.data.time import Time
    if spec["fmt"] == "datetime":
        vals = [datetime.fromisoformat(v) for v in spec["val"]]
        val = np.array(vals) if spec["n"] else vals[0]
        return Time(val, scale=scale, fmt="datetime"), []
    vals = [float.fromhex(v) for v in spec["val"]]
    arrays = []
    if spec["n"]:
        val = np.array(vals)
        arrays.append(("val", val, val.copy(), val.flags.writeable))
    else:
        val = np.float64(vals[0]) if spec["np_scalar"] else vals[0]
    val2 = None
    if spec["val2"] is not None:
        v2 = [float.fromhex(v) for v in spec["val2"]]
        if spec["n"]:
            val2 = np.array(v2)
            arrays.append(("val2", val2, val2.copy(), val2.flags.writeable))
        else:
            val2 = v2[0]
    return Time(val, scale=scale, fmt=spec["fmt"], val2=val2), arrays


def build_delta(spec, scale, negate=False):
    """-> (TimeDelta, [(name, array passed, pristine copy, writeable before)], [exact input value per element, format units])."""
    import numpy as np
    from midgard.data.time import TimeDelta
    sg = -1 if negate else 1
    fmt = spec["fmt"]
    arrays = []
    if fmt == "timedelta":
        tds = [timedelta(microseconds=sg * us) for us in spec["val"]]
        exact = [Fraction(sg * us, 10 ** 6) for us in spec["val"]]
        if spec["n"]:
            val = np.array(tds, dtype=object)
            arrays.append(("val", val, val.copy(), val.flags.writeable))
        else:
            val = tds[0]
        return TimeDelta(val, scale=scale, fmt=fmt), arrays, exact, None
    vals = [sg * float.fromhex(v) for v in spec["val"]]
    v2 = [sg * float.fromhex(v) for v in spec["val2"]] if spec["val2"] is not None else None
    exact = [Fraction(a) + (Fraction(b2) if v2 is not None else 0) for a, b2 in zip(vals, v2 or vals)]
    if spec["n"]:
        val = np.array(vals)
        if spec.get("readonly"):
            val.flags.writeable = False
        arrays.append(("val", val, val.copy(), val.flags.writeable))
    else:
        val = np.float64(vals[0]) if spec["np_scalar"] else vals[0]
    val2 = None
    if v2 is not None:
        if spec["n"]:
            val2 = np.array(v2)
            arrays.append(("val2", val2, val2.copy(), val2.flags.writeable))
        else:
            val2 = v2[0]
    cargs = [("cell", 0) if spec["n"] else ("scalar", vals[0])]
    cargs.append(("none", None) if v2 is None else (("cell", 1) if spec["n"] else ("scalar", v2[0])))
    return TimeDelta(val, scale=scale, fmt=fmt, val2=val2), arrays, exact, cargs


def ocell_term(values, writeable):
    return emit.pair(emit.lst(emit.dy(v) for v in values), emit.b(writeable))


def arg_term(a):
    return {"cell": lambda v: f"(ACell {emit.nat(v)})", "scalar": lambda v: f"(AScalar {emit.q(Fraction(v))})", "none": lambda v: "ANone"}[a[0]](a[1])


def obj_cells(x):
    """the two cells (jd1, jd2) an object owns: ([values], writeable); a numpy scalar is an immutable one-element cell"""
    import numpy as np
    out = []
    for j in (x.jd1, x.jd2):
        arr = np.atleast_1d(np.asarray(j, dtype=float)).copy()
        out.append(([float(v) for v in arr], bool(j.flags.writeable) if isinstance(j, np.ndarray) else False))
    return out


def kind_of(x):
    return "KTime" if x.cls_name == "TimeArray" else "KDelta"


def parts(x):
    """flattened jd1, jd2 (broadcast against each other)."""
    import numpy as np
    j1 = np.asarray(x.jd1, dtype=float)
    j2 = np.asarray(x.jd2, dtype=float)
    shape = np.broadcast(j1, j2).shape
    return np.broadcast_to(j1, shape).ravel(), np.broadcast_to(j2, shape).ravel()


def el(a, i):
    return a[i] if len(a) > 1 else a[0]


def dobj_term(x, i, p=None):
    j1, j2 = p or parts(x)
    return emit.pair(kind_of(x), emit.s(x.scale), emit.s(x.fmt), emit.dy(el(j1, i)), emit.dy(el(j2, i)))


def snapshot(x):
    """Everything observable about an operand that an operation must not change."""
    import numpy as np
    a = np.asarray(x)
    img = repr(a.tolist()) if a.dtype == object else a.tobytes()
    j1, j2 = x.jd1, x.jd2
    return (img, np.asarray(j1).tobytes(), np.asarray(j2).tobytes(), bool(x.flags.writeable),
            bool(j1.flags.writeable) if isinstance(j1, np.ndarray) else None,
            bool(j2.flags.writeable) if isinstance(j2, np.ndarray) else None,
            x.fmt, x.scale, tuple(x.shape), type(x).__name__)


def describe(x):
    j1, j2 = parts(x)
    return {"class": type(x).__name__, "scale": x.scale, "fmt": x.fmt, "shape": list(x.shape),
            "jd1": [float(v) for v in j1], "jd2": [float(v) for v in j2],
            "jd1_hex": [_hex(v) for v in j1], "jd2_hex": [_hex(v) for v in j2]}


def apply_op(sym, a, b):
    """a <sym> b through Python's operator dispatch -> ('obj', r) | ('refused', msg) | ('err', msg)."""
    try:
        r = (a + b) if sym == "+" else (a - b)
    except TypeError as e:
        if "unsupported operand type" in str(e):
            return "refused", str(e)
        return "err", f"TypeError: {e}"
    except Exception as e:
        return "err", f"{type(e).__name__}: {e}"
    if r is NotImplemented:
        return "refused", "NotImplemented"
    if not hasattr(r, "jd1"):
        return "err", f"result of type {type(r).__name__}"
    return "obj", r


class Collector:
    """Accumulates Coq cases of every check function together with the replay information of each case."""

    def __init__(self):
        self.cases = {"check_op": [], "check_law": [], "check_neg": [], "check_ctor": [], "check_fmt": [], "check_cells_ctor": [], "check_cells_op": []}
        self.meta = {k: [] for k in self.cases}
        self.direct = []            # problems decided without Coq: (class, replay)

    def add(self, fn, term, meta):
        self.cases[fn].append(term)
        self.meta[fn].append(meta)


def opname_of(sym, a):
    return {("+", "KTime"): "TimeAdd", ("-", "KTime"): "TimeSub", ("+", "KDelta"): "DeltaAdd", ("-", "KDelta"): "DeltaSub"}[(sym, kind_of(a))]


def do_op(col, scen_id, label, sym, a, b, spec):
    """Run a <sym> b on midgard, register element cases for check_op and the integrity of both operands.
    Returns the result object or None."""
    import numpy as np
    sa, sb = snapshot(a), snapshot(b)
    cb = obj_cells(a) + obj_cells(b)
    status, r = apply_op(sym, a, b)
    sa2, sb2 = snapshot(a), snapshot(b)
    ca = obj_cells(a) + obj_cells(b)
    base = {"scenario": scen_id, "step": label, "expr": f"{type(a).__name__} {sym} {type(b).__name__}",
            "self": describe(a), "other": describe(b), "spec": spec}
    if any(isinstance(j, np.ndarray) for j in (a.jd1, a.jd2, b.jd1, b.jd2)):        # numpy scalars are immutable
        col.add("check_cells_op", emit.pair(emit.lst(ocell_term(*c) for c in cb), emit.pair(kind_of(a), kind_of(b)),
                                            f"(Arith {opname_of(sym, a)} 0%nat 1%nat)", emit.lst(ocell_term(*c) for c in ca)),
                dict(base, cells_before=cb, cells_after=ca))
    if sa != sa2 or sb != sb2:
        col.direct.append(("operand_changed", dict(base, what="an operand changed during the operation",
                                                   before=[repr(sa)[:400], repr(sb)[:400]], after=[repr(sa2)[:400], repr(sb2)[:400]])))
    pa, pb = parts(a), parts(b)
    na, nb = len(pa[0]), len(pb[0])
    op = opname_of(sym, a)
    odays = None
    if op == "TimeAdd" and kind_of(b) == "KDelta":
        try:
            odays = np.broadcast_to(np.asarray(b.days, dtype=float), np.broadcast(np.asarray(b.jd1), np.asarray(b.jd2)).shape).ravel()
        except Exception:
            odays = None
    if status == "obj":
        pr = parts(r)
        nr = len(pr[0])
        want_shape = np.broadcast_shapes(tuple(a.shape), tuple(b.shape))
        if nr != max(na, nb) or tuple(r.shape) != want_shape:
            col.direct.append(("shape", dict(base, what=f"result shape {tuple(r.shape)} for operand shapes {tuple(a.shape)}, {tuple(b.shape)}",
                                             result=describe(r))))
            return None
        for i in range(nr):
            ob = f"(ObsObj {dobj_term(r, i, pr)})"
            od = emit.dy(el(odays, i)) if odays is not None else "DNaN"
            col.add("check_op", emit.pair(op, dobj_term(a, i, pa), dobj_term(b, i, pb), od, ob),
                    dict(base, element=i, result=describe(r)))
        return r
    n = max(na, nb)
    ob = "ObsRefused" if status == "refused" else "ObsErr"
    for i in range(n):
        col.add("check_op", emit.pair(op, dobj_term(a, i, pa), dobj_term(b, i, pb), "DNaN", ob),
                dict(base, element=i, result=f"{status}: {r}"))
    return None


def do_law(col, scen_id, law, lhs, rhs, steps, spec):
    """law: lhs and rhs (implementation objects) denote the same point; `steps` = labels of the operations involved."""
    if lhs is None or rhs is None:
        return
    pl, pr = parts(lhs), parts(rhs)
    n = max(len(pl[0]), len(pr[0]))
    for i in range(n):
        col.add("check_law", emit.pair(dobj_term(lhs, i, pl), dobj_term(rhs, i, pr)),
                {"scenario": scen_id, "law": law, "element": i, "steps": steps, "lhs": describe(lhs), "rhs": describe(rhs), "spec": spec})


def ctor_delta(col, scen_id, name, spec, scale, negate=False):
    """Construct a duration; register constructor accuracy, input integrity and format read-outs."""
    import numpy as np
    base = {"scenario": scen_id, "step": f"TimeDelta({name})", "spec": spec, "negated_input": negate, "scale": scale}
    try:
        d, arrays, exact, cargs = build_delta(spec, scale, negate)
    except Exception as e:
        col.direct.append(("ctor_error", dict(base, what=f"TimeDelta(...) raised {type(e).__name__}: {e}")))
        return None
    f = DFMT_TERM[spec["fmt"]]
    for nm, arr, before, w in arrays:
        if arr.dtype == object:
            if list(arr) != list(before) or arr.flags.writeable != w:
                col.direct.append(("input_changed", dict(base, what=f"caller's {nm} array (timedelta objects) changed")))
    if cargs is not None and arrays:
        # the caller's float arrays go through the cell machine: cells before, the call, cells after
        cells_b = [ocell_term(before, w) for nm, arr, before, w in arrays]
        cells_a = [ocell_term(arr, bool(arr.flags.writeable)) for nm, arr, before, w in arrays]
        call = f"(NewDelta {f} {emit.s('s')} {arg_term(cargs[0])} {arg_term(cargs[1])})"
        col.add("check_cells_ctor", emit.pair(emit.lst(cells_b), call, emit.lst(cells_a)),
                dict(base, arrays=[nm for nm, *_ in arrays],
                     before=[[float(v) for v in before] for _, _, before, _ in arrays], flags_before=[w for *_, w in arrays],
                     after=[[float(v) for v in arr] for _, arr, _, _ in arrays], flags_after=[bool(arr.flags.writeable) for _, arr, _, _ in arrays],
                     how=f"val = np.array(...); val2 = ...; TimeDelta(val, scale={scale!r}, fmt={spec['fmt']!r}, val2=val2); inspect val, val2 and their flags"))
    j1, j2 = parts(d)
    if len(j1) != len(exact):
        col.direct.append(("shape", dict(base, what=f"{len(exact)} input values gave {len(j1)} durations")))
        return d
    for i, q in enumerate(exact):
        col.add("check_ctor", emit.pair(f, emit.q(q), emit.dy(j1[i]), emit.dy(j2[i])),
                dict(base, element=i, input_exact=str(q), jd1=float(j1[i]), jd2=float(j2[i])))
    return d


def readout(col, scen_id, label, d, spec):
    """d.days / d.seconds / d.jd / d.timedelta of a duration against (jd1 + jd2) in that unit."""
    import numpy as np
    j1, j2 = parts(d)
    s0 = snapshot(d)
    for fmt in DELTA_FMTS:
        base = {"scenario": scen_id, "step": f"{label}.{fmt}", "duration": describe(d), "spec": spec}
        try:
            v = getattr(d, fmt)
        except Exception as e:
            col.direct.append(("readout_error", dict(base, what=f".{fmt} raised {type(e).__name__}: {e}")))
            continue
        vs = list(np.asarray(v, dtype=object).ravel()) if fmt == "timedelta" else list(np.asarray(v, dtype=float).ravel())
        if len(vs) != len(j1):
            col.direct.append(("shape", dict(base, what=f".{fmt} has {len(vs)} values for {len(j1)} durations")))
            continue
        for i, x in enumerate(vs):
            if fmt == "timedelta":
                q = Fraction((x.days * 86400 + x.seconds) * 10 ** 6 + x.microseconds, 10 ** 6)
            else:
                q = Fraction(float(x))
            col.add("check_fmt", emit.pair(DFMT_TERM[fmt], emit.dy(j1[i]), emit.dy(j2[i]), emit.q(q)),
                    dict(base, element=i, observed=str(x)))
    if snapshot(d) != s0:
        col.direct.append(("operand_changed", {"scenario": scen_id, "step": label, "what": "format read-out changed the duration", "spec": spec}))


def do_neg(col, scen_id, label, x, spec):
    """-x on midgard against the model's negation of the very doubles x holds (check_neg); returns -x or None."""
    base = {"scenario": scen_id, "step": f"-{label}", "operand": describe(x), "spec": spec}
    s0 = snapshot(x)
    px = parts(x)
    mx = None
    cb = obj_cells(x) * 2
    try:
        mx = -x
        ca = obj_cells(x) * 2
        if hasattr(x.jd1, "flags") or hasattr(x.jd2, "flags"):
            col.add("check_cells_op", emit.pair(emit.lst(ocell_term(*c) for c in cb), emit.pair(kind_of(x), kind_of(x)),
                                                "(NegD 0%nat)", emit.lst(ocell_term(*c) for c in ca)),
                    dict(base, cells_before=cb, cells_after=ca))
        pm = parts(mx)
        if len(pm[0]) != len(px[0]) or tuple(mx.shape) != tuple(x.shape):
            col.direct.append(("shape", dict(base, what=f"-{label} has shape {tuple(mx.shape)} for operand shape {tuple(x.shape)}")))
            return None
        for i in range(len(px[0])):
            col.add("check_neg", emit.pair(dobj_term(x, i, px), f"(ObsObj {dobj_term(mx, i, pm)})"), dict(base, element=i, result=describe(mx)))
    except Exception as e:
        mx = None
        for i in range(len(px[0])):
            col.add("check_neg", emit.pair(dobj_term(x, i, px), "ObsErr"), dict(base, element=i, result=f"{type(e).__name__}: {e}"))
    if snapshot(x) != s0:
        col.direct.append(("operand_changed", dict(base, what=f"-{label} changed its operand")))
    return mx


def neg_chain(col, scen_id, label, x, t, spec):
    """Unary minus applied to the duration x (a constructor result or a result of arithmetic):
    t - x = t + (-x),  x + (-x) = 0,  -(-x) = x, each at 1 ns on the implementation's own doubles."""
    from midgard.data.time import TimeDelta
    if x is None:
        return
    n = f"-{label}"
    mx = do_neg(col, scen_id, label, x, spec)
    if mx is None:
        return
    a = do_op(col, scen_id, f"t-{label}", "-", t, x, spec)
    b = do_op(col, scen_id, f"t+(-{label})", "+", t, mx, spec)
    do_law(col, scen_id, "t-x=t+(-x)", a, b, [f"t-{label}", f"t+(-{label})", n], spec)
    z = do_op(col, scen_id, f"{label}+(-{label})", "+", x, mx, spec)
    zero = TimeDelta(0.0, scale=x.scale, fmt="days")
    do_law(col, scen_id, "x+(-x)=0", z, zero, [f"{label}+(-{label})", n], spec)
    mmx = do_neg(col, scen_id, f"(-{label})", mx, spec)
    do_law(col, scen_id, "-(-x)=x", mmx, x, [n, f"-(-{label})"], spec)


def exec_scenario(col, scen_id, spec):
    """All operations and laws of one scenario on the real implementation."""
    import numpy as np
    sc, osc = spec["scale"], spec["other_scale"]
    try:
        t, _ = build_time(spec["t"], sc)
        t2, _ = build_time(spec["t2"], sc)
        tx, _ = build_time(spec["t"], osc)
    except Exception as e:
        col.direct.append(("ctor_error", {"scenario": scen_id, "spec": spec, "what": f"Time(...) raised {type(e).__name__}: {e}"}))
        return
    d = ctor_delta(col, scen_id, "d", spec["d"], sc)
    d2 = ctor_delta(col, scen_id, "d2", spec["d2"], sc)
    nd = ctor_delta(col, scen_id, "-d", spec["d"], sc, negate=True)
    dx = ctor_delta(col, scen_id, "d, other scale", spec["d"], osc)
    if d is None or d2 is None or nd is None or dx is None:
        return
    # (t + d) - t = d
    r1 = do_op(col, scen_id, "t+d", "+", t, d, spec)
    r2 = do_op(col, scen_id, "(t+d)-t", "-", r1, t, spec) if r1 is not None else None
    do_law(col, scen_id, "(t+d)-t=d", r2, d, ["t+d", "(t+d)-t"], spec)
    # (t - d) + d = t
    r3 = do_op(col, scen_id, "t-d", "-", t, d, spec)
    r4 = do_op(col, scen_id, "(t-d)+d", "+", r3, d, spec) if r3 is not None else None
    do_law(col, scen_id, "(t-d)+d=t", r4, t, ["t-d", "(t-d)+d"], spec)
    # (t2 - t1) + t1 = t2, both orders
    dd = do_op(col, scen_id, "t2-t", "-", t2, t, spec)
    if dd is not None:
        r5 = do_op(col, scen_id, "(t2-t)+t", "+", dd, t, spec)
        do_law(col, scen_id, "(t2-t)+t=t2", r5, t2, ["t2-t", "(t2-t)+t"], spec)
        r5b = do_op(col, scen_id, "t+(t2-t)", "+", t, dd, spec)
        do_law(col, scen_id, "t+(t2-t)=t2", r5b, t2, ["t2-t", "t+(t2-t)"], spec)
        readout(col, scen_id, "(t2-t)", dd, spec)
    # t - d = t + (-d): -d built from the negated input, and -d through the unary operator
    r6 = do_op(col, scen_id, "t+TimeDelta(-x)", "+", t, nd, spec)
    do_law(col, scen_id, "t-d=t+(-d)", r3, r6, ["t-d", "t+TimeDelta(-x)"], spec)
    neg_chain(col, scen_id, "d", d, t, spec)
    # d + d2 = d2 + d ; (d + d2) - d2 = d ; d + t = t + d
    s1 = do_op(col, scen_id, "d+d2", "+", d, d2, spec)
    s2 = do_op(col, scen_id, "d2+d", "+", d2, d, spec)
    do_law(col, scen_id, "d+d2=d2+d", s1, s2, ["d+d2", "d2+d"], spec)
    r7 = do_op(col, scen_id, "(d+d2)-d2", "-", s1, d2, spec) if s1 is not None else None
    do_law(col, scen_id, "(d+d2)-d2=d", r7, d, ["d+d2", "(d+d2)-d2"], spec)
    # unary minus on results of arithmetic: carried sum, accumulated sum of 3-6 durations, differences, tiny durations
    neg_chain(col, scen_id, "(d+d2)", s1, t, spec)
    acc, acc_label = s1, "(d+d2"
    for j, es in enumerate(spec.get("extra", [])):
        e = ctor_delta(col, scen_id, f"extra{j}", es, sc)
        if e is None or acc is None:
            acc = None
            break
        acc = do_op(col, scen_id, f"{acc_label}+e{j})", "+", acc, e, spec)
        acc_label = f"{acc_label}+e{j}"
    if spec.get("extra"):
        neg_chain(col, scen_id, acc_label + ")", acc, t, spec)
    neg_chain(col, scen_id, "(d-d2)", do_op(col, scen_id, "d-d2", "-", d, d2, spec), t, spec)
    if dd is not None:
        neg_chain(col, scen_id, "(t2-t)", dd, t, spec)
    if spec.get("tiny"):
        neg_chain(col, scen_id, "tiny", ctor_delta(col, scen_id, "tiny", spec["tiny"], sc), t, spec)
    r8 = do_op(col, scen_id, "d+t", "+", d, t, spec)
    do_law(col, scen_id, "t+d=d+t", r1, r8, ["t+d", "d+t"], spec)
    readout(col, scen_id, "d", d, spec)
    if s1 is not None:
        readout(col, scen_id, "(d+d2)", s1, spec)
    # refusals: other scale in every combination, time + time, duration - time
    for label, sym, a, b in (("t+dx", "+", t, dx), ("t-dx", "-", t, dx), ("t-tx", "-", t, tx), ("d+dx", "+", d, dx),
                             ("d-dx", "-", d, dx), ("d+tx", "+", d, tx), ("dx+t", "+", dx, t),
                             ("t+t2", "+", t, t2), ("d-t", "-", d, t), ("t+tx", "+", t, tx), ("d-tx", "-", d, tx)):
        do_op(col, scen_id, label, sym, a, b, spec)


# ============================================================================= the property oracle on observables (search)
def law_search(extra_specs=()):
    """Directed search for a failing input, the laws stated directly on the implementation's jd1 + jd2
    (exact rational arithmetic on the doubles).  Returns a replay dict or None."""
    import numpy as np
    from midgard.data.time import Time, TimeDelta
    ns = Fraction(1, 86400 * 10 ** 9)

    def val(x):
        j1, j2 = parts(x)
        return [Fraction(float(a)) + Fraction(float(b)) for a, b in zip(j1, j2)]

    def differ(x, y):
        if x is None or y is None:
            return True
        vx, vy = val(x), val(y)
        if kind_of(x) != kind_of(y) or x.scale != y.scale or len(vx) != len(vy):
            return True
        return any(abs(a - b) >= ns for a, b in zip(vx, vy))

    def op(sym, a, b):
        st, r = apply_op(sym, a, b)
        return r if st == "obj" else None

    # unary minus on constructor results, on sums whose fractions carry, on accumulated sums and on tiny durations
    try:
        for scale in ("utc", "tt"):
            t = Time(2458849.5, val2=0.3, scale=scale, fmt="jd")
            zero = TimeDelta(0.0, scale=scale, fmt="days")
            for fmt in DELTA_FMTS:
                def mk(x):
                    if fmt == "timedelta":
                        return TimeDelta(timedelta(days=x), scale=scale, fmt=fmt)
                    return TimeDelta(x * (86400.0 if fmt == "seconds" else 1.0), scale=scale, fmt=fmt)
                a, b, c = mk(0.7), mk(0.6), mk(-3.9)
                s3 = op("+", op("+", op("+", a, b), a), b)
                cands = [("TimeDelta(0.7 d)", a), ("0.7 d + 0.6 d", op("+", a, b)), ("0.7+0.6+0.7+0.6 d", s3),
                         ("-3.9 d - 0.6 d - 0.6 d", op("-", op("-", c, b), b)),
                         ("1e-12 s", TimeDelta(1e-12, scale=scale, fmt="seconds")), ("-1e-9 s", TimeDelta(-1e-9, scale=scale, fmt="seconds")),
                         ("t2 - t", op("-", Time(2459000.25, scale=scale, fmt="jd"), t))]
                for lab, x in cands:
                    if x is None:
                        return {"what": f"could not build the duration {lab} ({fmt})", "scale": scale}
                    mx = -x
                    for name, lhs, rhs in (("t-x=t+(-x)", op("-", t, x), op("+", t, mx)), ("x+(-x)=0", op("+", x, mx), zero), ("-(-x)=x", -mx, x)):
                        if differ(lhs, rhs):
                            return {"what": f"law {name} fails on the implementation for x = {lab} (durations made in format {fmt!r})",
                                    "law": name, "scale": scale, "x": describe(x), "minus_x": describe(mx),
                                    "lhs": None if lhs is None else describe(lhs), "rhs": None if rhs is None else describe(rhs),
                                    "how": f"from midgard.data.time import Time, TimeDelta; x = {lab} built from TimeDelta(..., scale={scale!r}, fmt={fmt!r}); "
                                           f"t = Time(2458849.5, val2=0.3, scale={scale!r}, fmt='jd'); compare jd1+jd2 of both sides of {name}"}
    except Exception as ex:
        return {"what": f"{type(ex).__name__}: {ex} while evaluating the laws of unary minus"}
    epochs = [2458849.5, 2451545.0, 2440000.75]
    durs = [2.25, 0.25, -2.25, 30000.7, -12345.678, 1.0, 40000.0]
    for scale in ("utc", "gps"):
        for e in epochs:
            for x in durs:
                for fmt in DELTA_FMTS:
                    for arr in (False, True):
                        try:
                            t = Time(np.array([e]) if arr else e, scale=scale, fmt="jd")
                            t2 = Time(np.array([e + 123.5]) if arr else e + 123.5, scale=scale, fmt="jd")
                            if fmt == "timedelta":
                                raw, raw2 = timedelta(days=x), timedelta(days=1.5)
                                d = TimeDelta(np.array([raw]) if arr else raw, scale=scale, fmt=fmt)
                                d2 = TimeDelta(np.array([raw2]) if arr else raw2, scale=scale, fmt=fmt)
                                nd = TimeDelta(np.array([-raw]) if arr else -raw, scale=scale, fmt=fmt)
                            else:
                                k = 86400.0 if fmt == "seconds" else 1.0
                                d = TimeDelta(np.array([x * k]) if arr else x * k, scale=scale, fmt=fmt)
                                d2 = TimeDelta(np.array([1.5 * k]) if arr else 1.5 * k, scale=scale, fmt=fmt)
                                nd = TimeDelta(np.array([-x * k]) if arr else -x * k, scale=scale, fmt=fmt)
                            if abs(val(d)[0] - Fraction(x)) >= max(ns, abs(Fraction(x)) * Fraction(1, 2 ** 50)):
                                return {"what": f"TimeDelta({x} days as {fmt}) has length {float(val(d)[0])} days", "input": [scale, e, x, fmt, arr]}
                            tx = Time(e, scale="tai" if scale != "tai" else "utc", fmt="jd")
                            laws = [
                                ("(t+d)-t=d", lambda: (op("-", op("+", t, d), t) if op("+", t, d) is not None else None, d)),
                                ("(t-d)+d=t", lambda: (op("+", op("-", t, d), d) if op("-", t, d) is not None else None, t)),
                                ("(t2-t)+t=t2", lambda: (op("+", op("-", t2, t), t) if op("-", t2, t) is not None else None, t2)),
                                ("t+(t2-t)=t2", lambda: (op("+", t, op("-", t2, t)) if op("-", t2, t) is not None else None, t2)),
                                ("t-d=t+(-d)", lambda: (op("-", t, d), op("+", t, nd))),
                                ("d+d2=d2+d", lambda: (op("+", d, d2), op("+", d2, d))),
                                ("(d+d2)-d2=d", lambda: (op("-", op("+", d, d2), d2) if op("+", d, d2) is not None else None, d)),
                                ("t+d=d+t", lambda: (op("+", t, d), op("+", d, t))),
                            ]
                            for name, f in laws:
                                lhs, rhs = f()
                                if differ(lhs, rhs):
                                    return {"what": f"law {name} fails on the implementation",
                                            "law": name, "scale": scale, "epoch_jd": e, "epoch2_jd": e + 123.5, "duration_days": x, "d2_days": 1.5,
                                            "duration_fmt": fmt, "array_operands": arr,
                                            "lhs": None if lhs is None else describe(lhs), "rhs": None if rhs is None else describe(rhs),
                                            "how": f"from midgard.data.time import Time, TimeDelta; t = Time({e}, scale={scale!r}, fmt='jd'); "
                                                   f"d = TimeDelta(<{x} days as {fmt}>, scale={scale!r}, fmt={fmt!r}); compare jd1+jd2 of both sides of {name}"}
                            for sym, a, b in (("+", t, TimeDelta(1.0, scale=tx.scale, fmt="days")), ("-", t, tx), ("+", d, tx), ("+", t, t2), ("-", d, t)):
                                st, r = apply_op(sym, a, b)
                                if st != "refused":
                                    return {"what": f"{type(a).__name__} {sym} {type(b).__name__} is not refused ({st})", "scale": scale,
                                            "how": f"{type(a).__name__}(scale={a.scale!r}) {sym} {type(b).__name__}(scale={b.scale!r})"}
                        except Exception as ex:
                            return {"what": f"{type(ex).__name__}: {ex} while evaluating the laws", "input": [scale, e, x, fmt, arr]}
    return None


# ============================================================================= the run
QUIRK_WHAT = {
    "c03_sub_drops_days": "Time - TimeDelta subtracts only the day fraction (jd2) of the duration: (t - d) + d != t for |d| >= 1 day",
    "c03_add_collapses_days": "Time + TimeDelta adds the collapsed float d.days to jd2: up to ~0.3 us lost for durations of decades ((t+d)-t = d only to ~100 ns, not 1 ns)",
    "c03_neg_keeps_jds": "-TimeDelta (inherited ndarray.__neg__) negates the values but keeps jd1/jd2: t + (-d) = t + d",
    "c03_val2_aliased": "TimeDelta(fmt='days'|'jd', val2=array) overwrites the caller's val2 array with the day fractions, freezes it and keeps it as jd2",
    "c03_seconds_inplace": "TimeDelta(fmt='seconds') multiplies the caller's array in place by Unit.second2day (and raises for integer / read-only arrays)",
}
# steps whose self operand is the result of an earlier Time + TimeDelta step of the same scenario
UNNORMALISED_FROM = {"(t+d)-t": "t+d"}
VERDICT_QUIRK = {2: "c03_sub_drops_days", 3: "c03_add_collapses_days", 4: "c03_neg_keeps_jds", 5: "c03_seconds_inplace",
                 7: "c03_val2_aliased"}


def correspondence(ctx, specs, shard=400, base_id=0):
    col = Collector()
    for i, spec in enumerate(specs):
        exec_scenario(col, base_id + i, spec)
    verdicts = {}
    import time as _time
    t0 = _time.time()
    shards, owner = [], []
    for fn, cases in col.cases.items():
        for sh_ in emit.shard_terms(fn, cases, shard):
            shards.append(sh_)
            owner.append(fn)
    vs = ctx.coq_cases(shards, REQ)                      # all check functions in one parallel batch
    for fn, cases in col.cases.items():
        verdicts[fn] = emit.flatten_verdicts([v for v, o in zip(vs, owner) if o == fn], len(cases))
    ctx.log("  " + ", ".join(f"{fn}: {len(c)}" for fn, c in col.cases.items()) + f" cases in {len(shards)} shards, {_time.time() - t0:.1f}s")
    return col, verdicts


def edge_stream(ctx, col_direct):
    """Constructor edge inputs that belong to the seconds_inplace class: integer and read-only arrays."""
    import numpy as np
    from midgard.data.time import TimeDelta
    out = []
    for label, mk in (("int64 array", lambda: np.array([86400, 10])), ("read-only float array", lambda: _ro(np.array([86400.0, 10.0])))):
        for fmt in ("seconds", "days", "jd"):
            a = mk()
            before = a.copy()
            try:
                d = TimeDelta(a, scale="utc", fmt=fmt)
                err = None
            except Exception as e:
                err = f"{type(e).__name__}: {e}"
            ctx.count(f"edge:{fmt}:{label}")
            ctx.case(("edge", fmt, label), nontrivial=True)
            changed = a.tobytes() != before.tobytes()
            if err or changed:
                out.append((fmt, {"step": f"TimeDelta({label}, fmt={fmt!r})", "error": err, "input_changed": changed,
                                  "how": f"TimeDelta(<{label} [86400, 10]>, scale='utc', fmt={fmt!r})"}))
    return out


def _ro(a):
    a.flags.writeable = False
    return a


MAX_REPLAYS = 40


def report(ctx, replay, what, found=True):
    """ctx.violation, but after MAX_REPLAYS replay files only count (a broken tree fails thousands of cases)."""
    if len(ctx.violations) < MAX_REPLAYS:
        ctx.violation(replay, what=what, found=found)
    else:
        ctx.count("violations_beyond_replay_cap")
        ctx.violations.append((None, found))


def finding(ctx, fid, what, replay):
    """ctx.finding with the replay cap: KNOWN-FINDING if `fid` is listed open, else a (capped) violation."""
    if any(k.get("id") == fid and k.get("status", "open") == "open" for k in ctx.known):
        return ctx.finding(fid, what, replay)
    report(ctx, replay, what)
    return False


def decide(ctx, col, verdicts, code):
    """Classify the verdicts of one batch of scenarios (DESIGN 2.6 / README protocol step 3)."""

    # ---------------------------------------------------------------- decide
    # which quirk programs are at work: proved for the regenerated methods (gen_quirks_code), or - when that
    # classification is unavailable - demonstrated in this run by a result that matches a quirk model
    seen = set(verdicts["check_op"] or [])
    bits = (code if code is not None and code > 0 else 0) | (1 if 2 in seen else 0) | (2 if 3 in seen else 0)
    op_quirk = {}          # (scenario, step) -> quirk verdict, to attribute a failing law to the step that causes it
    for fn in ("check_op", "check_neg", "check_ctor", "check_fmt", "check_cells_ctor", "check_cells_op", "check_law"):
        flat = verdicts[fn]
        if flat is None:
            ctx.violation({"broken": f"correspondence shards of {fn} did not evaluate in Coq", "errors": ctx.last_coq_errors[:2]},
                          what="correspondence (model evaluation) failed", found=False)
            continue
        for v, meta in zip(flat, col.meta[fn]):
            nontrivial = True
            if fn == "check_op":
                key = ("op", meta["expr"], meta["spec"]["scale"], tuple(meta["self"]["jd1_hex"]), tuple(meta["self"]["jd2_hex"]),
                       tuple(meta["other"]["jd1_hex"]), tuple(meta["other"]["jd2_hex"]), meta["element"])
                nontrivial = isinstance(meta["result"], dict)
                if v in (2, 3, 6):
                    op_quirk[(meta["scenario"], meta["step"])] = 3 if v == 6 else v
                if v == 1 and isinstance(meta["result"], str):
                    op_quirk.setdefault((meta["scenario"], meta["step"]), 0)
            elif fn == "check_neg":
                key = ("neg", tuple(meta["operand"]["jd1_hex"]), tuple(meta["operand"]["jd2_hex"]), meta["operand"]["fmt"], meta["element"])
                if v == 4:
                    op_quirk[(meta["scenario"], meta["step"])] = 4
            elif fn == "check_law":
                key = ("law", meta["law"], tuple(meta["lhs"]["jd1_hex"]), tuple(meta["lhs"]["jd2_hex"]), tuple(meta["rhs"]["jd2_hex"]), meta["element"])
            else:
                key = (fn, meta["scenario"], meta["step"], meta.get("element"), meta.get("array"))
            ctx.case(key, nontrivial=nontrivial, sample=None)
            if v == 0:
                continue
            if fn == "check_law":
                qs = [op_quirk.get((meta["scenario"], s)) for s in meta["steps"]]
                qs = [q for q in qs if q]
                if qs:
                    ctx.count(f"law_broken_by:{VERDICT_QUIRK[qs[0]]}:{meta['law']}")
                    finding(ctx, VERDICT_QUIRK[qs[0]], QUIRK_WHAT[VERDICT_QUIRK[qs[0]]], dict(meta, verdict=v, kind="law"))
                else:
                    report(ctx, dict(meta, verdict=v, kind="law"), f"law {meta['law']} fails to 1 ns on the implementation")
                continue
            q = VERDICT_QUIRK.get(v)
            if fn == "check_op" and v == 6 and meta["step"] in UNNORMALISED_FROM:
                # faithful two-part arithmetic on an operand whose jd2 holds whole days: produced by the collapsed add
                src = UNNORMALISED_FROM[meta["step"]]
                if bits & 2 or op_quirk.get((meta["scenario"], src)) == 3:
                    q = "c03_add_collapses_days"
            if fn == "check_op" and v == 1 and isinstance(meta["result"], str) and "unhashable type" in meta["result"] \
                    and meta["self"]["shape"] == [] and meta["other"]["shape"] != [] and meta["self"]["fmt"] == "datetime" and bits:
                # the quirk programs hand self.jd1 (a scalar) on unchanged next to an array jd2; TimeDateTime._from_jds cannot zip them
                if meta["expr"].endswith("TimeDelta") and " + " in meta["expr"] and bits & 2:
                    q = "c03_add_collapses_days"
                elif meta["expr"].endswith("TimeDelta") and " - " in meta["expr"] and bits & 1:
                    q = "c03_sub_drops_days"
            if q:
                ctx.count(f"quirk:{q}")
                finding(ctx, q, QUIRK_WHAT[q], dict(meta, verdict=v, kind=fn))
            else:
                report(ctx, dict(meta, verdict=v, kind=fn), f"midgard differs from the model ({fn}, {meta.get('step')})")
    for cls, rep in col.direct:
        report(ctx, dict(rep, kind=cls), rep.get("what", cls))


def run(ctx):
    refused = regen(ctx)
    ok = ctx.prove(THEOREMS)
    if not ok:
        core.make(["theories/Model/C03_TimeArith.vo"])
    code = None
    neg_code = None
    fmt_code = None
    if not refused:
        import re
        ans = ctx.coq_eval(REQ_GEN, "gen_quirks_code")
        m = re.search(r"=\s*\(?(-?\d+)\)?%?Z?\s*:\s*Z", ans)
        code = int(m.group(1)) if m else None
        ans = ctx.coq_eval(REQ_GEN, "gen_neg_code")
        m = re.search(r"=\s*\(?(-?\d+)\)?%?Z?\s*:\s*Z", ans)
        neg_code = int(m.group(1)) if m else None
        ans = ctx.coq_eval(REQ_GEN, "gen_formats_code")
        m = re.search(r"=\s*\(?(-?\d+)\)?%?Z?\s*:\s*Z", ans)
        fmt_code = int(m.group(1)) if m else None
    ctx.log(f"regenerated methods: refused={refused!r} gen_quirks_code={code} gen_neg_code={neg_code} gen_formats_code={fmt_code} "
            "(0 = specification; __neg__: 4 = inherited ndarray.__neg__, -1 = body outside the model)")

    from midgard.data.time import Time
    scales = list(Time.SCALES)
    rng = ctx.rng
    n_scen = 150 if ctx.quick() else 1500
    specs = [json.loads(json.dumps(c)) for c in CORPUS]
    for _ in range(n_scen):
        specs.append(gen_scenario(rng, scales))
    for spec in specs:
        ctx.count(f"shape:{spec['shape']}")
        ctx.count(f"scale:{spec['scale']}")
        ctx.count(f"tfmt:{spec['t']['fmt']}")
        ctx.count(f"dfmt:{spec['d']['fmt']}")
        for lab in spec["d"]["labels"]:
            ctx.count(f"duration:{lab}")
    chunk = 400
    for lo in range(0, len(specs), chunk):
        col, verdicts = correspondence(ctx, specs[lo:lo + chunk], base_id=lo)
        decide(ctx, col, verdicts, code)
        if len(ctx.violations) > 200:          # enough evidence; do not grind through the rest
            break
    for fmt, rep in edge_stream(ctx, None):
        if fmt == "seconds":
            ctx.count("quirk:c03_seconds_inplace:edge")
            ctx.finding("c03_seconds_inplace", QUIRK_WHAT["c03_seconds_inplace"], dict(rep, kind="edge"))
        else:
            ctx.violation(dict(rep, kind="edge"), what=f"TimeDelta constructor: {rep['step']}: {rep['error'] or 'input changed'}")
    for s in specs[len(CORPUS):len(CORPUS) + 3]:
        ctx.samples.append(s)

    # the regenerated methods themselves: which model are they?
    if code is not None and code > 0:
        rep = law_search() or {}
        if code & 1:
            ctx.finding("c03_sub_drops_days", QUIRK_WHAT["c03_sub_drops_days"],
                        dict(rep, kind="regenerated_method", method="TimeArray.__sub__", gen_quirks_code=code))
        if code & 2:
            ctx.finding("c03_add_collapses_days", QUIRK_WHAT["c03_add_collapses_days"],
                        {"kind": "regenerated_method", "method": "TimeArray.__add__", "gen_quirks_code": code,
                         "how": "t = Time(2458849.5, val2=0.3, scale='utc', fmt='jd'); d = TimeDelta(30000.7, scale='utc', fmt='days'); "
                                "(t + d).jd1 + (t + d).jd2 misses the exact sum by 62.9 ns"})
    if neg_code == 4:
        ctx.finding("c03_neg_keeps_jds", QUIRK_WHAT["c03_neg_keeps_jds"],
                    {"kind": "regenerated_method", "method": "TimeDeltaArray.__neg__ (absent: ndarray.__neg__ inherited)",
                     "how": "d = TimeDelta(np.array([2.25]), scale='utc', fmt='days'); (-d).jd1, (-d).jd2 -> [2.], [0.25]"})
    if not ok:
        if not ctx.violations:
            def search():
                rep = law_search()
                if rep:
                    rep["translator"] = refused or "translated"
                    rep["gen_quirks_code"] = code
                return rep
            ctx.obligations_broken(search)
    ctx.trusted += [
        "Coq 8.16.1 kernel, coqc, vm_compute (no native_compute)",
        "ast translator harness/drivers/c03.py (translate_source: 4 method bodies -> Gen/C03_TimeArith.v; refuses unknown shapes)",
        "hand model of the duration formats and of Python's operator dispatch in Model/C03_TimeArith.v (validated by this run's correspondence)",
        "harness/drivers/c03.py (generators, calls of the implementation, exact shipping of doubles) and Lib/Dyadic.v (is_nearest_double)",
    ]
    ctx.assume += ["durations within +-40000 days, epochs MJD 0..80000 in the correspondence (the theorems have no range limit)",
                   "numpy broadcasting of scalar/array operands is observed, not modelled: every result element is compared",
                   "binary64 rounding enters the accuracy theorem only through its relative-error bound and exactness on half-integers"]
    return ctx.finish(
        level="proof",
        rule=("scenarios = (scale, other scale, scalar/array shapes ss/sa/as/aa/a1, epoch formats jd(one/two-part)/mjd/datetime, two durations "
              "in days/seconds/jd/timedelta of classes whole/sub-day/mixed/negative/tiny/edge/decimal/whole-seconds within +-40000 d); per "
              "scenario 8 law chains (every operation compared element-wise with the model inside Coq at 1/2 ns, every law end-to-end at "
              "1 ns), unary minus, 11 refusals (mixed scales, time+time, duration-time), constructor accuracy, 4 format read-outs, byte "
              "images/flags of operands and caller arrays before/after. distinct_nontrivial = distinct (operation, operand doubles, element) "
              "cases that produced a result + distinct law/constructor/read-out cases"),
        extra={"gen_quirks_code": code, "gen_neg_code": neg_code, "gen_formats_code": fmt_code, "translator_notes": list(ctx.notes), "translator_refusal": refused},
    )


def replay(ctx, path):
    rep = json.load(open(path))
    print(json.dumps({k: v for k, v in rep.items() if k != "spec"}, indent=1)[:6000])
    spec = rep.get("spec")
    if not spec:
        print("(no scenario in this replay; see 'how')")
        return 0
    core.make(["theories/Model/C03_TimeArith.vo"])
    col = Collector()
    exec_scenario(col, 0, spec)
    bad = 0
    for fn, cases in col.cases.items():
        vs = emit.flatten_verdicts(ctx.coq_cases(emit.shard_terms(fn, cases, 400), REQ), len(cases))
        for v, meta in zip(vs or [], col.meta[fn]):
            if v != 0:
                bad += 1
                print(f"{fn} verdict={v} step={meta.get('step', meta.get('law'))} element={meta.get('element')}")
    for cls, r in col.direct:
        bad += 1
        print(f"direct {cls}: {r.get('what')}")
    print(f"replayed scenario: {bad} non-zero verdicts")
    return 1 if bad else 0
