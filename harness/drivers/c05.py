"""C05 - geocentric <-> geodetic conversion is exact and keeps its ellipsoid (DESIGN 4.5).

Proof obligations: coq/theories/Props/C05.v (models Model/C05_Geodetic.v, Model/C05_Flow.v; proofs Proofs/C05_*.v; libraries
Lib/Ival, Lib/Atan2, Lib/C05_Prog).  Regenerated on every run (harness/drivers/c05_gen.py, fail-closed `ast` passes):
Gen/C05_Ellipsoids.v (the registered ellipsoids) and Gen/C05_EllipsoidFlow.v (for every constructor call site of the position
classes: is the ellipsoid handed over?).  Correspondence: transformation.trs2llh / llh2trs and Position(...).llh / .trs are run
on generated points; every returned double is shipped exactly and compared inside Coq with interval enclosures (Coq-Interval,
128 bits) of the exact-arithmetic result of the same algorithm, with a geometric certificate and with round trips; the
`.ellipsoid` of real objects is followed through random operation histories and compared with the flow model."""
from __future__ import annotations

import copy
import json
import math
import os

import numpy as np

from harness import core, emit
from harness.drivers import c05_gen

META = {
    "property_id": "C05",
    "level": "proof",
    "design_ref": "DESIGN.md 4.5",
    "technique": "Coq proof over R on a hand model of trs2llh/llh2trs + induction over operation lists on a regenerated "
                 "hand-over table + vm_compute correspondence with interval enclosures (Coq-Interval) of the same algorithm",
    "level_text": (
        "Theorems in Coq 8.16 over the real numbers, for all inputs: derived ellipsoid parameters (b, e2, (1-f)^2 = 1-e2); "
        "llh2trs(lat,lon,h) is the point at distance h on the outward normal through the foot point, which lies on the "
        "ellipsoid and whose gradient is parallel to that normal; trs2llh: longitude = atan2(y,x) in (-pi,pi] (pi on the "
        "+-180 deg meridian), z -> -z negates the latitude and keeps height (southern hemisphere), pole branch, equator; "
        "for f = 0 the one-step algorithm is the exact inverse of llh2trs, for every ellipsoid it is exact on the polar axis, in "
        "the equatorial plane and (latitude) on the surface; the exact solution of the latitude equation is a fixed point of "
        "the Halley step; for GRS80 the round trip error is < 1e-6 m on the surfaces h = +-100 km (all latitudes up to 85.9 "
        "deg, all longitudes) and on the normals at four latitudes for all |h| <= 100 km (univariate Taylor-model "
        "certificates; partial: the bound on the whole two-dimensional band is NOT a theorem). "
        "Verdict 0 of the correspondence is proved to mean: the implementation's doubles are within 1e-8 m + 4 ulp of the "
        "exact-arithmetic result of the modelled algorithm and the point on the "
        "normal through them is within 1e-6 m / 2 mm of the input (geo_cert_tolerance).  Ellipsoid retention: for every table "
        "of constructor call sites that forwards everywhere, every operation list (conversion, slice, subset, deep copy, "
        "arithmetic, insert, .pos/.vel, view, factory, HDF5 write/read; positions, posvels, deltas, velocities) keeps the "
        "ellipsoid at every step (induction); the table is regenerated from midgard/data/_position.py on every run and "
        "`forwarding_table_all_true` / `ellipsoid_preserved_today` are proved on it.  The models are tied "
        "to the code on every run by the correspondence described in coverage.rule."),
    "level_note": (
        "Partial: accuracy of the one-step Halley algorithm (< 1e-6 m below 100 km, < 2 mm up to 50 000 km) is decided per "
        "sample by validated numerics, not for all points.  Tolerance of 'equal to the exact-arithmetic result' is "
        "1e-8 m + 4 ulp(|xyz|) because doubles cannot resolve 1e-8 m at 56 000 km.  Trusted: Coq kernel + vm_compute, "
        "Coq-Interval (BigZ primitive integer axioms), stdlib real axioms, the hand-written models (validated, not derived), "
        "the ast classification of call sites (harness/drivers/c05_gen.py), the driver.  lru_cache/HashArray aliasing "
        "belongs to C08: the driver clears the caches, passes fresh copies and copies results."),
}

THEOREMS = [
    "ellipsoid_params", "ellipsoid_table_published", "llh2trs_on_normal", "trs2llh_lon", "trs2llh_mirror", "trs2llh_pole",
    "trs2llh_equator_lat", "halley_fixed_point_partial", "halley_exact_on_surface", "trs2llh_exact_on_sphere",
    "trs2llh_exact_on_axis", "trs2llh_exact_on_equator", "grs80_constants", "halley_accuracy_on_height_surfaces_partial",
    "halley_accuracy_on_normals_partial", "trs2llh_axially_symmetric",
    "check_trs2llh_sound", "check_llh2trs_sound", "geo_cert_tolerance",
    "ellipsoid_preserved", "forwarding_table_all_true", "ellipsoid_preserved_today", "every_site_modelled",
    "forwarding_ops_preserve", "check_flow_sound", "check_same_sound", "c05_ellipsoid_dropped_refuted",
]

REQ = "From Verif Require Import Lib.Dyadic Model.C05_Geodetic Model.C05_Flow Model.C05_Dtype."
ELLS = ["sphere", "WGS72", "GRS80", "WGS84", "IERS2003", "IERS2010", "DORIS"]     # order of Model.published_ellipsoids
QUIRK = "c05_ellipsoid_dropped"
QUIRK_DTYPE = "c05_narrow_dtype_arithmetic"


# ----------------------------------------------------------------------------- helpers
def dys(a):
    return emit.lst(emit.dy(x) for x in np.asarray(a, dtype=float).ravel())


def fl(a):
    return [float(x) for x in np.asarray(a, dtype=float).ravel()]


def hexs(a):
    return [float(x).hex() for x in np.asarray(a, dtype=float).ravel()]


def clear_caches():
    """lru_cache / HashArray effects are C08's subject; C05 looks at the conversion itself."""
    from midgard.math import transformation as T
    for name in ("_trs2llh", "_llh2trs"):
        f = getattr(T, name, None)
        if f is not None and hasattr(f, "cache_clear"):
            f.cache_clear()


def regen(ctx):
    t1, rows = c05_gen.gen_ellipsoids(core.REPO)
    ctx.regen("C05_Ellipsoids", t1)
    t2, sites, default = c05_gen.gen_flow(core.REPO)
    ctx.regen("C05_EllipsoidFlow", t2)
    return rows, sites, default


# ----------------------------------------------------------------------------- point generators
def gen_height(rng):
    r = rng.random()
    if r < 0.40:
        return rng.uniform(-1e5, 1e5)
    if r < 0.55:
        return rng.uniform(1e5, 2e6)
    if r < 0.85:
        return rng.uniform(2e6, 5e7)
    return rng.choice([-1e5, 0.0, 99999.0, 100001.0, 5e7, 3.5786e7, 2.02e7])


def xyz_of(ell, lat, lon, h):
    """generator only (any xyz is a legitimate input): a point near geodetic (lat, lon, h)"""
    f = 0.0 if math.isinf(ell.f_inv) else 1.0 / ell.f_inv
    w = (1 - f) ** 2
    ac = ell.a / math.sqrt(math.cos(lat) ** 2 + w * math.sin(lat) ** 2)
    r = (ac + h) * math.cos(lat)
    return [r * math.cos(lon), r * math.sin(lon), (w * ac + h) * math.sin(lat)]


def gen_trs_point(rng, ell):
    """returns (label, [x, y, z])"""
    kind = rng.choice(["random"] * 10 + ["pole", "equator", "meridian180", "meridian0", "meridian90", "near_axis", "near_axis",
                                         "threshold", "south"])
    h = gen_height(rng)
    b = ell.a * (1 - (0.0 if math.isinf(ell.f_inv) else 1.0 / ell.f_inv))
    lat = math.asin(rng.uniform(-1, 1))
    lon = rng.uniform(-math.pi, math.pi)
    sgn = rng.choice([1.0, -1.0])
    if kind == "random":
        return kind, xyz_of(ell, lat, lon, h)
    if kind == "south":
        return kind, xyz_of(ell, -abs(lat), lon, h)
    if kind == "pole":
        return kind, [rng.choice([0.0, -0.0]), rng.choice([0.0, -0.0]), sgn * (b + h)]
    if kind == "equator":
        x, y, _ = xyz_of(ell, 0.0, lon, h)
        return kind, [x, y, rng.choice([0.0, -0.0])]
    if kind == "meridian180":
        x, _, z = xyz_of(ell, lat, 0.0, h)
        return kind, [-abs(x), rng.choice([0.0, -0.0]), z]
    if kind == "meridian0":
        x, _, z = xyz_of(ell, lat, 0.0, h)
        return kind, [abs(x), rng.choice([0.0, -0.0]), z]
    if kind == "meridian90":
        x, _, z = xyz_of(ell, lat, 0.0, h)
        return kind, [rng.choice([0.0, -0.0]), sgn * abs(x), z]
    if kind == "near_axis":
        p = 10 ** rng.uniform(-13, -9) if rng.random() < 0.7 else 10 ** rng.uniform(-9, 0)
        return kind, [p * math.cos(lon), p * math.sin(lon), sgn * (b + h)]
    # threshold of the pole branch: p ~ a * 1e-16
    p = ell.a * 1e-16 * rng.choice([1.0, 1.0, 1 - 1e-9, 1 + 1e-9, 0.999, 1.001, 0.5, 2.0])
    if rng.random() < 0.5:
        return kind, [p, 0.0, sgn * (b + h)]
    return kind, [p * math.cos(lon), p * math.sin(lon), sgn * (b + h)]


def gen_llh_point(rng):
    kind = rng.choice(["random"] * 8 + ["pole", "equator", "meridian180", "meridian0", "south", "near_pole"])
    h = gen_height(rng)
    lat = math.asin(rng.uniform(-1, 1))
    lon = rng.uniform(-math.pi, math.pi)
    if kind == "pole":
        lat = rng.choice([1.0, -1.0]) * math.pi / 2
    elif kind == "near_pole":
        lat = rng.choice([1.0, -1.0]) * (math.pi / 2 - 10 ** rng.uniform(-15, -6))
    elif kind == "equator":
        lat = rng.choice([0.0, -0.0])
    elif kind == "meridian180":
        lon = rng.choice([math.pi, -math.pi])
    elif kind == "meridian0":
        lon = rng.choice([0.0, -0.0])
    elif kind == "south":
        lat = -abs(lat)
    return kind, [lat, lon, h]


def shapes_of(rng, pts):
    """split a list of points into arrays of shape (3,), (1,3), (n,3)"""
    out = []
    i = 0
    while i < len(pts):
        s = rng.choice(["1d", "1x3", "nx3", "nx3"])
        if s == "1d":
            out.append((s, np.array(pts[i], dtype=float)))
            i += 1
        elif s == "1x3":
            out.append((s, np.array([pts[i]], dtype=float)))
            i += 1
        else:
            n = rng.choice([2, 3, 5, 17, 40])
            out.append((s, np.array(pts[i:i + n], dtype=float)))
            i += n
    return out


# ----------------------------------------------------------------------------- other dtypes / containers
VARIANTS = ["int64", "int32", "list", "tuple_rows", "float32"]
NARROW = ("int32", "float32")        # numpy computes in these types when given them (quirk c05_narrow_dtype_arithmetic)


def as_variant(vals64, variant, shape):
    """vals64: (n,3) float64 array whose values are exactly representable in the variant; returns the container"""
    a = vals64[0] if shape == "1d" else vals64
    if variant == "int64":
        return np.array(a, dtype=np.int64)
    if variant == "int32":
        return np.array(a, dtype=np.int32)
    if variant == "float32":
        return np.array(a, dtype=np.float32)
    if variant == "list":
        conv = (lambda v: int(v)) if np.all(vals64 == np.round(vals64)) else float
        return [conv(v) for v in a] if shape == "1d" else [[conv(v) for v in r] for r in a]
    if variant == "tuple_rows":
        conv = (lambda v: int(v)) if np.all(vals64 == np.round(vals64)) else float
        return tuple(conv(v) for v in a) if shape == "1d" else [tuple(conv(v) for v in r) for r in a]
    raise ValueError(variant)


def call_raw(direction, container, ell):
    """the raw function on the container as it is (no conversion by the driver)"""
    from midgard.math import transformation as T
    clear_caches()
    f = T.trs2llh if direction == "trs2llh" else T.llh2trs
    with np.errstate(all="ignore"):
        res = f(copy.deepcopy(container), ell)
        return np.array(np.asarray(res), dtype=float, copy=True), str(np.asarray(res).dtype)


# ----------------------------------------------------------------------------- calling the implementation
def call_conv(direction, api, arr, ell):
    """direction 'trs2llh' | 'llh2trs'; api 'function' | 'position'.  Fresh input, copied result, caches cleared."""
    from midgard.math import transformation as T
    from midgard.data import position as P
    clear_caches()
    a = np.array(arr, dtype=float, copy=True)
    if api == "function":
        f = T.trs2llh if direction == "trs2llh" else T.llh2trs
        res = f(a, ell)
    else:
        if direction == "trs2llh":
            res = P.Position(a, system="trs", ellipsoid=ell).llh
        else:
            res = P.Position(a, system="llh", ellipsoid=ell).trs
    with np.errstate(all="ignore"):
        return np.array(np.asarray(res), dtype=float, copy=True)


def rows(a):
    a = np.asarray(a, dtype=float)
    return a.reshape(-1, 3)


# ----------------------------------------------------------------------------- object histories
KINDS = ["KPos", "KPosVel", "KDelta", "KPvDelta", "KVel", "KVelDelta"]          # Model.C05_Flow.kind_of_nat
PA, PV, PDA, PVD = "PositionArray", "PosVelArray", "PositionDeltaArray", "PosVelDeltaArray"
_P2 = ("KPos", "KPosVel")
_D2 = ("KDelta", "KPvDelta")


def _sites_table():
    """the driver's copy of Model.C05_Flow.sites / kind_after (checked against the model inside Coq on every run:
    check_sites); {(kind, op): ([site, ...], kind after)} for the applicable combinations"""
    t = {}

    def put(op, kinds, sites, after=None):
        for k in kinds:
            t[(k, op)] = (list(sites), after.get(k, k) if after else k)
    put("OConvert", ["KPos"], [f"{PA}.convert_to#0"])
    put("OConvert", ["KPosVel"], [f"{PV}.convert_to#0"])
    put("OConvert", _D2, [f"{PDA}.convert_to#0"])
    put("OConvert", ["KVel"], ["VelocityArray.convert_to#0"])
    put("OConvert", ["KVelDelta"], ["VelocityDeltaArray.convert_to#0"])
    put("OGetitem", _P2, [f"{PA}.__getitem__#0"])
    put("OGetitem", _D2, [f"{PDA}.__getitem__#0", f"{PA}.__getitem__#0"])
    put("OSubset", _P2, [f"{PA}.subset#0"])
    put("OSubset", _D2, [f"{PDA}.subset#0", f"{PA}.subset#0"])
    put("ODeepcopy", ["KPos"], [f"{PA}.__deepcopy__#0", f"{PA}.create#0"])
    put("ODeepcopy", ["KPosVel"], [f"{PV}.__deepcopy__#0", f"{PV}.create#0"])
    put("ODeepcopy", ["KDelta"], [f"{PDA}.__deepcopy__#0", f"{PDA}.create#0", f"{PA}.__deepcopy__#0", f"{PA}.create#0"])
    put("ODeepcopy", ["KPvDelta"], [f"{PVD}.__deepcopy__#0", f"{PVD}.create#0", f"{PV}.__deepcopy__#0", f"{PV}.create#0"])
    for o in ("OAddDelta", "OSubDelta"):
        put(o, _P2, [f"{PA}.from_position#0"])
        put(o, _D2, [f"{PDA}.from_position_delta#0"])
    put("ODiffRef", _P2, [f"{PDA}.from_position#0"])
    put("ODiff", _P2, [f"{PDA}.from_position#0"], {"KPos": "KDelta", "KPosVel": "KPvDelta"})
    put("ORefPos", ["KDelta", "KVel"], [], {"KDelta": "KPos", "KVel": "KPos"})
    put("ORefPos", ["KPvDelta", "KVelDelta"], [], {"KPvDelta": "KPosVel", "KVelDelta": "KPosVel"})
    put("OInsert", _P2, [f"{PA}.insert#0"])
    put("OInsert", _D2, [f"{PDA}.insert#0", f"{PA}.insert#0"])
    put("OPos", ["KPos", "KDelta"], [])
    put("OPos", ["KPosVel"], [f"{PV}.pos#0"], {"KPosVel": "KPos"})
    put("OPos", ["KPvDelta"], [f"{PVD}.pos#0"], {"KPvDelta": "KDelta"})
    put("OVel", ["KPosVel"], [f"{PV}.vel#0", f"{PV}.pos#0"], {"KPosVel": "KVel"})
    put("OVel", ["KPvDelta"], [f"{PVD}.vel#0"], {"KPvDelta": "KVelDelta"})
    put("OView", _P2, [f"{PA}.__array_finalize__#0"])
    put("OCreate", ["KPos"], [f"{PA}.create#0"])
    put("OCreate", ["KPosVel"], [f"{PV}.create#0"])
    put("OCreate", ["KDelta"], [f"{PDA}.create#0"])
    put("OCreate", ["KPvDelta"], [f"{PVD}.create#0"])
    put("OEmptyFrom", ["KPos"], [f"{PA}.empty_from#0"])
    put("OEmptyFrom", ["KDelta"], [f"{PDA}.empty_from#0", f"{PDA}.empty_from#1"])
    put("OFromPosvel", ["KPosVel"], [f"{PV}.from_posvel#0"])
    put("OWriteRead", ["KPos"], [f"{PA}._read#0", f"{PA}.create#0"])
    put("OWriteRead", ["KPosVel"], [f"{PV}._read#0", f"{PV}.create#0"])
    put("OWriteRead", ["KDelta"], [f"{PDA}._read#0", f"{PDA}.create#0", f"{PA}._read#0", f"{PA}.create#0"])
    put("OWriteRead", ["KPvDelta"], [f"{PVD}._read#0", f"{PVD}.create#0", f"{PV}._read#0", f"{PV}.create#0"])
    return t


SITES = _sites_table()
OPS_OF = {k: sorted({o for (kk, o) in SITES if kk == k}) for k in KINDS}
# rare / expensive operations are drawn less often
OP_WEIGHT = {"OWriteRead": 0.35, "OEmptyFrom": 0.5}


def kind_of(obj):
    return {"PositionArray": "KPos", "PosVelArray": "KPosVel", "PositionDeltaArray": "KDelta", "PosVelDeltaArray": "KPvDelta",
            "VelocityArray": "KVel", "VelocityDeltaArray": "KVelDelta"}[obj.cls_name]


def carrier_of(obj):
    """the object whose .ellipsoid is the reference ellipsoid of obj"""
    return obj if obj.cls_name in ("PositionArray", "PosVelArray") else obj.ref_pos


def tag_of(obj):
    from midgard.math import ellipsoid as E
    e = getattr(carrier_of(obj), "ellipsoid", None)
    if isinstance(e, E.Ellipsoid) and e.name in ELLS and E.get(e.name) is e:
        return ELLS.index(e.name)
    return 99


def ell_name(obj):
    try:
        e = getattr(carrier_of(obj), "ellipsoid", None)
    except Exception as ex:
        return f"<{type(ex).__name__}>"
    return getattr(e, "name", repr(e))


def random_posvel(rng, n):
    out = []
    for _ in range(n):
        r = rng.uniform(6.8e6, 4.2e7)
        th = rng.uniform(0, 2 * math.pi)
        inc = rng.uniform(0.2, 1.3)
        v = math.sqrt(3.986004418e14 / r) * rng.uniform(0.9, 1.1)
        pos = np.array([r * math.cos(th), r * math.sin(th) * math.cos(inc), r * math.sin(th) * math.sin(inc)])
        vel = np.array([-v * math.sin(th), v * math.cos(th) * math.cos(inc), v * math.cos(th) * math.sin(inc)])
        vel = vel + 0.05 * v * np.array([math.cos(th), math.sin(th) * math.cos(inc), math.sin(th) * math.sin(inc)])
        out.append(list(pos) + list(vel))
    return np.array(out)


def write_read(obj, workdir, counter):
    """Dataset.add_<type>(obj); write; read back; return the field of the new Dataset"""
    from midgard.data import dataset
    n = obj.shape[0]
    ds = dataset.Dataset(num_obs=n)
    k = kind_of(obj)
    add = {"KPos": ds.add_position, "KPosVel": ds.add_posvel, "KDelta": ds.add_position_delta, "KPvDelta": ds.add_posvel_delta}[k]
    add("fld", val=obj)
    path = os.path.join(workdir, f"hist_{counter}.hdf5")
    ds.write(path)
    back = dataset.Dataset.read(path)
    os.remove(path)
    return back.fld


def apply_op(rng, obj, op, other_ell, workdir="."):
    """apply one operation of the model's alphabet to a real object; returns the result or None when the operation is
    not applicable to this object (shape / system); exceptions propagate."""
    import types
    from midgard.data import position as P
    from midgard.data._position import PositionArray, PosVelArray, PositionDeltaArray, PosVelDeltaArray
    k = kind_of(obj)
    is_pv = k in ("KPosVel", "KPvDelta")
    is_delta = k in _D2
    two_d = obj.ndim == 2
    n = obj.shape[0] if two_d else 1
    mk_pos = P.PosVel if is_pv else P.Position
    mk_delta = P.PosVelDelta if is_pv else P.PositionDelta
    if op == "OConvert":
        if k == "KPos":
            return obj.llh if obj.system == "trs" else obj.trs
        if k == "KPosVel":
            return obj.kepler if obj.system == "trs" else obj.trs
        if is_delta:
            if obj.system == "trs":
                return obj.acr if (is_pv and rng.random() < 0.4) else obj.enu
            return obj.trs
        # no conversion is registered for velocities: the classmethod itself with the identity as converter
        return type(obj).convert_to(obj, lambda a: np.array(np.asarray(a)))
    if op == "OGetitem":
        if not two_d:
            return None
        if n > 1 and rng.random() < 0.5:      # a (1, k) array is also F-contiguous: obj[0] is then a *column* (not C05's subject)
            return obj[rng.randrange(n)]
        a = rng.randrange(n)
        return obj[a:rng.randrange(a + 1, n + 1)]
    if op == "OSubset":
        if not two_d:
            return None
        idx = sorted(rng.sample(range(n), rng.randrange(1, n + 1)))
        return obj.subset(idx, {})
    if op == "ODeepcopy":
        return copy.deepcopy(obj)
    if op in ("OAddDelta", "OSubDelta"):
        if obj.system != "trs":
            return None
        if is_delta:
            d = mk_delta(np.full(obj.shape, 0.5), system="trs", ref_pos=mk_pos(np.asarray(obj.ref_pos) + 3.0, system="trs", ellipsoid=other_ell))
        else:
            d = mk_delta(np.full(obj.shape, 0.25), system="trs", ref_pos=obj)
        return obj + d if op == "OAddDelta" else obj - d
    if op in ("ODiffRef", "ODiff"):
        if obj.system != "trs":
            return None
        o2 = mk_pos(np.asarray(obj) + 1.0, system="trs", ellipsoid=other_ell)
        d = obj - o2
        return d.ref_pos if op == "ODiffRef" else d
    if op == "ORefPos":
        return obj.ref_pos
    if op == "OInsert":
        if not two_d:
            return None
        if is_delta:
            if obj.ref_pos.ndim != 2:
                return None
            rb = mk_pos(np.asarray(obj.ref_pos)[:1] + 2.0, system=obj.ref_pos.system, ellipsoid=other_ell)
            b = mk_delta(np.asarray(obj)[:1] + 2.0, system=obj.system, ref_pos=rb)
            cls = PosVelDeltaArray if is_pv else PositionDeltaArray
        else:
            b = mk_pos(np.asarray(obj)[:1] + 2.0, system=obj.system, ellipsoid=other_ell)
            cls = PosVelArray if is_pv else PositionArray
        return cls.insert(obj, rng.randrange(n + 1), b, {})
    if op == "OPos":
        if k == "KPosVel" and obj.system != "trs":
            return None                                       # there is no kepler Position system
        if k == "KPvDelta" and obj.system not in ("trs", "enu", "acr"):
            return None
        return obj.pos
    if op == "OVel":
        if obj.system != "trs":
            return None
        return obj.vel
    if op == "OView":
        if two_d and rng.random() < 0.5:
            return obj[[rng.randrange(n) for _ in range(rng.randrange(1, 4))]]
        return obj.copy()
    if op == "OCreate":
        if is_delta:
            return mk_delta(np.array(np.asarray(obj)), system=obj.system, ref_pos=obj.ref_pos)
        return mk_pos(np.array(np.asarray(obj)), system=obj.system, ellipsoid=obj.ellipsoid)
    if op == "OEmptyFrom":
        if k == "KPos":
            return PositionArray.empty_from(obj)
        # PositionDeltaArray.empty_from reads other.ref_pos, .system, .shape and .ellipsoid; a real delta has no .ellipsoid
        # (AttributeError), so the two call sites are probed with a stub that carries exactly these attributes
        if obj.system not in ("trs", "enu", "acr") or obj.ref_pos.cls_name != "PositionArray":
            return None
        stub = types.SimpleNamespace(ref_pos=obj.ref_pos, system=obj.system, shape=obj.shape, ellipsoid=obj.ref_pos.ellipsoid)
        return PositionDeltaArray.empty_from(stub)
    if op == "OFromPosvel":
        return PosVelArray.from_posvel(np.array(np.asarray(obj)), obj)
    if op == "OWriteRead":
        if not two_d or (is_delta and obj.ref_pos.ndim != 2):
            return None
        apply_op.counter = getattr(apply_op, "counter", 0) + 1
        return write_read(obj, workdir, apply_op.counter)
    raise ValueError(op)


TERMINAL = {("KPos", "OEmptyFrom"), ("KDelta", "OEmptyFrom"),
            ("KPvDelta", "OPos")}      # posveldelta.pos is a PositionDelta whose ref_pos is a PosVel: outside the kind lattice


def gen_history(rng, E, workdir, force=None):
    """run one random history on a real object; returns (case data, replay dict).  force = (kind, op): a history that
    reaches `kind` by the shortest route and then applies `op` (used to guarantee that every site is exercised)."""
    from midgard.data import position as P
    tag = rng.randrange(len(ELLS))
    ell = E.get(ELLS[tag])
    other = E.get(ELLS[rng.randrange(len(ELLS))])
    start_kind = rng.choice(["KPos", "KPos", "KPosVel"])
    route = []
    if force is not None:
        fk, fo = force
        start_kind = {"KPos": "KPos", "KDelta": "KPos", "KPosVel": "KPosVel", "KPvDelta": "KPosVel", "KVel": "KPosVel",
                      "KVelDelta": "KPosVel"}[fk]
        route = {"KPos": [], "KPosVel": [], "KDelta": ["ODiff"], "KPvDelta": ["ODiff"], "KVel": ["OVel"],
                 "KVelDelta": ["ODiff", "OVel"]}[fk] + [fo]
    elif rng.random() < 0.4:
        route = ["ODiff"]                   # random histories on deltas (and from there velocities) as often as on positions
    posvel = start_kind == "KPosVel"
    n = rng.choice([2, 3, 5]) if force is not None else rng.choice([1, 2, 3, 5])
    one_d = (not posvel) and force is None and rng.random() < 0.2
    if posvel:
        val = random_posvel(rng, n)
        obj = P.PosVel(val, system="trs", ellipsoid=ell)
    else:
        pts = [xyz_of(ell, math.asin(rng.uniform(-1, 1)), rng.uniform(-3, 3), rng.uniform(-1e4, 1e6)) for _ in range(n)]
        val = np.array(pts[0]) if one_d else np.array(pts)
        obj = P.Position(val, system="trs", ellipsoid=ell)
    ops, observed, log, kinds = [], [], [], []
    length = len(route) if force is not None else len(route) + rng.choice([1, 1, 2, 3, 4, 6])
    tries = 0
    while len(ops) < length and tries < 40:
        tries += 1
        k = kind_of(obj)
        if len(ops) < len(route):
            op = route[len(ops)]
        else:
            cands = OPS_OF[k]
            op = rng.choice(cands)
            if rng.random() > OP_WEIGHT.get(op, 1.0):
                continue
        res = apply_op(rng, obj, op, other, workdir)
        if res is None or not hasattr(res, "cls_name"):
            if len(ops) < len(route) and force is None:
                route = []
                continue
            if force is not None:
                raise RuntimeError(f"forced history {force}: {op} not applicable to {type(obj).__name__}{obj.shape}")
            continue
        want = SITES[(k, op)][1]
        ops.append(op)
        kinds.append(k)
        t = tag_of(res)
        observed.append(t)
        log.append(f"{op} -> {type(res).__name__}{tuple(res.shape)} ellipsoid={ell_name(res)}")
        if (k, op) in TERMINAL or res.ndim == 0:
            break
        if kind_of(res) != want:
            raise RuntimeError(f"{op} on {k} gave a {kind_of(res)}, the model says {want}")
        obj = res
    rep = dict(kind="history", start=("PosVel" if posvel else "Position"), start_kind=start_kind, shape=list(np.shape(val)),
               ellipsoid=ELLS[tag], other_ellipsoid=other.name, ops=ops, kinds=kinds, observed_tags=observed, observed=log,
               how="Position/PosVel(val, system='trs', ellipsoid=E) then the operations in order (see harness/drivers/c05.py apply_op); "
                   "the ellipsoid of a delta / velocity is that of its .ref_pos")
    return (KINDS.index(start_kind), tag, ops, observed), rep


# ----------------------------------------------------------------------------- the run
def run(ctx):
    from midgard.math import ellipsoid as E
    rng = ctx.rng
    # ---- 1. regenerate, prove
    try:
        ell_rows, sites, default = regen(ctx)
    except c05_gen.GenError as e:
        ctx.violation({"broken": f"regeneration failed: {e}"}, what=f"cannot extract the tables from the source: {e}", found=False)
        return ctx.finish(level="proof", rule="regeneration failed")
    ok = ctx.prove(THEOREMS)
    dropping = [s for s in sites if not s["forwards"]]
    for s in sites:
        ctx.count("site:" + ("forwards" if s["forwards"] else "DROPS"))
    site_by = {s["site"]: s for s in sites}
    known_sites = set()
    for k in ctx.known:
        if k.get("id") == QUIRK and k.get("status", "open") == "open":
            known_sites |= set(k.get("sites", []))
    if default not in ELLS:
        ctx.violation({"default_ellipsoid": default}, what="default ellipsoid of PositionArray.__new__ is not a published one", found=False)
        return ctx.finish(level="proof", rule="unknown default ellipsoid")
    idef = ELLS.index(default)

    # ---- 2. the unconditional statement for today's table is part of Props/C05.v (forwarding_table_all_true,
    #         ellipsoid_preserved_today, every_site_modelled): it breaks with the proof build when a site drops the hand-over
    today_ok = ok
    ctx.log(f"{len(dropping)} of {len(sites)} constructor call sites drop the ellipsoid / reference position")
    unmodelled = [s_["site"] for s_ in sites if not any(s_["site"] in v[0] for v in SITES.values())]
    if unmodelled:
        ctx.violation({"broken": "constructor call sites that no operation of the flow model passes through", "sites": unmodelled},
                      what="new constructor call site outside the flow model: " + ", ".join(unmodelled), found=False)

    # ---- 3. registered ellipsoids: runtime objects against the table and the derived parameters
    casesP, metaP = [], []
    for i, name in enumerate(ELLS):
        try:
            e = E.get(name)
        except Exception as ex:
            ctx.violation({"ellipsoid": name, "error": repr(ex)}, what=f"ellipsoid {name} is not registered")
            continue
        vals = [e.a, e.f, e.b, e.e2]
        casesP.append(emit.pair(emit.nat(i), dys(vals)))
        metaP.append(dict(kind="ellipsoid_parameters", ellipsoid=name, a_f_b_e2=fl(vals), hex=hexs(vals),
                          how=f"midgard.math.ellipsoid.get({name!r}).a/.f/.b/.e2"))
        ctx.case(("P", name), nontrivial=True)

    # ---- 4. points
    n_trs = 600 if ctx.quick() else 9000
    n_llh = 260 if ctx.quick() else 4000
    casesT, metaT = [], []      # check_trs2llh
    casesL, metaL = [], []      # check_llh2trs
    casesRT, metaRT = [], []    # check_rt_trs
    casesRL, metaRL = [], []    # check_rt_llh
    casesO, metaO = [], []      # check_obj_rt
    structural = []
    corpus = [(3, "corpus", [3512345.678, 1234567.891, 5123456.789]), (0, "corpus", [0.0, 0.0, 6371008.8]),
              (3, "corpus", [-6378137.0, -0.0, 0.0]), (2, "corpus", [4e-10, 0.0, -6356752.3])]
    per_ell = {}
    for i, label, p in corpus:
        per_ell.setdefault(i, []).append((label, p))
    for _ in range(n_trs):
        i = rng.randrange(len(ELLS))
        label, p = gen_trs_point(rng, E.get(ELLS[i]))
        per_ell.setdefault(i, []).append((label, p))
    for i in sorted(per_ell):
        ell = E.get(ELLS[i])
        pts = per_ell[i]
        labels = [l for l, _ in pts]
        pos = 0
        for shape, arr in shapes_of(rng, [p for _, p in pts]):
            api = rng.choice(["function", "function", "position"])
            try:
                llh = call_conv("trs2llh", api, arr, ell)
                back = call_conv("llh2trs", api, llh, ell)
            except Exception as ex:
                structural.append(dict(kind="exception", direction="trs2llh", api=api, ellipsoid=ELLS[i], input=arr.tolist(),
                                       error=f"{type(ex).__name__}: {ex}"))
                pos += len(rows(arr))
                continue
            if llh.shape != arr.shape or back.shape != arr.shape:
                structural.append(dict(kind="shape", direction="trs2llh", api=api, ellipsoid=ELLS[i], input=arr.tolist(),
                                       input_shape=list(arr.shape), llh_shape=list(llh.shape), back_shape=list(back.shape)))
                pos += len(rows(arr))
                continue
            for x, l, bk in zip(rows(arr), rows(llh), rows(back)):
                label = labels[pos]
                pos += 1
                ctx.count(f"trs:{label}")
                ctx.count(f"shape:{shape}:{api}")
                hh = float(l[2])
                ctx.count("height:" + ("nan" if hh != hh else "<100km" if hh <= 1e5 else "<2000km" if hh <= 2e6 else "<=50000km"))
                rep = dict(kind="trs2llh", api=api, shape=shape, ellipsoid=ELLS[i], label=label, xyz=fl(x), xyz_hex=hexs(x),
                           llh=fl(l), llh_hex=hexs(l), back=fl(bk), back_hex=hexs(bk),
                           how=("transformation.trs2llh(np.array(xyz), ellipsoid.get(E))" if api == "function" else
                                "Position(xyz, system='trs', ellipsoid=ellipsoid.get(E)).llh") + " ; then llh2trs the same way")
                casesT.append(emit.pair(emit.nat(i), dys(x), dys(l)))
                metaT.append(rep)
                casesL.append(emit.pair(emit.nat(i), dys(l), dys(bk)))
                metaL.append(dict(rep, kind="llh2trs(after trs2llh)"))
                casesRT.append(emit.pair(dys(x), emit.dy(l[2]), dys(bk)))
                metaRT.append(dict(rep, kind="roundtrip trs->llh->trs"))
                ctx.case(("T", i, tuple(hexs(x))), nontrivial=(label != "corpus"), sample=rep if len(ctx.samples) < 2 else None)
    # llh direction
    per_ell = {}
    for _ in range(n_llh):
        i = rng.randrange(len(ELLS))
        per_ell.setdefault(i, []).append(gen_llh_point(rng))
    for i in sorted(per_ell):
        ell = E.get(ELLS[i])
        pts = per_ell[i]
        labels = [l for l, _ in pts]
        pos = 0
        for shape, arr in shapes_of(rng, [p for _, p in pts]):
            api = rng.choice(["function", "function", "position"])
            try:
                xyz = call_conv("llh2trs", api, arr, ell)
                back = call_conv("trs2llh", api, xyz, ell)
            except Exception as ex:
                structural.append(dict(kind="exception", direction="llh2trs", api=api, ellipsoid=ELLS[i], input=arr.tolist(),
                                       error=f"{type(ex).__name__}: {ex}"))
                pos += len(rows(arr))
                continue
            if xyz.shape != arr.shape or back.shape != arr.shape:
                structural.append(dict(kind="shape", direction="llh2trs", api=api, ellipsoid=ELLS[i], input=arr.tolist(),
                                       input_shape=list(arr.shape), xyz_shape=list(xyz.shape), back_shape=list(back.shape)))
                pos += len(rows(arr))
                continue
            for l, x, bk in zip(rows(arr), rows(xyz), rows(back)):
                label = labels[pos]
                pos += 1
                ctx.count(f"llh:{label}")
                rep = dict(kind="llh2trs", api=api, shape=shape, ellipsoid=ELLS[i], label=label, llh=fl(l), llh_hex=hexs(l),
                           xyz=fl(x), xyz_hex=hexs(x), back=fl(bk), back_hex=hexs(bk),
                           how=("transformation.llh2trs(np.array(llh), ellipsoid.get(E))" if api == "function" else
                                "Position(llh, system='llh', ellipsoid=ellipsoid.get(E)).trs") + " ; then trs2llh the same way")
                casesL.append(emit.pair(emit.nat(i), dys(l), dys(x)))
                metaL.append(rep)
                casesT.append(emit.pair(emit.nat(i), dys(x), dys(bk)))
                metaT.append(dict(rep, kind="trs2llh(after llh2trs)", xyz=fl(x), llh=fl(bk)))
                casesRL.append(emit.pair(emit.nat(i), dys(l), dys(bk)))
                metaRL.append(dict(rep, kind="roundtrip llh->trs->llh"))
                ctx.case(("L", i, tuple(hexs(l))), nontrivial=True)

    # ---- 4b. the raw functions on other dtypes / containers: whole-metre coordinates as int64 / int32 arrays, nested Python
    #          lists / tuples, float32 arrays; llh as lists of Python floats, integer and float32 arrays.  The values are
    #          exactly representable in the container, so the oracle is the float64 model value and the float64 run
    n_dt = 90 if ctx.quick() else 900
    casesEq, metaEq = [], []
    combos = [(d_, v_, s_) for d_ in ("trs2llh", "llh2trs") for v_ in VARIANTS for s_ in ("1d", "1x3", "nx3")]
    for k_dt in range(n_dt):
        i = rng.randrange(len(ELLS))
        ell = E.get(ELLS[i])
        direction, variant, shape = combos[k_dt % len(combos)]      # every (direction, container, shape) in every run
        n = 1 if shape != "nx3" else rng.choice([2, 3, 7])
        if direction == "trs2llh":
            pts = []
            while len(pts) < n:
                _, p = gen_trs_point(rng, ell)
                step = 8.0 if variant == "float32" else 1.0          # multiples of 8 below 2^27 are float32 numbers
                q = [round(v / step) * step + 0.0 for v in p]
                if abs(q[0]) + abs(q[1]) >= 2.0:                       # stay off the (rounded-away) near-axis cases
                    pts.append(q)
            vals = np.array(pts, dtype=float)
        else:
            pts = []
            for _k in range(n):
                _, l = gen_llh_point(rng)
                if variant in ("int64", "int32"):
                    l = [float(rng.randrange(-1, 2)), float(rng.randrange(-3, 4)), float(round(l[2]))]
                elif variant == "float32":
                    l = [float(np.float32(v)) for v in l]
                pts.append(l)
            vals = np.array(pts, dtype=float)
        cont = as_variant(vals, variant, shape)
        ref_in = vals[0].copy() if shape == "1d" else vals.copy()
        try:
            out, out_dtype = call_raw(direction, cont, ell)
            ref, _ = call_raw(direction, ref_in, ell)
        except Exception as ex:
            structural.append(dict(kind="exception", direction=direction, api=f"function[{variant}]", ellipsoid=ELLS[i],
                                   input=vals.tolist(), error=f"{type(ex).__name__}: {ex}"))
            continue
        if out.shape != ref_in.shape:
            structural.append(dict(kind="shape", direction=direction, api=f"function[{variant}]", ellipsoid=ELLS[i],
                                   input=vals.tolist(), input_shape=list(ref_in.shape), output_shape=list(out.shape)))
            continue
        ctx.count(f"dtype:{direction}:{variant}:{shape}")
        for v_in, v_out, v_ref in zip(rows(vals), rows(out), rows(ref)):
            rep = dict(kind=f"{direction}[{variant}]", direction=direction, variant=variant, shape=shape, ellipsoid=ELLS[i],
                       input=fl(v_in), input_hex=hexs(v_in), output=fl(v_out), output_hex=hexs(v_out), output_dtype=out_dtype,
                       float64_run=fl(v_ref), float64_run_hex=hexs(v_ref),
                       how=f"transformation.{direction}(<the input values as {variant}, shape {shape}>, ellipsoid.get(E)) "
                           f"vs the same call on np.array(values, dtype=float)")
            if direction == "trs2llh":
                casesT.append(emit.pair(emit.nat(i), dys(v_in), dys(v_out)))
                metaT.append(rep)
            else:
                casesL.append(emit.pair(emit.nat(i), dys(v_in), dys(v_out)))
                metaL.append(rep)
            casesEq.append(emit.pair(dys(v_out), dys(v_ref)))
            metaEq.append(dict(rep, kind=f"{direction}[{variant}] == float64 run"))
            ctx.case(("D", direction, variant, shape, i, tuple(hexs(v_in))), nontrivial=True)

    # ---- 4c. the raw functions with a Position object as first argument: an explicit ellipsoid always wins, else the object's
    #          own, else GRS80.  All 7 x (7 + none) pairs (object's ellipsoid, explicit ellipsoid) in both directions in every run
    from midgard.data import position as P_
    from midgard.math import transformation as T_
    for i_obj in range(len(ELLS)):
        for j_arg in [None] + list(range(len(ELLS))):
            for direction in ("trs2llh", "llh2trs"):
                e_obj = E.get(ELLS[i_obj])
                e_arg = None if j_arg is None else E.get(ELLS[j_arg])
                i_exp = i_obj if j_arg is None else j_arg
                shape = rng.choice(["1d", "1x3", "nx3"])
                n = 1 if shape != "nx3" else rng.choice([2, 3])
                flavour = rng.choice(["Position", "PosVel.pos"]) if direction == "trs2llh" else "Position"
                if direction == "trs2llh":
                    vals = np.array([gen_trs_point(rng, e_obj)[1] for _ in range(n)], dtype=float)
                else:
                    vals = np.array([gen_llh_point(rng)[1] for _ in range(n)], dtype=float)
                a = vals[0].copy() if shape == "1d" else vals.copy()
                try:
                    if flavour == "PosVel.pos":
                        pv = np.hstack([vals, np.full(vals.shape, 1000.0)])
                        obj = P_.PosVel(pv[0] if shape == "1d" else pv, system="trs", ellipsoid=e_obj).pos
                    else:
                        obj = P_.Position(a, system=("trs" if direction == "trs2llh" else "llh"), ellipsoid=e_obj)
                    clear_caches()
                    f = T_.trs2llh if direction == "trs2llh" else T_.llh2trs
                    with np.errstate(all="ignore"):
                        res = f(obj) if e_arg is None else (f(obj, e_arg) if rng.random() < 0.5 else f(obj, ellipsoid=e_arg))
                        out = np.array(np.asarray(res), dtype=float, copy=True)
                except Exception as ex:
                    structural.append(dict(kind="exception", direction=direction, api=f"function({flavour} object)",
                                           ellipsoid=ELLS[i_obj], explicit=(None if j_arg is None else ELLS[j_arg]),
                                           input=vals.tolist(), error=f"{type(ex).__name__}: {ex}"))
                    continue
                if out.shape != a.shape:
                    structural.append(dict(kind="shape", direction=direction, api=f"function({flavour} object)", ellipsoid=ELLS[i_obj],
                                           input=vals.tolist(), input_shape=list(a.shape), output_shape=list(out.shape)))
                    continue
                ctx.count(f"object_arg:{direction}:{'no ellipsoid' if j_arg is None else 'own' if j_arg == i_obj else 'other'}")
                for v_in, v_out in zip(rows(vals), rows(out)):
                    rep = dict(kind=f"{direction}(object, ellipsoid)", direction=direction, object=flavour, shape=shape,
                               object_ellipsoid=ELLS[i_obj], explicit_ellipsoid=(None if j_arg is None else ELLS[j_arg]),
                               expected_ellipsoid=ELLS[i_exp], input=fl(v_in), input_hex=hexs(v_in), output=fl(v_out),
                               output_hex=hexs(v_out),
                               how=f"transformation.{direction}({flavour}(values, ellipsoid={ELLS[i_obj]})"
                                   + ("" if j_arg is None else f", ellipsoid.get({ELLS[j_arg]!r})") + "): an explicit ellipsoid wins, "
                                   "else the object's own, else GRS80")
                    if direction == "trs2llh":
                        casesT.append(emit.pair(emit.nat(i_exp), dys(v_in), dys(v_out)))
                        metaT.append(rep)
                    else:
                        casesL.append(emit.pair(emit.nat(i_exp), dys(v_in), dys(v_out)))
                        metaL.append(rep)
                    ctx.case(("A", direction, i_obj, j_arg, tuple(hexs(v_in))), nontrivial=(j_arg is not None and j_arg != i_obj))
    # plain arrays / lists without an ellipsoid: GRS80
    for direction in ("trs2llh", "llh2trs"):
        for _k in range(3):
            vals = np.array(gen_trs_point(rng, E.get("GRS80"))[1] if direction == "trs2llh" else gen_llh_point(rng)[1], dtype=float)
            clear_caches()
            f = T_.trs2llh if direction == "trs2llh" else T_.llh2trs
            out = np.array(np.asarray(f(vals.copy() if _k else vals.tolist())), dtype=float, copy=True)
            rep = dict(kind=f"{direction}(array, no ellipsoid)", direction=direction, input=fl(vals), input_hex=hexs(vals),
                       output=fl(out), expected_ellipsoid="GRS80", how=f"transformation.{direction}(values) -> default GRS80")
            (casesT if direction == "trs2llh" else casesL).append(emit.pair(emit.nat(ELLS.index("GRS80")), dys(vals), dys(out)))
            (metaT if direction == "trs2llh" else metaL).append(rep)
            ctx.case(("A0", direction, tuple(hexs(vals))), nontrivial=True)

    # ---- 5. objects: Position(xyz, 'trs', ellipsoid=E).llh.trs and random histories
    from midgard.data import position as P
    n_obj = 60 if ctx.quick() else 600
    for _ in range(n_obj):
        i = rng.randrange(len(ELLS))
        ell = E.get(ELLS[i])
        label, p = gen_trs_point(rng, ell)
        arr = np.array(p) if rng.random() < 0.4 else np.array([p])
        clear_caches()
        try:
            obj = P.Position(np.array(arr), system="trs", ellipsoid=ell)
            llh = np.array(np.asarray(obj.llh), dtype=float, copy=True)
            clear_caches()
            back = np.array(np.asarray(obj.llh.trs), dtype=float, copy=True)
        except Exception as ex:
            structural.append(dict(kind="exception", direction="object roundtrip", ellipsoid=ELLS[i], input=arr.tolist(),
                                   error=f"{type(ex).__name__}: {ex}"))
            continue
        rep = dict(kind="object_roundtrip", ellipsoid=ELLS[i], label=label, xyz=fl(arr), llh=fl(llh), back=fl(back),
                   xyz_hex=hexs(arr), back_hex=hexs(back), default_ellipsoid=default,
                   how="p = Position(xyz, system='trs', ellipsoid=ellipsoid.get(E)); p.llh.trs must be xyz")
        casesO.append(emit.pair(emit.nat(i), emit.nat(idef), dys(arr), dys(llh), dys(back)))
        metaO.append(rep)
        ctx.count(f"object_roundtrip:{ELLS[i]}")
        ctx.case(("O", i, tuple(hexs(arr))), nontrivial=(i != idef))
    n_hist = 200 if ctx.quick() else 3000
    casesF, metaF = [], []
    site_cov = {s_["site"]: 0 for s_ in sites}
    forced = sorted(SITES)                      # one history per applicable (kind, operation): every site is exercised
    plan = [f for f in forced] + [None] * n_hist
    for force in plan:
        try:
            (k0, tag, ops, observed), rep = gen_history(rng, E, ctx.work, force)
        except Exception as ex:
            import traceback
            structural.append(dict(kind="exception", direction="object history", forced=force, error=f"{type(ex).__name__}: {ex}",
                                   traceback=traceback.format_exc()[-1500:]))
            continue
        if not ops:
            continue
        casesF.append(emit.pair(emit.nat(idef), emit.nat(k0), emit.nat(tag), emit.lst(ops), emit.lst(emit.nat(t) for t in observed)))
        metaF.append(rep)
        for k_, o in zip(rep["kinds"], ops):
            ctx.count(f"op:{k_}:{o}")
            for st in SITES[(k_, o)][0]:
                site_cov[st] = site_cov.get(st, 0) + 1
        ctx.case(("F", k0, tag, tuple(ops), tuple(rep["shape"])), nontrivial=(tag != idef), sample=rep if len(ctx.samples) < 4 else None)
    # the driver's table of sites against the model's
    casesS, metaS = [], []
    for (k_, o), (ss, after) in sorted(SITES.items()):
        casesS.append(emit.pair(emit.nat(KINDS.index(k_)), o, emit.lst(emit.s(x) for x in ss), emit.nat(KINDS.index(after))))
        metaS.append(dict(kind="sites_table", model_kind=k_, op=o, driver_sites=ss, driver_kind_after=after))

    # ---- 6. evaluate inside Coq
    size = 40
    groups = [("check_params", casesP, metaP), ("check_trs2llh", casesT, metaT), ("check_llh2trs", casesL, metaL),
              ("check_rt_trs", casesRT, metaRT), ("check_rt_llh", casesRL, metaRL), ("check_obj_rt", casesO, metaO),
              ("check_flow", casesF, metaF), ("check_sites", casesS, metaS), ("check_same", casesEq, metaEq)]
    shards, owner = [], []
    for fn, cases, meta in groups:
        sh = emit.shard_terms(fn, cases, 400 if fn in ("check_rt_trs", "check_flow", "check_params", "check_sites", "check_same") else size)
        shards += sh
        owner += [fn] * len(sh)
    ctx.log(f"{sum(len(g[1]) for g in groups)} cases in {len(shards)} shards")
    vs = ctx.coq_cases(shards, REQ, timeout=1500)
    verdicts = {}
    for fn, cases, meta in groups:
        mine = [v for v, o in zip(vs, owner) if o == fn]
        verdicts[fn] = emit.flatten_verdicts(mine, len(cases))

    # ---- 7. decide
    names = {11: "latitude differs from the exact-arithmetic result of the algorithm by more than 1e-8 m + 4 ulp",
             12: "longitude differs from atan2(y, x) by more than 1e-8 m + 4 ulp (arc length)",
             13: "height / coordinate differs from the exact-arithmetic result by more than 1e-8 m + 4 ulp",
             14: "geometric certificate fails: the point at distance h on the normal through (lat, lon) misses the input by more than 1e-6 m (h <= 100 km) / 2 mm",
             15: "malformed or non-finite result", 16: "round trip does not reproduce the input within 1e-6 m (h <= 100 km) / 2 mm",
             17: "derived ellipsoid parameter differs from its definition",
             18: "result differs from the float64 run on the same values", 1: "ellipsoid tags differ from the specification and from the model",
             2: "the object lost its ellipsoid (fell back to the default)"}
    for fn, cases, meta in groups:
        flat = verdicts[fn]
        if flat is None:
            ctx.violation({"broken": f"correspondence shards of {fn} did not evaluate in Coq", "errors": ctx.last_coq_errors[:2]},
                          what="correspondence (model evaluation) failed", found=False)
            continue
        for v, rep in zip(flat, meta):
            if v == 0:
                continue
            rep = dict(rep, verdict=v, verdict_text=names.get(v, "?"), check=fn)
            if fn == "check_obj_rt" and v == 2:
                ctx.count("quirk:object_roundtrip_on_default_ellipsoid")
                culprit = {"PositionArray.convert_to#0"}
                if culprit <= known_sites and not site_by.get("PositionArray.convert_to#0", {}).get("forwards", True):
                    ctx.finding(QUIRK, names[2], rep)
                else:
                    ctx.violation(rep, what="Position(xyz, 'trs', ellipsoid=E).llh.trs was converted back on the default ellipsoid")
            elif fn == "check_flow":
                culprit = culprit_sites(rep, site_by)
                rep["culprit_sites"] = sorted(culprit)
                ctx.count("quirk:ellipsoid_dropped_in_history")
                if culprit and culprit <= known_sites:
                    ctx.finding(QUIRK, names[2], rep)
                else:
                    ctx.violation(rep, what=f".ellipsoid changed along an operation history ({', '.join(sorted(culprit)) or 'no dropping site in the table explains it'})")
            elif rep.get("variant") in NARROW and fn in ("check_trs2llh", "check_llh2trs", "check_same"):
                ctx.count(f"quirk:narrow_dtype:{rep['variant']}")
                ctx.finding(QUIRK_DTYPE, "trs2llh / llh2trs compute in the dtype of the input array (int32 overflows, float32 "
                                         "loses decimetres)", rep)
            elif fn == "check_sites":
                ctx.violation(rep, what="harness/drivers/c05.py SITES differs from Model.C05_Flow.sites / kind_after", found=False)
            else:
                ctx.violation(rep, what=f"{fn}: {names.get(v, v)}")
    for rep in structural:
        ctx.violation(rep, what=f"outside the model: {rep['kind']} ({rep.get('error', rep.get('direction'))})")
    # static table: dropping sites
    if dropping:
        new = [s for s in dropping if s["site"] not in known_sites]
        old = [s for s in dropping if s["site"] in known_sites]
        if old:
            ctx.finding(QUIRK, "constructor call sites do not hand the ellipsoid over",
                        dict(kind="forwarding_table", dropping=[dict(site=s["site"], line=s["line"], how=s["how"]) for s in old]))
        if new:
            inputs = [r for r in metaF if set(r.get("culprit_sites", [])) & {s["site"] for s in new}]
            ctx.violation(dict(kind="forwarding_table", dropping=[dict(site=s["site"], line=s["line"], how=s["how"]) for s in new],
                               failing_history=(inputs[0] if inputs else None),
                               broken="forwarding_table_all_true no longer holds for these sites of midgard/data/_position.py"),
                          what="constructor call site does not hand the ellipsoid over: " + ", ".join(s["site"] for s in new),
                          found=bool(inputs))
    if not ok and not ctx.violations:
        def search():
            # a history that loses the ellipsoid is the concrete failing input of a broken forwarding_table_all_true
            flat = verdicts.get("check_flow") or []
            for v, rep in zip(flat, metaF):
                if v != 0:
                    return dict(rep, what="proof obligation broken; this operation history loses the ellipsoid")
            return None
        ctx.obligations_broken(search)

    extra = dict(forwarding_table=[dict(site=s["site"], forwards=s["forwards"], how=s["how"], line=s["line"]) for s in sites],
                 site_coverage=[dict(site=s_["site"], histories_through_it=site_cov.get(s_["site"], 0)) for s_ in sites],
                 sites_never_exercised=[s_["site"] for s_ in sites if not site_cov.get(s_["site"], 0)],
                 today_obligation=dict(theorems=["forwarding_table_all_true", "ellipsoid_preserved_today"], accepted=today_ok,
                                       note=("holds for the tree under test" if today_ok else
                                             "does NOT hold for the tree under test: " + ", ".join(s["site"] for s in dropping))),
                 default_ellipsoid=default)
    ctx.trusted += [
        "Coq 8.16.1 kernel, coqc, vm_compute (no native_compute)",
        "Coq-Interval 4.x (FloatIntervalFull over BigZ radix-2 floats), Lib/Ival.v, Lib/Atan2.v, Lib/C05_Prog.v",
        "hand-written models coq/theories/Model/C05_Geodetic.v, Model/C05_Flow.v (validated against midgard by this run's correspondence)",
        "harness/drivers/c05_gen.py: ast classification of the constructor call sites (fail-closed) and of the Ellipsoid(...) registrations",
        "harness/drivers/c05.py (generators, calls of the implementation, term emission)",
    ]
    ctx.assume += ["heights between -100 km and 50 000 km; finite inputs",
                   "the accuracy thresholds 1e-6 m (h <= 100 km) / 2 mm (<= 50 000 km) are those of the property text",
                   "lru_cache / HashArray aliasing of transformation._trs2llh/_llh2trs is C08's subject (caches cleared before each call)"]
    return ctx.finish(
        level="proof",
        rule=("points: random directions x heights -100 km..50 000 km (incl. the bounds, 100 km +-1 m, GNSS/GEO altitudes), exact "
              "poles (+-0.0 x/y), equator (z = +-0.0), meridians 0/90/180 deg (y = +-0.0), near-axis p = 1e-13..1 m, the pole-branch "
              "threshold p ~ a*1e-16, southern hemisphere; 7 ellipsoids; shapes (3,), (1,3), (n,3); both directions; through "
              "transformation.trs2llh/llh2trs and Position(...).llh/.trs.  Every point: (i) implementation vs interval enclosure of "
              "the exact-arithmetic algorithm, (ii) geometric certificate, (iii) round trip.  Objects: Position(...).llh.trs and "
              "one forced history per (kind, operation) pair (every one of the 35 constructor call sites is exercised in every run, "
              "see site_coverage) + random histories of 1..7 operations (17-letter alphabet incl. HDF5 write/read) on "
              "Position/PosVel/delta/velocity objects of all ellipsoids, .ellipsoid (of the object or its ref_pos) after every "
              "step vs the flow model over the regenerated table.  distinct_nontrivial = distinct (ellipsoid, input "
              "doubles) points + distinct histories on a non-default ellipsoid"),
        extra=extra,
    )


def culprit_sites(rep, site_by):
    """the dropping constructor call sites of the first operation after which the ellipsoid differs from the initial one"""
    tag = ELLS.index(rep["ellipsoid"])
    for k, op, t in zip(rep["kinds"], rep["ops"], rep["observed_tags"]):
        if t != tag:
            return {s for s in SITES[(k, op)][0] if not site_by.get(s, {}).get("forwards", False)}
    return set()


def replay(ctx, path):
    rep = json.load(open(path))
    print(json.dumps(rep, indent=1))
    from midgard.math import ellipsoid as E
    kind = rep.get("kind", "")
    try:
        if "xyz_hex" in rep and kind.startswith(("trs2llh", "roundtrip trs", "llh2trs(after")):
            ell = E.get(rep["ellipsoid"])
            x = np.array([float.fromhex(h) for h in rep["xyz_hex"]])
            llh = call_conv("trs2llh", rep.get("api", "function"), x, ell)
            print("now: trs2llh ->", fl(llh))
            i = ELLS.index(rep["ellipsoid"])
            print(ctx.coq_eval(REQ, f"check_trs2llh {emit.pair(emit.nat(i), dys(x), dys(llh))}"))
        elif "llh_hex" in rep:
            ell = E.get(rep["ellipsoid"])
            l = np.array([float.fromhex(h) for h in rep["llh_hex"]])
            xyz = call_conv("llh2trs", rep.get("api", "function"), l, ell)
            print("now: llh2trs ->", fl(xyz))
            i = ELLS.index(rep["ellipsoid"])
            print(ctx.coq_eval(REQ, f"check_llh2trs {emit.pair(emit.nat(i), dys(l), dys(xyz))}"))
    except Exception as e:
        print("replay of the literal input failed:", type(e).__name__, e)
    print("re-run: VERIF_SEED=%s /venv/bin/python run_check.py C05 %s" % (rep.get("seed"), rep.get("tier", "quick")))
    return 0
