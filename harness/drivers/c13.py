"""C13 - SP3 orbit files (DESIGN 4.13).

Proof obligations: coq/theories/Props/C13.v (model Model/C13_Sp3.v, layout Spec/C13_Sp3Format.v, regenerated
parser tables Gen/C13_Sp3Fields.v).  Correspondence: SP3-c/d files rendered from random models by the
independent writer below are parsed by midgard.parsers.parse_file("sp3", ...); the literal file text and what
midgard returned (as_dict, meta, as_dataset) go to Coq, where the SPECIFICATION (format layout, exact
decimals) is evaluated on the text and compared with the shipped doubles."""
from __future__ import annotations

import json
import math
import os

from harness import core, emit

META = {
    "property_id": "C13",
    "level": "proof",
    "design_ref": "DESIGN.md 4.13",
    "technique": "Coq proof (fixed-column codec round trips, units, sentinels, epochs, file-level fold) on a model whose "
                 "column tables are regenerated from the parser + vm_compute correspondence on rendered SP3 files",
    "level_text": (
        "Theorems in Coq 8.16: the sp3 parser's regenerated header/data column tables are well formed and equal to the "
        "SP3-c/d layout written from the format definition; parse o render = id for position records (all values that fit), "
        "km->m, microsecond->metres of light, accuracy = base^code, sentinels -> NaN, epoch string, the header round trip "
        "(rendered SP3-c/d header -> exactly the meta data), the whole-file fold with that header (any number of epochs/"
        "satellites, V/EP/EV lines ignored, repeated epochs handled by midgard's drop rule stated exactly), and the Julian day "
        "number of the Dataset epochs against C02's civil calendar for every year.  The model is tied to the code on every run by table "
        "regeneration (reflection on setup_parser) and by a correspondence check: rendered files are parsed by midgard and "
        "the specification is evaluated on the same text inside Coq (exact rationals vs. shipped doubles)."),
    "level_note": (
        "Trusted: Coq kernel + vm_compute; the hand-written SP3 layout (Spec/C13_Sp3Format.v) and parser model "
        "(Model/C13_Sp3.v), validated by the correspondence; IEEE arithmetic bounded by ulp tolerances (2/3/4 ulps); "
        "datetime.strptime, str.format and the Time/Dataset classes are observed, not modelled; epochs whose second "
        "rounds at the 8th decimal tie, leap-second days and duplicate epochs are outside the domain."),
}

THEOREMS = [
    "sp3_fields_wf", "sp3_fields_match_spec", "sp3_labels_spec", "constants_spec",
    "position_record_roundtrip", "position_record_cut_roundtrip", "units_spec", "sentinels_spec", "sigma_spec",
    "epoch_spec", "ignored_lines_spec", "sp3_epoch_block_roundtrip", "sp3_file_roundtrip",
    "dataset_epoch_spec", "c13_sigma_multiplied_refuted", "c13_dataset_fraction_as_ms_refuted",
    "sp3_header_roundtrip", "sp3_file_roundtrip_full", "sp3_file_roundtrip_full_distinct", "sp3_file_roundtrip_dups",
    "jdn_civil", "jdn_inverse", "dataset_epoch_civil",
]

REQ = "From Coq Require Import Uint63 Floats.\nFrom Verif Require Import Lib.Dyadic Lib.Pack Model.C13_Sp3."


# ------------------------------------------------------------------------------------- regeneration
def _coq_fields(fields):
    return "[" + "; ".join(f"mkf {emit.s(k)} {int(a)} {int(b)}" for k, (a, b) in fields.items()) + "]"


def regen(ctx):
    """Reflect the live parser definition into Gen/C13_Sp3Fields.v (fail closed on anything unexpected)."""
    from midgard.parsers.sp3 import Sp3dParser
    from midgard.math.unit import Unit
    from midgard.math.constant import constant

    p = Sp3dParser(file_path=os.path.join(ctx.work, "does-not-exist.sp3"))
    chain = iter(p.setup_parser())
    header, data, data2 = next(chain), next(chain), next(chain)
    if data is not data2:
        raise RuntimeError("data parser is not repeated")
    out = ["From Coq Require Import String List ZArith QArith.",
           "From Verif Require Import Lib.Fixed Lib.Dyadic.",
           "Import ListNotations.", "Local Open Scope string_scope.", ""]
    rows = []
    for label, d in header.parser_def.items():
        if set(d) - {"parser", "fields"}:
            raise RuntimeError(f"unexpected parser_def entries {set(d)}")
        if not isinstance(d["fields"], dict):
            raise RuntimeError("header fields not a dict")
        rows.append(f"({emit.s(label)}, ({emit.s(d['parser'].__name__)}, {_coq_fields(d['fields'])}))")
    out.append("Definition gen_header : list (string * (string * list fieldspec)) :=\n  [" + ";\n   ".join(rows) + "].")
    dd = data.parser_def
    if sorted(dd) != ["*", "P", "V"]:
        raise RuntimeError(f"data labels {sorted(dd)}")
    for label in dd:
        if set(dd[label]) - {"parser", "fields"}:
            raise RuntimeError(f"unexpected parser_def entries {set(dd[label])}")
    out.append(f"Definition gen_P : list fieldspec := {_coq_fields(dd['P']['fields'])}.")
    out.append(f"Definition gen_V : list fieldspec := {_coq_fields(dd['V']['fields'])}.")
    ep = dd["*"]["fields"]
    if not isinstance(ep, list):
        raise RuntimeError("epoch fields not a list")
    out.append("Definition gen_epoch : list (option string) := "
               + emit.lst(emit.opt(None if f is None else emit.s(f)) for f in ep) + ".")
    out.append("Definition gen_data_parsers : list (string * string) := "
               + emit.lst(emit.pair(emit.s(k), emit.s(dd[k]["parser"].__name__)) for k in dd) + ".")
    # the label / end-marker lambdas are probed: label must be a prefix of the line of fixed length
    probes = ["#cP2016  3", "## 1886 17", "%c G  cc G", "PG01  1013", "*  2016  3", "EP   55   ", "VG01  2029", "EOF", "/* abc"]

    def label_len(pd):
        ns = set()
        for s_ in probes:
            lab = pd.label(s_, 1)
            if not (isinstance(lab, str) and s_.startswith(lab)):
                raise RuntimeError("label is not a prefix of the line")
            ns.add(len(lab) if len(lab) < len(s_) else None)
        ns.discard(None)
        if len(ns) != 1:
            raise RuntimeError(f"label lengths {ns}")
        return ns.pop()

    out.append(f"Definition gen_header_label_len : nat := {label_len(header)}.")
    out.append(f"Definition gen_data_label_len : nat := {label_len(data)}.")
    for pd, nm in ((header, "header"), (data, "data")):
        star = all(pd.end_marker("x", 1, s_ + "\n") == s_.startswith("*") for s_ in probes + ["", " *", "**"])
        out.append(f"Definition gen_{nm}_ends_before_star : bool := {emit.b(star)}.")
        out.append(f"Definition gen_{nm}_has_skip_or_callback : bool := {emit.b(pd.skip_line is not None or pd.end_callback is not None)}.")
    out.append(f"Definition gen_c : dy := {emit.dy(constant.c)}.")
    for nm in ("kilometer2meter", "microsecond2second", "millimeter2meter", "picosecond2second"):
        out.append(f"Definition gen_{nm} : dy := {emit.dy(getattr(Unit, nm))}.")
    ctx.regen("C13_Sp3Fields", "\n".join(out) + "\n")


# ------------------------------------------------------------------------- the independent SP3 writer
def fdec(n, width, dec):
    """integer n (in units of 10^-dec) -> Fortran Fwidth.dec text, by integer arithmetic only."""
    sign = "-" if n < 0 else ""
    a = abs(n)
    body = f"{sign}{a // 10 ** dec}.{a % 10 ** dec:0{dec}d}"
    assert len(body) <= width, (n, width, dec)
    return body.rjust(width)


def gen_model(rng, quick):
    """Random SP3 content (all numbers as integers in file units)."""
    ver = rng.choice("cd")
    big = rng.random() < (0.04 if quick else 0.08)
    nsat = rng.choice([90, 64, 85] if big else [1, 1, 2, 3, 4, 5, 8, 12, 20, 32])
    nep = rng.choice([50, 30] if big else [1, 1, 2, 2, 3, 4, 6, 10]) if not (big and quick) else rng.choice([8, 12])
    letters = "GRECJISL" if rng.random() < 0.7 else "ABCDEFGHIJKLMNOPQRSTUVWXYZ"
    sats = []
    while len(sats) < nsat:
        s = rng.choice(letters) + f"{rng.randrange(1, 100):02d}"
        if s not in sats:
            sats.append(s)
    # first epoch
    y = rng.choice([1994, 1999, 2000, 2004, 2016, 2017, 2024, 2025, 2031])
    mo = rng.randrange(1, 13)
    d = rng.randrange(1, 29)
    # seconds of day in 1e-7 s units
    frac_mode = rng.choice(["int", "int", "frac", "frac7", "tenth", "highrate", "highrate"])
    step = rng.choice([1, 30, 300, 900, 1])
    step7 = step * 10 ** 7
    epochs = []
    if frac_mode == "highrate":
        # high-rate products: sub-second epoch interval, several epochs inside one whole second, runs across second /
        # minute / hour boundaries (epochs that agree up to the whole second must keep their own fraction)
        step7 = rng.choice([1000000, 2500000, 5000000, 2000000, 500000, 1250000, 3333333, 1, 100, 7500000])
        if nep < 3:
            nep = rng.choice([3, 4, 5, 8])
        u = rng.random()
        if u < 0.45:      # cross a minute (or hour) boundary in the middle of the run
            edge = rng.randrange(1, 1440) * 60 * 10 ** 7
            t0 = max(0, edge - rng.randrange(1, nep) * step7 - rng.choice([0, 0, step7 // 2]))
        elif u < 0.7:     # start on a whole second
            t0 = rng.randrange(0, 86000) * 10 ** 7
        else:
            t0 = rng.randrange(0, 86000 * 10 ** 7)
        epochs = [t0 + k * step7 for k in range(nep)]
    else:
        t0 = rng.randrange(0, 86400 - nep * step - 2) * 10 ** 7
        for k in range(nep):
            t = t0 + k * step * 10 ** 7
            if frac_mode == "frac":
                t += rng.randrange(0, 10 ** 7 // 1000) * 1000          # multiples of 1e-4 s
            elif frac_mode == "frac7":
                t += rng.randrange(0, 10 ** 7) if k else rng.choice([1, 9999999, 5000000, 1234567])
            elif frac_mode == "tenth":
                t += rng.choice([0, 5000000, 2500000, 1000000])
            epochs.append(t)
    epochs = sorted(set(epochs))
    pv = "V" if rng.random() < 0.35 else "P"
    base_pv = rng.choice([12500000, 12500000, 20000000, 10000000, 15000000, 11000000, 0])
    base_clk = rng.choice([1025000000, 1025000000, 2000000000, 1000000000, 1100000000, 0])
    tsys = rng.choice(["GPS", "GPS", "UTC"])
    txt = lambda n: "".join(rng.choice("ABCDEFGHIJKLMNOPQRSTUVWXYZabcdxyz0123456789+-_") for _ in range(n))
    m = dict(ver=ver, pv=pv, y=y, mo=mo, d=d, sats=sats, epochs=epochs, base_pv=base_pv, base_clk=base_clk, tsys=tsys,
             data_used=rng.choice(["ORBIT", "u+U", "d+D", "  U", txt(5), txt(2), "a b"]),
             coord=rng.choice(["IGb08", "IGS20", "ITR97", "WGS84", txt(5), txt(3)]),
             orb=rng.choice(["HLM", "FIT", "EXT", "BCT", txt(3), txt(1)]),
             agency=rng.choice(["IGS", "AIUB", "NGS", "ESOC", txt(4), txt(2)]),
             ftype=rng.choice(["G", "M", "R", "E", "L", "C", "J"]),
             week=rng.randrange(0, 4000), sow=rng.randrange(0, 604800 * 10 ** 8), interval=step7 * 10,
             mjd=rng.randrange(40000, 70000), mjdfrac=rng.randrange(0, 10 ** 13),
             ncomment=4 if ver == "c" else rng.randrange(0, 8), frac_mode=frac_mode,
             cut_mode=rng.choice(["full", "full", "clock", "mixed", "sdev_only", "padded"]),
             ep_lines=rng.random() < 0.4)
    recs = []
    for t in epochs:
        for s in sats:
            r = dict(sat=s)
            for k in "xyz":
                u = rng.random()
                r[k] = 0 if u < 0.04 else rng.randrange(-10 ** 11, 10 ** 11) if u < 0.1 else rng.randrange(-45000 * 10 ** 6, 45000 * 10 ** 6)
                if u > 0.995:
                    r[k] = rng.choice([1, -1, 999999, -1000000])
            if rng.random() < 0.03:
                r["x"] = r["y"] = r["z"] = 0
            u = rng.random()
            r["clk"] = 999999999999 if u < 0.08 else rng.randrange(-999999 * 10 ** 6, 999999 * 10 ** 6) if u < 0.2 else rng.randrange(-10 ** 9, 10 ** 9)
            if u > 0.99:
                r["clk"] = rng.choice([0, 999999999998, -999999999999, 1])
            r["sd"] = [None if rng.random() < 0.15 else rng.randrange(0, 100) for _ in range(3)]
            # (exact base^code is evaluated in Coq's unary-free but software bignums: keep most exponents realistic)
            u = rng.random()
            r["sdc"] = None if u < 0.15 else rng.randrange(0, 160) if u < 0.85 else rng.randrange(160, 400) if u < 0.985 else rng.randrange(400, 1000)
            r["flags"] = [rng.choice(" E"), rng.choice(" P"), rng.choice(" M"), rng.choice(" P")]
            mode = m["cut_mode"]
            if mode == "mixed":
                mode = rng.choice(["full", "clock", "sdev_only", "padded", "partial"])
            r["mode"] = mode
            if m["pv"] == "V":
                r["v"] = [rng.randrange(-40000 * 10 ** 6, 40000 * 10 ** 6) for _ in range(3)] + [rng.randrange(-10 ** 9, 10 ** 9)]
            r["t"] = t
            recs.append(r)
    m["recs"] = recs
    return m


def render(m, rng):
    """The SP3-c/d text of a model, written from the format description (columns 1-based in the comments)."""
    L = []
    t0 = m["epochs"][0]
    sod = t0 // 10 ** 7
    hh, mi, ss8 = sod // 3600, sod // 60 % 60, (sod % 60) * 10 ** 8 + (t0 % 10 ** 7) * 10
    # line 1: cols 1-2 "#c", 3 P/V, 4-7 year, 9-10 month, 12-13 day, 15-16 hour, 18-19 minute, 21-31 second, 33-39 #epochs,
    #         41-45 data used, 47-51 coordinate system, 53-55 orbit type, 57-60 agency
    L.append(f"#{m['ver']}{m['pv']}{m['y']:4d} {m['mo']:2d} {m['d']:2d} {hh:2d} {mi:2d} {fdec(ss8, 11, 8)} {len(m['epochs']):7d} "
             f"{m['data_used']:<5s} {m['coord']:<5s} {m['orb']:<3s} {m['agency']:>4s}")
    # line 2: 4-7 week, 9-23 sow, 25-38 interval, 40-44 mjd, 46-60 fraction
    L.append(f"## {m['week']:4d} {fdec(m['sow'], 15, 8)} {fdec(m['interval'], 14, 8)} {m['mjd']:5d} {fdec(m['mjdfrac'], 15, 13)}")
    sats = m["sats"]
    nlines = max(5, -(-len(sats) // 17))
    for i in range(nlines):
        ids = "".join((sats[j] if j < len(sats) else "  0") for j in range(17 * i, 17 * i + 17))
        L.append((f"+  {len(sats):3d}   " if i == 0 else "+        ") + ids)
    for i in range(nlines):
        L.append("++       " + "".join(f"{(rng.randrange(0, 20) if 17 * i + j < len(sats) else 0):3d}" for j in range(17)))
    L.append(f"%c {m['ftype']:<2s} cc {m['tsys']:<3s} ccc cccc cccc cccc cccc ccccc ccccc ccccc ccccc")
    L.append("%c cc cc ccc ccc cccc cccc cccc cccc ccccc ccccc ccccc ccccc")
    L.append(f"%f {fdec(m['base_pv'], 10, 7)} {fdec(m['base_clk'], 12, 9)}  0.00000000000  0.000000000000000")
    L.append("%f  0.0000000  0.000000000  0.00000000000  0.000000000000000")
    L.append("%i    0    0    0    0      0      0      0      0         0")
    L.append("%i    0    0    0    0      0      0      0      0         0")
    for i in range(m["ncomment"]):
        L.append("/* " + rng.choice(["", "PCV:IGS20      OL/AL:FES2014b NONE     YN ORB:CoN CLK:CoN", "* starred comment", "P not a record", "%f 9.9 9.9"]))
    cur = None
    for r in m["recs"]:
        if r["t"] != cur:
            cur = r["t"]
            sod = cur // 10 ** 7
            hh, mi, ss8 = sod // 3600, sod // 60 % 60, (sod % 60) * 10 ** 8 + (cur % 10 ** 7) * 10
            # epoch: 1-2 "* ", 4-7 year, 9-10 month, 12-13 day, 15-16 hour, 18-19 minute, 21-31 second
            L.append(f"*  {m['y']:4d} {m['mo']:2d} {m['d']:2d} {hh:2d} {mi:2d} {fdec(ss8, 11, 8)}")
        # P: 1 "P", 2-4 id, 5-18 x, 19-32 y, 33-46 z, 47-60 clock, 62-63 65-66 68-69 sdev exponents, 71-73 clock sdev,
        #    75 76 clock flags, 79 80 orbit flags
        line = f"P{r['sat']}{fdec(r['x'], 14, 6)}{fdec(r['y'], 14, 6)}{fdec(r['z'], 14, 6)}{fdec(r['clk'], 14, 6)}"
        mode = r["mode"]
        sd = list(r["sd"]) + [r["sdc"]]
        if mode == "clock":
            sd = [None] * 4
        if mode == "partial":
            sd[3] = None
        if mode != "clock":
            line += "".join(" " + ("  " if v is None else f"{v:2d}") for v in sd[:3]) + " " + ("   " if sd[3] is None else f"{sd[3]:3d}")
            if mode in ("full", "padded"):
                f = r["flags"]
                line += f" {f[0]}{f[1]}  {f[2]}{f[3]}"
        r["sd_written"] = sd
        if mode == "padded":
            line = line.ljust(80)
        elif mode != "full" or rng.random() < 0.5:
            line = line.rstrip()
        L.append(line)
        if m["ep_lines"] and rng.random() < 0.7:
            L.append(f"EP  {rng.randrange(0, 9999):4d} {rng.randrange(0, 9999):4d} {rng.randrange(0, 9999):4d} {rng.randrange(0, 9999999):7d}"
                     f" {rng.randrange(-9999999, 9999999):8d} {rng.randrange(-9999999, 9999999):8d} {rng.randrange(-9999999, 9999999):8d}"
                     f" {rng.randrange(-9999999, 9999999):8d} {rng.randrange(-9999999, 9999999):8d} {rng.randrange(-9999999, 9999999):8d}")
        if m["pv"] == "V":
            v = r["v"]
            vl = f"V{r['sat']}{fdec(v[0], 14, 6)}{fdec(v[1], 14, 6)}{fdec(v[2], 14, 6)}{fdec(v[3], 14, 6)}"
            if rng.random() < 0.6:
                vl += f" {rng.randrange(0, 99):2d} {rng.randrange(0, 99):2d} {rng.randrange(0, 99):2d} {rng.randrange(0, 999):3d}"
            L.append(vl)
            if m["ep_lines"] and rng.random() < 0.5:
                L.append(f"EV  {rng.randrange(0, 9999):4d} {rng.randrange(0, 9999):4d} {rng.randrange(0, 9999):4d} {rng.randrange(0, 9999999):7d}"
                         f" {rng.randrange(-9999999, 9999999):8d} {rng.randrange(-9999999, 9999999):8d} {rng.randrange(-9999999, 9999999):8d}")
    L.append("EOF")
    return L


# ------------------------------------------------------------------------------------ observation
def pack(text):
    """text -> Coq list of primitive ints, 7 bytes per int with a 0x01 sentinel byte (Lib/Pack.unpack)."""
    b = text.encode("utf8")
    return "[" + ";".join(str(int.from_bytes(b[i:i + 7] + b"\x01", "little")) for i in range(0, len(b), 7)) + "]%uint63"


def fl(x):
    """double -> primitive float literal (exact)."""
    x = float(x)
    if math.isnan(x):
        return "nan"
    if math.isinf(x):
        return "neg_infinity" if x < 0 else "infinity"
    return x.hex() if x >= 0 and not (x == 0 and math.copysign(1, x) < 0) else f"({x.hex()})"


def oval(v):
    if isinstance(v, str):
        return f"(OStr {emit.s(v)})"
    if isinstance(v, float):
        return f"(ONumF {fl(v)})"
    raise TypeError(f"meta value {v!r}")


def bits(a):
    import numpy as np
    return np.ascontiguousarray(np.asarray(a, dtype=float)).tobytes()


class Inconsistent(RuntimeError):
    """as_dict / meta / as_dataset contradict each other (found without reference to the specification)."""


def observe(path, with_dataset=True):
    """Parse with midgard; returns (dict of packed observation parts, summary dict) or raises."""
    from midgard import parsers
    import numpy as np
    p = parsers.parse_file("sp3", path)
    d = p.as_dict()
    n = len(d.get("time", []))
    keys = ["time", "satellite", "sat_pos", "sat_clock_bias", "sat_pos_sigma", "sat_clock_bias_sigma", "system"]
    if n and sorted(d) != sorted(keys):
        raise Inconsistent(f"as_dict keys {sorted(d)}")
    for k in keys:
        if n and len(d[k]) != n:
            raise Inconsistent(f"as_dict()[{k!r}] has {len(d[k])} entries, 'time' has {n}")
    vals = []
    for i in range(n):
        vals += [float(x) for x in d["sat_pos"][i]] + [float(d["sat_clock_bias"][i])]
        vals += [float(x) for x in d["sat_pos_sigma"][i]] + [float(d["sat_clock_bias_sigma"][i])]
    for k in ("time", "satellite", "system"):
        if n and any((not isinstance(x, str)) or "\n" in x or x == "" for x in d[k]):
            raise Inconsistent(f"as_dict()[{k!r}] contains an empty or non-text entry")
    meta = {k: v for k, v in p.meta.items() if not k.startswith("__")}
    obs = dict(times=pack("\n".join(d["time"]) if n else ""), sats=pack("\n".join(d["satellite"]) if n else ""),
               syss=pack("\n".join(d["system"]) if n else ""), vals="[" + ";".join(fl(x) for x in vals) + "]%float",
               meta=emit.lst(emit.pair(emit.s(k), oval(v)) for k, v in meta.items()), jds="None")
    summary = dict(n=n, meta={k: v for k, v in meta.items()}, first=None)
    if n:
        summary["first"] = dict(time=d["time"][0], sat=d["satellite"][0], pos=[repr(float(x)) for x in d["sat_pos"][0]],
                                clk=repr(float(d["sat_clock_bias"][0])), sigma=[repr(float(x)) for x in d["sat_pos_sigma"][0]],
                                sigma_clk=repr(float(d["sat_clock_bias_sigma"][0])))
    if with_dataset and n:
        ds = p.as_dataset()
        t = ds.time
        jd1 = np.atleast_1d(np.asarray(t.jd1, dtype=float))
        jd2 = np.atleast_1d(np.asarray(t.jd2, dtype=float))
        if not (len(jd1) == len(jd2) == n == ds.num_obs):
            raise Inconsistent("dataset length differs from as_dict")
        if str(t.scale) != meta["time_sys"].lower():
            raise Inconsistent(f"dataset time scale {t.scale} for time system {meta['time_sys']}")
        for k, v in meta.items():
            if ds.meta.get(k) != v:
                raise Inconsistent(f"dataset meta[{k}] = {ds.meta.get(k)!r}, parser meta {v!r}")
        # the dataset fields are copies of the as_dict() values: bit-for-bit identity, no tolerance involved
        if bits(ds.sat_pos) != bits(np.array(d["sat_pos"])):
            raise Inconsistent("dataset sat_pos is not the parsed sat_pos")
        if bits(ds.sat_clock_bias) != bits(np.array(d["sat_clock_bias"])):
            raise Inconsistent("dataset sat_clock_bias is not the parsed sat_clock_bias")
        if [str(x) for x in ds.satellite] != list(d["satellite"]) or [str(x) for x in ds.system] != list(d["system"]):
            raise Inconsistent("dataset satellite/system differ from the parsed ones")
        obs["jds"] = "(Some [" + ";".join(fl(a) + ";" + fl(b) for a, b in zip(jd1, jd2)) + "]%float)"
        summary["dataset_first_jd"] = [repr(float(jd1[0])), repr(float(jd2[0]))]
    return obs, summary


def case_term(lines, obs):
    return (f"(PCase {pack(chr(10).join(lines) + chr(10))} {obs['times']} {obs['sats']} {obs['syss']} {obs['vals']} "
            f"{obs['meta']} {obs['jds']})")


CORPUS = [
    # hand-made file with every feature (kept small): fractional epoch, sentinels, cut lines, EP/V lines
    ["#cP2016  3  1  0  0  0.50000000       2 ORBIT IGb08 HLM  IGS",
     "## 1886 172800.00000000   900.00000000 57448 0.0000000000000",
     "+    2   G01G02  0  0  0  0  0  0  0  0  0  0  0  0  0  0  0",
     "++         7  8  0  0  0  0  0  0  0  0  0  0  0  0  0  0  0",
     "%c G  cc GPS ccc cccc cccc cccc cccc ccccc ccccc ccccc ccccc",
     "%c cc cc ccc ccc cccc cccc cccc cccc ccccc ccccc ccccc ccccc",
     "%f  1.2500000  1.025000000  0.00000000000  0.000000000000000",
     "%f  0.0000000  0.000000000  0.00000000000  0.000000000000000",
     "%i    0    0    0    0      0      0      0      0         0",
     "%i    0    0    0    0      0      0      0      0         0",
     "/* comment", "/* * comment", "/* comment", "/* comment",
     "*  2016  3  1  0  0  0.50000000",
     "PG01  10138.887745 -20456.557725 -13455.830128     13.095853  7  6  4 137",
     "EP   55   55   55     222 1234567 -1234567 5999999      -30      21 -1230000",
     "VG01  20298.880364 -18462.044804   1381.387685     -4.534317 14 14 14 191",
     "PG02      0.000000      0.000000      0.000000 999999.999999",
     "*  2016  3  1  0 15  0.12345670",
     "PG01  10138.887745 -20456.557725 -13455.830128     13.095853",
     "PG02 -21691.921884  13338.131173  -6326.904893    599.417359 10  7  8 114 EP  MP",
     "EOF"],
    # high-rate file: 0.25 s interval, four epochs in the whole second 59 and on across the minute boundary
    ["#dP2024  7 14 12 59 59.00000000       7 u+U   IGS20 FIT  GFZ",
     "## 2323  46799.00000000     0.25000000 60505 0.5416550925926",
     "+    2   G05E11  0  0  0  0  0  0  0  0  0  0  0  0  0  0  0",
     "++         0  0  0  0  0  0  0  0  0  0  0  0  0  0  0  0  0",
     "%c M  cc GPS ccc cccc cccc cccc cccc ccccc ccccc ccccc ccccc",
     "%c cc cc ccc ccc cccc cccc cccc cccc ccccc ccccc ccccc ccccc",
     "%f  1.2500000  1.025000000  0.00000000000  0.000000000000000",
     "%f  0.0000000  0.000000000  0.00000000000  0.000000000000000",
     "%i    0    0    0    0      0      0      0      0         0",
     "%i    0    0    0    0      0      0      0      0         0",
     "*  2024  7 14 12 59 59.00000000",
     "PG05  15000.000001 -20000.000002   5000.000003     10.000001",
     "PE11 -15000.000001  20000.000002  -5000.000003      0.000000  0  0  0   0",
     "*  2024  7 14 12 59 59.25000000",
     "PG05  15000.100001 -20000.100002   5000.100003     10.000002",
     "PE11 -15000.100001  20000.100002  -5000.100003     -0.000001",
     "*  2024  7 14 12 59 59.50000000",
     "PG05  15000.200001 -20000.200002   5000.200003     10.000003",
     "*  2024  7 14 12 59 59.75000000",
     "PG05  15000.300001 -20000.300002   5000.300003     10.000004",
     "*  2024  7 14 13  0  0.00000000",
     "PG05  15000.400001 -20000.400002   5000.400003     10.000005",
     "*  2024  7 14 13  0  0.25000000",
     "PG05  15000.500001 -20000.500002   5000.500003     10.000006",
     "*  2024  7 14 13  0  0.25000010",
     "PG05  15000.600001 -20000.600002   5000.600003     10.000007",
     "EOF"],
]


def run(ctx):
    regen_ok = True
    try:
        regen(ctx)
    except Exception as e:  # a parser definition that can no longer be reflected counts as a broken obligation
        regen_ok = False
        ctx.notes.append(f"regen failed: {type(e).__name__}: {e}")
        ctx.log(f"regen failed: {type(e).__name__}: {e}")
    ok = ctx.prove(THEOREMS) and regen_ok
    rng = ctx.rng
    n_files = 110 if ctx.quick() else 1000
    files = [("corpus", None, ls) for ls in CORPUS]
    for _ in range(n_files):
        m = gen_model(rng, ctx.quick())
        files.append(("random", m, render(m, rng)))
    cases, metas = [], []
    others = []
    fdir = os.path.join(ctx.work, "files")
    os.makedirs(fdir, exist_ok=True)
    for i, (kind, m, lines) in enumerate(files):
        path = os.path.join(fdir, f"f{i:05d}.sp3")
        with open(path, "w", encoding="ascii", newline="\n") as f:
            f.write("\n".join(lines) + "\n")
        rep = dict(kind="sp3_file", origin=kind, file_text=lines if len(lines) <= 400 else lines[:400] + ["... (%d lines)" % len(lines)],
                   how="midgard.parsers.parse_file('sp3', path) on the file_text; as_dict(), meta, as_dataset()")
        try:
            obs, summary = observe(path)
        except Inconsistent as e:
            others.append(dict(rep, observed=f"{e}", what="as_dict(), meta and as_dataset() of one parse are inconsistent: " + str(e)))
            continue
        except BaseException as e:  # SystemExit from log.fatal included
            others.append(dict(rep, observed=f"{type(e).__name__}: {e}", what=f"midgard raised {type(e).__name__} on a well-formed SP3 file"))
            continue
        rep["observed"] = summary
        cases.append(case_term(lines, obs))
        metas.append(rep)
        if m is not None:
            ctx.count(f"version:{m['ver']}")
            ctx.count(f"pv:{m['pv']}")
            ctx.count(f"time_sys:{m['tsys']}")
            ctx.count(f"nsat:{len(m['sats'])}")
            ctx.count(f"nepochs:{len(m['epochs'])}")
            ctx.count(f"fraction:{m['frac_mode']}")
            secs = [t // 10 ** 7 for t in m["epochs"]]
            ctx.count("epochs_sharing_a_whole_second:" + ("yes" if len(set(secs)) < len(secs) else "no"))
            if len(set(t // (60 * 10 ** 7) for t in m["epochs"])) > 1 and len(set(secs)) < len(secs):
                ctx.count("highrate_run_crosses_minute")
            ctx.count(f"lines:{m['cut_mode']}")
            ctx.count(f"ep_lines:{m['ep_lines']}")
            for r in m["recs"]:
                ctx.count("rec:clock_sentinel" if r["clk"] == 999999999999 else "rec:clock")
                ctx.count("rec:pos_sentinel" if 0 in (r["x"], r["y"], r["z"]) else "rec:pos")
                ctx.count("rec:sdev_blank" if None in r["sd_written"] else "rec:sdev_given")
        ctx.case(("file", tuple(lines)), nontrivial=summary["n"] >= 1, sample=rep if (summary["n"] <= 3 and i % 17 == 1) else None)
        ctx.evaluations += max(0, summary["n"] - 1)
    # small files first in small shards, big ones alone
    order = sorted(range(len(cases)), key=lambda i: len(cases[i]))
    shards, shard_idx, cur, cur_i, cur_size = [], [], [], [], 0
    for i in order:
        if cur and cur_size + len(cases[i]) > (250_000 if ctx.quick() else 600_000):
            shards.append("List.flat_map check_pfile " + emit.lst(cur))
            shard_idx.append(cur_i)
            cur, cur_i, cur_size = [], [], 0
        cur.append(cases[i])
        cur_i.append(i)
        cur_size += len(cases[i])
    if cur:
        shards.append("List.flat_map check_pfile " + emit.lst(cur))
        shard_idx.append(cur_i)
    ctx.log(f"{len(cases)} files, {sum(len(c) for c in cases) // 1000} kB of terms in {len(shards)} shards")
    vs = ctx.coq_cases(shards, REQ, timeout=1500)
    names = ["main", "sigma", "meta", "dataset"]
    for idxs, v in zip(shard_idx, vs):
        if v is None or len(v) != 4 * len(idxs):
            ctx.violation({"broken": "correspondence shard did not evaluate in Coq", "errors": ctx.last_coq_errors[:2]},
                          what="correspondence (model evaluation) failed", found=False)
            continue
        for k, i in enumerate(idxs):
            for part, code in zip(names, v[4 * k: 4 * k + 4]):
                rep = dict(metas[i], part=part, verdict=code)
                if code == 0:
                    continue
                if code == 2:
                    ctx.count("quirk:sigma_multiplied")
                    ctx.finding("c13_sigma_multiplied",
                                "sp3 accuracy codes are converted as code*base*unit instead of base**code (sat_pos_sigma, sat_clock_bias_sigma)", rep)
                elif code == 3:
                    ctx.count("quirk:dataset_fraction_as_ms")
                    ctx.finding("c13_dataset_fraction_as_ms",
                                "Sp3dParser.as_dataset feeds the 7-digit fraction of the epoch second to timedelta(milliseconds=...)", rep)
                elif code == 9:
                    ctx.violation(rep, what="the specification model rejects a file the writer produced (outside the model)")
                else:
                    ctx.violation(rep, what=f"midgard's result differs from the SP3 specification ({part})")
    for rep in others:
        ctx.violation(rep, what=rep["what"])
    if not ok and not ctx.violations:
        ctx.obligations_broken(lambda: None)
    ctx.trusted += [
        "Coq 8.16.1 kernel, coqc, vm_compute (no native_compute)",
        "hand-written SP3-c/d layout coq/theories/Spec/C13_Sp3Format.v (from the format documents) and parser model "
        "coq/theories/Model/C13_Sp3.v (validated against midgard.parsers.sp3 by this run's correspondence)",
        "harness/drivers/c13.py (reflection of setup_parser, the SP3 writer used as input generator, term emission)",
    ]
    ctx.assume += ["IEEE double arithmetic of float()*1000.0, *1e-6*c, base**code is within 2/3/4 ulps of the exact value",
                   "epoch seconds are multiples of 1e-7 s (no rounding tie at the 8th decimal), no leap-second epochs, epochs distinct",
                   "time systems GPS and UTC (others make as_dataset call log.fatal)"]
    return ctx.finish(
        level="proof",
        rule=("SP3-c/d files rendered by an independent writer from random models: 1..90 satellites of any constellation "
              "letter, 1..50 epochs incl. fractions down to 1e-7 s and high-rate runs (interval 1e-7..0.75 s, several epochs per "
              "whole second, crossing minute boundaries), P and P+V files with EP/EV lines, sentinels 0.000000 / "
              "999999.999999, blank/partial accuracy columns, lines cut after the clock field or padded to 80, GPS/UTC, "
              "bases 1.25/2/1/1.5/1.1/0; observables as_dict, meta, as_dataset (jd1/jd2, sat_pos, sat_clock_bias, "
              "satellite, system). evaluations = position records compared; distinct_nontrivial = distinct files with >= 1 record"),
    )


def replay(ctx, path):
    rep = json.load(open(path))
    lines = rep.get("file_text")
    print(json.dumps({k: v for k, v in rep.items() if k != "file_text"}, indent=1))
    if not lines or (lines and lines[-1].startswith("... (")):
        print("(file text truncated or absent; re-run with the seed)")
        return 0
    p = os.path.join(ctx.work, "replay.sp3")
    open(p, "w").write("\n".join(lines) + "\n")
    obs, summary = observe(p)
    print("observed now:", json.dumps(summary, indent=1, default=str))
    print("specification says (verdicts main/sigma/meta/dataset):")
    print(ctx.coq_eval(REQ, "check_pfile " + case_term(lines, obs)))
    print("expected records:")
    print(ctx.coq_eval(REQ, "parse_file spec_tables all_off " + emit.lst(emit.s(l) for l in lines))[:6000])
    return 0
