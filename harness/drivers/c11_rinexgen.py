"""Independent RINEX 2.11 / 3.0x observation-file writer and random model generator for C11.

Written from the format definitions (RINEX 2.11 tables A1/A2, RINEX 3.03 tables A2/A3), NOT from midgard's
parsers: every record is produced by Fortran-style formatting helpers (`A`, `I`, `F`, `X`) with the widths
of the standard.  All numbers are integers scaled by a power of ten (no binary floating point anywhere), so
the text in the columns is exactly the model value.

Model (plain dicts / lists, JSON-serialisable):
  file   = {version: 2|3, hdr: {...}, systypes: [(sys, [types])]  (v2: one entry, sys ''), epochs: [epoch],
            style: {...}, sampling: None | [num, den]}
  epoch  = {t: (Y, M, D, h, m, s7) with s7 = seconds * 10^7 as int, clk: None | int (v2: 1e-9 s, v3: 1e-12 s),
            sats: [sat], comment_after: [text]}
  sat    = {sys: 'G'.. | ' ' (v2 blank = GPS), prn: int, pad: '0' | ' ', cells: [cell]}
  cell   = {v: None | 'zero' | 'negzero' | int (thousandths, != 0), lead0: bool, lli: None | 0..9, ssi: None | 0..9}
"""
from __future__ import annotations


# ----------------------------------------------------------------------------------- Fortran-style edit descriptors
def A(text, w):
    assert len(text) <= w, (text, w)
    return text.ljust(w)


def I(n, w, zero=False):
    if n is None:
        return " " * w
    t = str(int(n))
    if zero:
        t = t.rjust(w, "0") if n >= 0 else "-" + t[1:].rjust(w - 1, "0")
    assert len(t) <= w, (n, w)
    return t.rjust(w)


def F(m, w, d, lead0=True):
    """Fw.d of the exact number m * 10^-d (m integer)."""
    if m is None:
        return " " * w
    sign = "-" if m < 0 else ""
    a = abs(int(m))
    ip, fp = divmod(a, 10 ** d)
    t = f"{sign}{ip}.{fp:0{d}d}"
    if ip == 0 and not lead0:
        t = f"{sign}.{fp:0{d}d}"
    assert len(t) <= w, (m, w, d)
    return t.rjust(w)


def X(n):
    return " " * n


def hdrline(body, label):
    assert len(body) <= 60, body
    return body.ljust(60) + label


# ----------------------------------------------------------------------------------- observation cells
def cell_text(c):
    v = c["v"]
    if v is None:
        val = X(14)
    elif v == "zero":
        val = F(0, 14, 3, c.get("lead0", True))
    elif v == "negzero":
        val = "-0.000".rjust(14)
    else:
        val = F(v, 14, 3, c.get("lead0", True))
    return val + I(c["lli"], 1) + I(c["ssi"], 1)


def finish(line, strip):
    return line.rstrip(" ") if strip else line


# ----------------------------------------------------------------------------------- RINEX 2
def v2_types_lines(types):
    out = []
    for k in range(0, max(len(types), 1), 9):
        chunk = types[k:k + 9]
        body = (I(len(types), 6) if k == 0 else X(6)) + "".join(X(4) + A(t, 2) for t in chunk)
        out.append(hdrline(body, "# / TYPES OF OBSERV"))
    return out


def satid(s):
    n = str(s["prn"])
    if len(n) < 2:
        n = s.get("pad", "0") + n
    return s["sys"] + n


def v2_epoch_lines(e, stripf):
    Y, M, D, h, m, s7 = e["t"]
    sats = e["sats"]
    first = (X(1) + I(Y % 100, 2, zero=e.get("yy_zero", True)) + X(1) + I(M, 2) + X(1) + I(D, 2) + X(1) + I(h, 2) + X(1) + I(m, 2)
             + F(s7, 11, 7) + X(2) + I(0, 1) + I(len(sats), 3))
    lines = []
    for k in range(0, max(len(sats), 1), 12):
        ids = "".join(satid(s) for s in sats[k:k + 12])
        if k == 0:
            ln = first + ids
            if e["clk"] is not None:
                ln = ln.ljust(68) + F(e["clk"], 12, 9)
        else:
            ln = X(32) + ids
        lines.append(finish(ln, stripf()))
    return lines


def v2_sat_lines(s, stripf):
    cells = s["cells"]
    lines = []
    for k in range(0, len(cells), 5):
        lines.append(finish("".join(cell_text(c) for c in cells[k:k + 5]), stripf()))
    return lines


# ----------------------------------------------------------------------------------- RINEX 3
def v3_types_lines(sys, types):
    out = []
    for k in range(0, max(len(types), 1), 13):
        chunk = types[k:k + 13]
        body = (A(sys, 1) + X(2) + I(len(types), 3) if k == 0 else X(6)) + "".join(X(1) + A(t, 3) for t in chunk)
        out.append(hdrline(body, "SYS / # / OBS TYPES"))
    return out


def v3_epoch_line(e, stripf):
    Y, M, D, h, m, s7 = e["t"]
    ln = (">" + X(1) + I(Y, 4) + X(1) + I(M, 2, zero=True) + X(1) + I(D, 2, zero=True) + X(1) + I(h, 2, zero=True) + X(1)
          + I(m, 2, zero=True) + F(s7, 11, 7) + X(2) + I(0, 1) + I(len(e["sats"]), 3))
    if e["clk"] is not None:
        ln += X(6) + F(e["clk"], 15, 12)
    return finish(ln, stripf())


def v3_sat_line(s, stripf):
    return finish(s["sys"] + I(s["prn"], 2, zero=(s.get("pad", "0") == "0")) + "".join(cell_text(c) for c in s["cells"]), stripf())


# ----------------------------------------------------------------------------------- header
def header_lines(f):
    h = f["hdr"]
    v = f["version"]
    L = []
    vers = h["version_text"]                                  # e.g. "2.11" / "3.03"
    L.append(hdrline(vers.rjust(9) + X(11) + A(h["file_type_text"], 20) + A(h["sat_sys_text"], 20), "RINEX VERSION / TYPE"))
    L.append(hdrline(A(h["program"], 20) + A(h["run_by"], 20) + A(h["file_created"], 20), "PGM / RUN BY / DATE"))
    blocks = []
    blocks.append([hdrline(A(h["marker_name"], 60), "MARKER NAME")])
    if h.get("marker_number") is not None:
        blocks.append([hdrline(A(h["marker_number"], 20), "MARKER NUMBER")])
    if v == 3 and h.get("marker_type") is not None:
        blocks.append([hdrline(A(h["marker_type"], 20), "MARKER TYPE")])
    if h.get("observer") is not None:
        blocks.append([hdrline(A(h["observer"], 20) + A(h["agency"], 40), "OBSERVER / AGENCY")])
    if h.get("receiver_number") is not None:
        blocks.append([hdrline(A(h["receiver_number"], 20) + A(h["receiver_type"], 20) + A(h["receiver_version"], 20), "REC # / TYPE / VERS")])
    if h.get("antenna_number") is not None:
        blocks.append([hdrline(A(h["antenna_number"], 20) + A(h["antenna_type"], 20), "ANT # / TYPE")])
    blocks.append([hdrline("".join(F(x, 14, 4) for x in h["pos"]), "APPROX POSITION XYZ")])
    if h.get("delta") is not None:
        blocks.append([hdrline("".join(F(x, 14, 4) for x in h["delta"]), "ANTENNA: DELTA H/E/N")])
    if v == 2 and h.get("wavelength"):
        blocks.append([hdrline(I(1, 6) + I(1, 6), "WAVELENGTH FACT L1/2")])
    if v == 2:
        blocks.append(v2_types_lines(f["systypes"][0][1]))
    else:
        tl = []
        for sys, types in f["systypes"]:
            tl += v3_types_lines(sys, types)
        blocks.append(tl)
        if h.get("signal_strength_unit") is not None:
            blocks.append([hdrline(A(h["signal_strength_unit"], 20), "SIGNAL STRENGTH UNIT")])
    if h.get("interval") is not None:
        blocks.append([hdrline(F(h["interval"], 10, 3), "INTERVAL")])
    Y, M, D, hh, mm, s7 = h["first"]
    blocks.append([hdrline(I(Y, 6) + I(M, 6) + I(D, 6) + I(hh, 6) + I(mm, 6) + F(s7, 13, 7) + X(5) + A("GPS", 3), "TIME OF FIRST OBS")])
    if h.get("last") is not None:
        Y, M, D, hh, mm, s7 = h["last"]
        blocks.append([hdrline(I(Y, 6) + I(M, 6) + I(D, 6) + I(hh, 6) + I(mm, 6) + F(s7, 13, 7) + X(5) + A("GPS", 3), "TIME OF LAST OBS")])
    if h.get("rcv_clk_offset_flag") is not None:
        blocks.append([hdrline(I(h["rcv_clk_offset_flag"], 6), "RCV CLOCK OFFS APPL")])
    if h.get("leap_seconds") is not None:
        blocks.append([hdrline(I(h["leap_seconds"], 6), "LEAP SECONDS")])
    if h.get("num_satellites") is not None:
        blocks.append([hdrline(I(h["num_satellites"], 6), "# OF SATELLITES")])
    if v == 3 and h.get("extras"):
        blocks.append([hdrline("G APPL_DCB          xyz.uvw.abc//pub/dcb_gps.dat", "SYS / DCBS APPLIED")])
        blocks.append([hdrline(" 22 R01  1 R02 -4 R03  5 R04  6 R05  1 R06 -4 R07  5 R08  6", "GLONASS SLOT / FRQ #")])
    order = h.get("order")
    if order:                                                  # a permutation of the optional blocks (records may come in any order)
        blocks = [blocks[i] for i in order if i < len(blocks)] + [b for i, b in enumerate(blocks) if i not in order]
    for i, b in enumerate(blocks):
        for text in h.get("comments", {}).get(str(i), []):
            L.append(hdrline(A(text, 60), "COMMENT"))
        L += b
    L.append(hdrline("", "END OF HEADER"))
    strip = f["style"].get("hdr_strip", False)
    pad = f["style"].get("hdr_pad80", False)
    return [(ln.ljust(80) if pad else ln).rstrip(" ") if strip else (ln.ljust(80) if pad else ln) for ln in L]


def render(f):
    """-> list of lines (without newline)."""
    st = f["style"]
    pattern = st.get("strip_pattern") or [bool(st.get("strip", True))]
    cnt = [0]

    def stripf():
        cnt[0] += 1
        return pattern[cnt[0] % len(pattern)]

    L = header_lines(f)
    for e in f["epochs"]:
        if f["version"] == 2:
            L += v2_epoch_lines(e, stripf)
            for s in e["sats"]:
                L += v2_sat_lines(s, stripf)
        else:
            L.append(v3_epoch_line(e, stripf))
            for s in e["sats"]:
                L.append(v3_sat_line(s, stripf))
        for text in e.get("comment_after", []):
            L.append(hdrline(A(text, 60), "COMMENT"))
    return L


# ----------------------------------------------------------------------------------- random models
V2_TYPES = [a + b for b in "125678" for a in "CPLDS" if not (a == "P" and b in "5678")]
V3_ATTR = "CPWXSLQ"
WORDS = ["TRDS", "zimm", "Osl 1", "A 9080", "ny_alesund", "M-1", "x"]
TEXTS = ["", "TRIMBLE NETR9", "5.20", "30318098", "TRM55971.00     NONE", "Norwegian Mapping", "gl_Rinex", "02/02/2018 00:05", "NMA",
         "G = GPS R = GLONASS", "*** note 3.5 ***", "a.b.c", "1234"]


def rand_cell(rng, p_absent=0.25):
    r = rng.random()
    c = dict(v=None, lead0=True, lli=None, ssi=None)
    if r < p_absent * 0.6:
        return c
    if r < p_absent * 0.9:
        c["v"] = "zero"
        c["lead0"] = rng.random() < 0.8
    elif r < p_absent:
        c["v"] = "negzero"
    else:
        kind = rng.choice(["range", "phase", "small", "neg", "tiny", "full", "fullneg", "int"])
        if kind == "range":
            m = rng.randrange(19000000000, 41000000000)
        elif kind == "phase":
            m = rng.randrange(80000000000, 220000000000) * rng.choice([1, 1, -1])
        elif kind == "small":
            m = rng.randrange(1, 99999)
        elif kind == "neg":
            m = -rng.randrange(1, 4000000)
        elif kind == "tiny":
            m = rng.choice([1, -1, 5, -5, 999, -999, 100, -100, 10])
        elif kind == "full":
            m = rng.randrange(10 ** 12, 10 ** 13)
        elif kind == "fullneg":
            m = -rng.randrange(10 ** 11, 10 ** 12)
        else:
            m = rng.randrange(1, 99999) * 1000
        c["v"] = m
        c["lead0"] = rng.random() < 0.7
    if c["v"] is not None and rng.random() < 0.5:
        c["lli"] = rng.choice([None, 0, 1, 1, 2, 3, 4, 5, 6, 7])
    if c["v"] is not None and rng.random() < 0.7:
        c["ssi"] = rng.choice([None, 0, 1, 2, 3, 4, 5, 6, 7, 8, 9])
    return c


def rand_time0(rng):
    Y = rng.choice([1999, 2000, 2005, 2018, 2018, 2023])
    return [Y, rng.randrange(1, 13), rng.randrange(1, 29), rng.randrange(0, 22), rng.randrange(0, 60), rng.randrange(0, 60)]


def rand_header(rng, version, first):
    def txt(w):
        t = rng.choice(TEXTS)
        return t[:w].rstrip() if rng.random() < 0.8 else ""
    h = dict(
        version_text={2: rng.choice(["2.11", "2.10", "2.11"]), 3: rng.choice(["3.03", "3.02", "3.04"])}[version],
        file_type_text=rng.choice(["OBSERVATION DATA", "O", "Observation data"]),
        sat_sys_text=None,
        program=txt(20), run_by=txt(20), file_created=txt(20),
        marker_name=rng.choice(WORDS),
        marker_number=rng.choice([None, "10331M001", ""]),
        marker_type=rng.choice([None, "GEODETIC"]),
        observer=rng.choice([None, "BILL SMITH", ""]), agency=txt(40),
        receiver_number=rng.choice([None, "5547R50473"]), receiver_type=txt(20), receiver_version=txt(20),
        antenna_number=rng.choice([None, "30318098"]), antenna_type=txt(20),
        pos=[rng.randrange(-6 * 10 ** 10, 6 * 10 ** 10) for _ in range(3)],
        delta=rng.choice([None, [rng.randrange(-99999, 99999) for _ in range(3)]]),
        wavelength=rng.random() < 0.3,
        signal_strength_unit=rng.choice([None, "DBHZ"]),
        interval=rng.choice([None, 30000, 1000, 100, 15000]),
        first=first,
        last=None,
        rcv_clk_offset_flag=rng.choice([None, 0, 1]),
        leap_seconds=rng.choice([None, 18, 13]),
        num_satellites=rng.choice([None, 71, 9]),
        extras=rng.random() < 0.2,
        comments={},
    )
    if rng.random() < 0.4:
        last = list(first)
        last[3], last[4], last[5] = 23, 59, 59 * 10 ** 7
        h["last"] = last
    for _ in range(rng.choice([0, 0, 1, 2, 4])):
        h["comments"].setdefault(str(rng.randrange(0, 12)), []).append(rng.choice(TEXTS))
    return h


def rand_file(rng, version, size="small"):
    big = size == "big"
    nsys = rng.choice([1, 1, 2, 3, 4])
    systems = rng.sample(list("GRECJS") if version == 3 else list("GRES"), nsys)
    if version == 2:
        ntypes = rng.choice([1, 2, 4, 5, 5, 6, 7, 7, 9, 10, 11, 14, 18, 19, 26, 30]) if big else rng.choice([1, 3, 5, 6, 7, 7, 8, 10, 11, 12])
        types = rng.sample(V2_TYPES, min(ntypes, len(V2_TYPES)))
        systypes = [["", types]]
    else:
        systypes = []
        for s in systems:
            ntypes = rng.choice([1, 2, 4, 8, 12, 13, 14, 16, 26, 27, 30]) if big else rng.choice([1, 2, 3, 4, 5, 6, 8, 13, 14])
            pool = [a + b + c for a in "CLDS" for b in "125678" for c in V3_ATTR]
            systypes.append([s, rng.sample(pool, ntypes)])
        if rng.random() < 0.3:                      # a system declared in the header without any observation
            extra = rng.choice([x for x in "GRECJS" if x not in systems])
            systypes.append([extra, rng.sample(["C1C", "L1C", "S1C", "C2W"], 2)])
            rng.shuffle(systypes)
    t0 = rand_time0(rng)
    new_year = rng.random() < 0.12
    if new_year:
        # a session running over New Year: the epoch records are in another calendar year than TIME OF FIRST OBS
        t0 = [rng.choice([1999, 2005, 2017, 2017, 2022]), 12, 31, 23, 59, rng.choice([0, 15, 30, 45, 59])]
    sub = rng.random() < 0.35
    step7 = rng.choice([1, 5, 10, 15, 30]) * 10 ** 7 if not sub else rng.choice([10 ** 6, 5 * 10 ** 6, 2 * 10 ** 6, 2500000, 1234567])
    nep = rng.choice([1, 2, 3, 4, 6]) if not big else rng.choice([2, 3, 5, 8])
    s7 = t0[5] * 10 ** 7 + (rng.choice([0, 0, 10 ** 6, 5 * 10 ** 6, 1234567]) if sub else 0)
    sampling = None
    if rng.random() < 0.45:
        sampling = rng.choice([[1, 1], [2, 1], [5, 1], [10, 1], [30, 1], [60, 1], [1, 2], [1, 4], [3, 2]])
    tots = [s7 + k * step7 for k in range(nep)]            # 1e-7 s after t0's hour:minute:00
    near_grid = sampling is not None and rng.random() < 0.65
    if near_grid:
        # epochs ON the sampling grid and OFF it by 1e-7 .. 5e-4 s (the format carries 7 decimals; only exact decimal
        # arithmetic on the printed seconds decides which epochs survive the decimation)
        nep = max(nep, rng.choice([3, 4, 6]))
        rate7 = sampling[0] * 10 ** 7 // sampling[1]
        base7 = (t0[3] * 3600 + t0[4] * 60) * 10 ** 7
        g0 = -(-(base7 + t0[5] * 10 ** 7) // rate7) * rate7
        mult = rng.choice([1, 1, 2])
        offs = [0] + [rng.choice([0, 1, -1, 2, -2, 10, -10, 100, -100, 1000, -1000, 2000, 3000, -3000, 4999, -4999, 5000, -5000,
                                  rng.randrange(1, 5001), -rng.randrange(1, 5001)]) for _ in range(nep - 1)]
        tots = [g0 + k * mult * rate7 + offs[k] - base7 for k in range(nep)]
        s7 = tots[0]
    import datetime as _dt

    def ymdhms(tot):
        # calendar arithmetic in whole minutes (exact), seconds stay an integer number of 1e-7 s below one minute
        mm_, ss7_ = divmod(tot, 60 * 10 ** 7)
        d_ = _dt.datetime(t0[0], t0[1], t0[2], t0[3], t0[4]) + _dt.timedelta(minutes=mm_)
        return [d_.year, d_.month, d_.day, d_.hour, d_.minute, ss7_]
    if new_year and not (sampling is not None and near_grid):
        nep = max(nep, 3)
        step7 = rng.choice([15, 30, 30, 60]) * 10 ** 7
        s7 = t0[5] * 10 ** 7
        tots = [s7 + k * step7 for k in range(nep)]
    first = ymdhms(tots[0])
    hdr = rand_header(rng, version, first)
    if new_year:
        last_t = ymdhms(tots[-1])
        # no TIME OF LAST OBS (the records must be resolved from the first observation alone), or the true one (next year:
        # midgard stops with a fatal log for RINEX 2, both model and code), or one in the year of the first observation
        hdr["last"] = rng.choice([None, None, None, last_t, [t0[0], 12, 31, 23, 59, 59 * 10 ** 7]])
    gps_blank = version == 2 and systems == ["G"] and rng.random() < 0.5
    hdr["sat_sys_text"] = (("M (MIXED)" if rng.random() < 0.5 else "M") if nsys > 1 else
                           ("" if gps_blank and rng.random() < 0.5 else systems[0] + rng.choice(["", " (GPS)" if systems[0] == "G" else ""])))
    p_absent = rng.choice([0.05, 0.25, 0.5, 0.8])
    epochs = []
    for k in range(nep):
        ey, emo, ed, hh, mi, ss7 = ymdhms(tots[k])
        nsat = (rng.choice([1, 2, 3, 5, 8, 11, 12, 13, 20, 24, 25, 36, 37, 40]) if big else rng.choice([1, 1, 2, 3, 4, 6, 12, 13]))
        sats = []
        pool_ids = [(s_, p_) for s_ in systems for p_ in range(1, 38)]
        for (s, prn) in rng.sample(pool_ids, min(nsat, len(pool_ids))):
            blank = gps_blank and nsat <= 12
            if version == 2:
                cells = [rand_cell(rng, p_absent) for _ in systypes[0][1]]
            else:
                n = len(dict((a, b) for a, b in systypes)[s])
                cells = [rand_cell(rng, p_absent) for _ in range(n)]
            sats.append(dict(sys=" " if blank else s, prn=prn, pad=("0" if rng.random() < 0.8 else " ") if version == 2 else "0", cells=cells))
        if version == 3:
            # v3 writers keep satellites grouped but any order is legal
            pass
        clk = None
        if rng.random() < 0.4:
            clk = rng.choice([0, 2, -123456789, 123456789012 if version == 3 else 123456789, rng.randrange(-10 ** 9, 10 ** 9)])
        ep = dict(t=[ey, emo, ed, hh, mi, ss7], clk=clk, sats=sats, comment_after=[], yy_zero=rng.random() < 0.8)
        if rng.random() < 0.1:
            ep["comment_after"] = [rng.choice(TEXTS) for _ in range(rng.choice([1, 2]))]
        epochs.append(ep)
    style = dict(strip=rng.random() < 0.6, hdr_strip=rng.random() < 0.5, hdr_pad80=rng.random() < 0.3)
    if rng.random() < 0.3:
        style["strip_pattern"] = [rng.random() < 0.5 for _ in range(rng.randrange(2, 7))]
    return dict(version=version, hdr=hdr, systypes=systypes, epochs=epochs, style=style, sampling=sampling, near_grid=near_grid, new_year=new_year)
