"""C17 helper: fail-closed translator  writer format strings -> layouts,  parser column tables -> spans.

Everything here reads the *current* source under core.REPO (ast / reflection); nothing is cached between runs.
A construct the translator does not understand raises TranslateError (the driver turns that into a violation:
the writer changed shape and has to be re-modelled) - it never guesses."""
from __future__ import annotations

import ast
import os
import re
import string

from harness import core, emit


class TranslateError(Exception):
    pass


SPEC_RE = re.compile(
    r"^(?:(?P<fill>.)?(?P<align>[<>^=]))?(?P<sign>[-+ ])?(?P<alt>#)?(?P<zero>0)?(?P<width>\d+)?(?P<grp>[,_])?"
    r"(?:\.(?P<prec>\d+))?(?P<type>[a-zA-Z%])?$")

STRFTIME_LEN = {"Y": 4, "m": 2, "d": 2, "H": 2, "M": 2, "S": 2, "j": 3, "y": 2}


def strftime_len(fmt):
    """length of datetime.strftime(fmt) for 4-digit years; None when a directive of unknown length occurs"""
    n, i = 0, 0
    while i < len(fmt):
        if fmt[i] == "%":
            if i + 1 >= len(fmt) or fmt[i + 1] not in STRFTIME_LEN:
                return None
            n += STRFTIME_LEN[fmt[i + 1]]
            i += 2
        else:
            n += 1
            i += 1
    return n


def static_len(e):
    """largest possible length of str(<expr>) when the source alone bounds it, else None"""
    if isinstance(e, ast.Constant) and isinstance(e.value, str):
        return len(e.value)
    if isinstance(e, ast.Call) and isinstance(e.func, ast.Attribute):
        if e.func.attr == "strftime" and len(e.args) == 1 and isinstance(e.args[0], ast.Constant):
            return strftime_len(e.args[0].value)
        if e.func.attr in ("upper", "lower") and not e.args:
            return static_len(e.func.value)
    if isinstance(e, ast.Subscript) and isinstance(e.slice, ast.Slice) and e.slice.step is None:
        lo, hi = e.slice.lower, e.slice.upper
        if hi is None and isinstance(lo, ast.UnaryOp) and isinstance(lo.op, ast.USub) and isinstance(lo.operand, ast.Constant):
            return int(lo.operand.value)
        if lo is None and isinstance(hi, ast.Constant) and isinstance(hi.value, int) and hi.value >= 0:
            return int(hi.value)
    if isinstance(e, ast.IfExp):
        a, b = static_len(e.body), static_len(e.orelse)
        if a is not None and b is not None:
            return max(a, b)
    return None


def parse_spec(spec, where):
    m = SPEC_RE.match(spec)
    if not m:
        if "%" in spec:  # datetime.__format__ = strftime
            n = strftime_len(spec)
            if n is None:
                raise TranslateError(f"{where}: strftime spec {spec!r} of unknown length")
            return dict(strftime=n)
        raise TranslateError(f"{where}: format spec {spec!r} not understood")
    g = m.groupdict()
    if g["type"] == "%" or (g["type"] is None and "%" in spec):
        raise TranslateError(f"{where}: format spec {spec!r} not understood")
    if (g["fill"] not in (None, " ")) or g["align"] in ("^", "=") or g["sign"] or g["alt"] or g["zero"] or g["grp"]:
        raise TranslateError(f"{where}: unsupported format spec {spec!r}")
    if g["type"] not in (None, "s", "d", "f", "e", "E"):
        raise TranslateError(f"{where}: unsupported presentation type in {spec!r}")
    return dict(width=int(g["width"] or 0), align=g["align"], prec=None if g["prec"] is None else int(g["prec"]), type=g["type"])


def const_value(e):
    """value of an expression that is a literal in the source (str/int/float), else the marker NOCONST"""
    if isinstance(e, ast.Constant) and isinstance(e.value, (str, int, float)) and not isinstance(e.value, bool):
        return e.value
    return NOCONST


NOCONST = object()


def joined_items(js, where):
    """ast.JoinedStr -> [('lit', text) | ('fld', spec_dict, expr)]"""
    out = []
    for v in js.values:
        if isinstance(v, ast.Constant):
            out.append(("lit", str(v.value)))
        elif isinstance(v, ast.FormattedValue):
            if v.conversion != -1:
                raise TranslateError(f"{where}: conversion !{chr(v.conversion)} not supported")
            spec = ""
            if v.format_spec is not None:
                for p in v.format_spec.values:
                    if not isinstance(p, ast.Constant):
                        raise TranslateError(f"{where}: computed format spec")
                    spec += str(p.value)
            out.append(("fld", spec, v.value))
        else:
            raise TranslateError(f"{where}: unexpected f-string part {type(v).__name__}")
    return out


def format_call_items(call, where):
    """'template'.format(k=expr, ...) -> items"""
    tmpl = call.func.value.value
    if call.args:
        raise TranslateError(f"{where}: positional arguments to str.format")
    kws = {}
    for k in call.keywords:
        if k.arg is None:
            raise TranslateError(f"{where}: **kwargs to str.format")
        kws[k.arg] = k.value
    out = []
    for lit, name, spec, conv in string.Formatter().parse(tmpl):
        if lit:
            out.append(("lit", lit))
        if name is None:
            continue
        if conv is not None or name not in kws or "{" in (spec or ""):
            raise TranslateError(f"{where}: replacement field {{{name}!{conv}:{spec}}} not understood")
        out.append(("fld", spec or "", kws[name]))
    return out


def fold_items(items, where):
    """constant-valued fields become literal text; adjacent literals are merged.
    Result: [('lit', text) | ('fld', specdict, expr_source, static_len)]"""
    out = []

    def lit(t):
        if out and out[-1][0] == "lit":
            out[-1] = ("lit", out[-1][1] + t)
        else:
            out.append(("lit", t))

    for it in items:
        if it[0] == "lit":
            lit(it[1])
            continue
        _, spec, expr = it
        cv = const_value(expr)
        if cv is not NOCONST:
            try:
                lit(format(cv, spec))
            except Exception as e:  # the writer itself would raise here
                raise TranslateError(f"{where}: format({cv!r}, {spec!r}) raises {e}")
            continue
        sd = parse_spec(spec, where)
        out.append(("fld", sd, ast.unparse(expr), static_len(expr)))
    return out


class _Collector(ast.NodeVisitor):
    """templates of one function, in source order: every X.write(<arg>) call"""

    def __init__(self, where):
        self.where = where
        self.found = []      # ('const', text) | ('tmpl', items)

    def visit_Call(self, node):
        if isinstance(node.func, ast.Attribute) and node.func.attr == "write" and len(node.args) == 1 and not node.keywords:
            self._arg(node.args[0])
            return                      # do not descend: the .format call inside is already consumed
        self.generic_visit(node)

    def visit_Assign(self, node):
        # a line template kept in a variable and written later (gipsyx: line = "...\n".format(...))
        v = node.value
        if (isinstance(v, ast.Call) and isinstance(v.func, ast.Attribute) and v.func.attr == "format"
                and isinstance(v.func.value, ast.Constant) and isinstance(v.func.value.value, str)
                and v.func.value.value.endswith("\n") and not v.args):
            self._push(fold_items(format_call_items(v, self.where), self.where))
            return
        self.generic_visit(node)

    def _arg(self, a):
        w = self.where
        if isinstance(a, ast.Constant) and isinstance(a.value, str):
            self.found.append(("const", a.value))
        elif isinstance(a, ast.JoinedStr):
            self._push(fold_items(joined_items(a, w), w))
        elif (isinstance(a, ast.Call) and isinstance(a.func, ast.Attribute) and a.func.attr == "format"
              and isinstance(a.func.value, ast.Constant) and isinstance(a.func.value.value, str)):
            self._push(fold_items(format_call_items(a, w), w))
        else:
            self.found.append(("dynamic", ast.unparse(a)[:80]))

    def _push(self, items):
        if all(i[0] == "lit" for i in items):
            self.found.append(("const", "".join(i[1] for i in items)))
        else:
            self.found.append(("tmpl", items))


def module_ast(relpath):
    path = os.path.join(core.REPO, relpath)
    with open(path, encoding="utf8") as f:
        return ast.parse(f.read(), filename=path)


def functions(tree):
    """{qualified name: FunctionDef} for top-level functions and methods of top-level classes"""
    out = {}
    for n in tree.body:
        if isinstance(n, ast.FunctionDef):
            out[n.name] = n
        elif isinstance(n, ast.ClassDef):
            for m in n.body:
                if isinstance(m, ast.FunctionDef):
                    out[m.name] = m
    return out


def writer_sequence(relpath, func):
    """everything `func` writes, in source order: ('const', text) | ('tmpl', ordinal) | ('dynamic', source)"""
    fns = functions(module_ast(relpath))
    if func not in fns:
        raise TranslateError(f"{relpath}: function {func} not found")
    c = _Collector(f"{relpath}:{func}")
    c.visit(fns[func])
    out, k = [], 0
    for f in c.found:
        if f[0] == "tmpl":
            out.append(("tmpl", k))
            k += 1
        else:
            out.append(f)
    return out


def writer_templates(relpath, func):
    """(row templates, constant lines) written by function `func` of the module, in source order"""
    fns = functions(module_ast(relpath))
    if func not in fns:
        raise TranslateError(f"{relpath}: function {func} not found")
    c = _Collector(f"{relpath}:{func}")
    c.visit(fns[func])
    return [f[1] for f in c.found if f[0] == "tmpl"], [f[1] for f in c.found if f[0] == "const"], \
           [f[1] for f in c.found if f[0] == "dynamic"]


# ---------------------------------------------------------------------------------------------------- layouts
class Hint:
    """what the driver knows about the value it supplies for one field (by position in the template):
    py: 's' | 'i' | 'f';  dom: largest length of the identifier in the format (None: no bound);
    exact: the content always has exactly this many characters (epoch strings)"""

    def __init__(self, name, py, dom=None, exact=None):
        self.name, self.py, self.dom, self.exact = name, py, dom, exact


def layout_from_items(items, hints, where):
    """-> list of ('lit', text) | ('fld', w, align, kind, fmax, name).  kind: ('s', prec|None) ('d',) ('f', d) ('e', d, upper)"""
    flds = [i for i in items if i[0] == "fld"]
    if len(flds) != len(hints):
        raise TranslateError(f"{where}: {len(flds)} fields in the template, the model of this line has {len(hints)} "
                             f"({[f[2] for f in flds]})")
    out, k = [], 0
    for it in items:
        if it[0] == "lit":
            out.append(("lit", it[1]))
            continue
        _, sd, src, slen = it
        h = hints[k]
        k += 1
        if "strftime" in sd:
            n = sd["strftime"]
            out.append(("fld", n, "L", ("s", None), n, h.name))
            continue
        t = sd["type"]
        if t is None:
            t = {"s": "s", "i": "d"}.get(h.py)
            if t is None:
                raise TranslateError(f"{where}: field {src} has no presentation type and is fed a float")
            if sd["prec"] is not None and t == "d":
                raise TranslateError(f"{where}: precision on an integer field {src}")
        if (t == "s") != (h.py == "s") or (t == "d" and h.py != "i"):
            raise TranslateError(f"{where}: field {src} is formatted as {t!r} but the model feeds it a {h.py!r}")
        if t == "s":
            kind = ("s", sd["prec"])
        elif t == "d":
            kind = ("d",)
        elif t == "f":
            kind = ("f", 6 if sd["prec"] is None else sd["prec"])
        else:
            kind = ("e", 6 if sd["prec"] is None else sd["prec"], t == "E")
        align = {"<": "L", ">": "R", None: ("L" if t == "s" else "R")}[sd["align"]]
        w = sd["width"]
        if h.exact is not None:
            w = max(w, h.exact)     # a string that always has `exact` characters occupies exactly that many columns
        if w == 0:
            fmax = 0                # tail field: written as it is
        else:
            bounds = [b for b in (w, (sd["prec"] if t == "s" else None), slen, h.dom, h.exact) if b is not None]
            fmax = min(bounds)
        out.append(("fld", w, align, kind, fmax, h.name))
    return out


def coq_kind(k):
    if k[0] == "s":
        return f"(KStr {emit.opt(None if k[1] is None else emit.nat(k[1]))})"
    if k[0] == "d":
        return "KInt"
    if k[0] == "f":
        return f"(KFix {emit.nat(k[1])})"
    return f"(KExp {emit.nat(k[1])} {emit.b(k[2])})"


def coq_layout(lay):
    its = []
    for it in lay:
        if it[0] == "lit":
            its.append(f"Lit {emit.s(it[1])}")
        else:
            _, w, al, kind, fmax, name = it
            its.append(f"Fld (mkfld {emit.nat(w)} {'AL' if al == 'L' else 'AR'} {coq_kind(kind)} {emit.nat(fmax)})")
    return "[" + ";\n   ".join(its) + "]"


def coq_spans(spans):
    return emit.lst(emit.pair(emit.nat(a), emit.opt(None if b is None else emit.nat(b))) for a, b in spans)


# ---------------------------------------------------------------------------------------------------- parsers
def genfromtxt_params(relpath, cls_func="setup_parser"):
    """the literal dict(...) returned by setup_parser of a LineParser: delimiter / names / dtype / skip_header"""
    fns = functions(module_ast(relpath))
    if cls_func not in fns:
        raise TranslateError(f"{relpath}: {cls_func} not found")
    for n in ast.walk(fns[cls_func]):
        if isinstance(n, ast.Return) and isinstance(n.value, ast.Call) and getattr(n.value.func, "id", None) == "dict":
            try:
                return {k.arg: ast.literal_eval(k.value) for k in n.value.keywords}
            except Exception as e:
                raise TranslateError(f"{relpath}: genfromtxt parameters are not literals ({e})")
    raise TranslateError(f"{relpath}: no `return dict(...)` in {cls_func}")


def chain_fields(relpath):
    """every literal {"fields": {name: (start, stop)}} table of a ChainParser module, in source order"""
    out = []
    for n in ast.walk(module_ast(relpath)):
        if isinstance(n, ast.Dict):
            for k, v in zip(n.keys, n.values):
                if isinstance(k, ast.Constant) and k.value == "fields" and isinstance(v, ast.Dict):
                    try:
                        out.append((n.lineno, ast.literal_eval(v)))
                    except Exception as e:
                        raise TranslateError(f"{relpath}: fields table is not a literal ({e})")
    return [t for _, t in sorted(out, key=lambda p: p[0])]


def sinex_fields(block):
    """SinexField tuple -> (names, spans, convs) as SinexTmsParser.parse_lines cuts them (column 0 is skipped)"""
    fs = list(block)
    starts = [f.start_col for f in fs]
    spans = [(a, (starts[i + 1] if i + 1 < len(starts) else None)) for i, a in enumerate(starts)]
    return [f.name for f in fs], spans, [(f.dtype, f.converter) for f in fs]
