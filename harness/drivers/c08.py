"""C08 - caching is invisible (DESIGN 4.8).

Proof obligations: coq/theories/Props/C08.v (model: Model/C08_Cache.v, Lib/C08_Lru.v).

Correspondence: operation histories (bounded-exhaustive over small alphabets + random long ones) are run
on the real midgard, every history in a freshly forked process of a *pristine* interpreter (no memo table
filled).  Every reference value - the table that instantiates the uninterpreted functions of the model -
is a single evaluation in its own fresh fork (an "uncached reference evaluation").  The model is run on
the same operations inside Coq (vm_compute) and compared there with what the implementation showed.
"""
from __future__ import annotations

import itertools
import json
import os
import pickle
import struct
import sys
import traceback

from harness import core, emit

META = {
    "property_id": "C08",
    "level": "proof",
    "design_ref": "DESIGN.md 4.8",
    "technique": "Coq proof (refinement of the caching machine to the cache-free machine, induction over all operation lists; "
                 "list model of functools.lru_cache) + vm_compute correspondence on bounded-exhaustive and random histories",
    "level_text": (
        "Theorems in Coq 8.16 over an executable model of the memoisation plumbing (four process-wide LRU tables of "
        "capacity 128 keyed by HashArray, per-object _cache, dependents of `other`, views made by slicing, sharing of "
        "memory between results and caches, TimeBase.to_scale memo) with the numerical functions left uninterpreted: "
        "for every operation list (slices = views included) the specification machine shows exactly what the cache-free "
        "machine shows; item assignment (also through views) and mutation of `other` are reflected; writes into results are "
        "isolated; arguments stay untouched; the same refinement for the to_scale memo and for the PosVel/PositionDelta "
        "machine (reads = function of the current contents of the object and its other/ref_pos; raw results private); one "
        "refutation per quirk.  Tied to the code on every run: histories are executed on midgard in fresh processes "
        "and compared inside Coq with the model, whose functions are instantiated by uncached reference evaluations."),
    "level_note": (
        "Trusted: Coq kernel + vm_compute; the hand-written model Model/C08_Cache.v (validated, not derived); the driver "
        "(history runner, reference forks, term emission).  The numerical code itself is not modelled (that is C05-C07). "
        "for PosVel and PositionDelta objects the specification is the cache-free meaning (section PVMachine; they share "
        "PosBase's cache code, whose plumbing is modelled for Position objects); PosVelDelta/Velocity* are not exercised; "
        "`_dependent_objs` is modelled as the inverse of `other`."),
}

THEOREMS = [
    "lru_transparent", "lru_size_le",
    "cache_invisible", "setitem_invalidates", "other_mutation_propagates", "view_write_invalidates",
    "result_write_isolated", "args_untouched",
    "time_cache_invisible",
    "pv_cache_invisible", "pv_read_current", "pv_read_linked_current", "pv_set_current", "raw_result_private",
    "c08_key_ignores_shape_refuted", "c08_result_aliases_cache_refuted", "c08_arg_made_readonly_refuted",
    "c08_view_write_stale_refuted", "c08_object_cache_handout_refuted", "c08_scalar_key_by_value_refuted",
    "c08_time_cache_ignores_fmt_refuted",
]

REQ = "From Verif Require Import Model.C08_Cache."

QUIRK_BITS = [
    (0, "c08_key_ignores_shape",
     "HashArray.__hash__/__eq__ use the bytes only: arrays of different shape/dtype with equal bytes share one memo entry"),
    (1, "c08_result_aliases_cache",
     "trs2llh/llh2trs/enu2trs/trs2enu return the memoised array itself: writing into a result changes later results"),
    (2, "c08_arg_made_readonly",
     "HashArray.__array_finalize__ clears flags.writeable on the caller's array"),
    (3, "c08_view_write_stale",
     "item assignment through a slice (view) of a position does not invalidate the cache of its base, and vice versa"),
    (4, "c08_object_cache_handout",
     "p.llh / p.distance / p.enu2trs return the _cache entry itself: writing into it changes what p and its dependents return later"),
    (5, "c08_scalar_key_by_value",
     "lat/lon of a single position reach enu2trs/trs2enu as numpy scalars and are memo keys compared by value: -0.0 gets the entry of +0.0"),
]

# ------------------------------------------------------------------------------------------ arrays <-> terms
QNAMES = {1: "distance", 2: "direction", 3: "azimuth", 4: "elevation", 5: "enu2trs", 6: "trs2enu"}
SYS = {1: "trs", 2: "llh"}
V0 = [3771793.968, 140253.342, 5124304.349]
V1 = [2102928.189605, 721619.617278, 5958196.398820]
V2 = [1000000.0, 2000000.0, 3000000.0]
L0 = [0.9391511009, 0.0371676591, 73.0]
L1 = [1.2263, 0.3306, 41.7]


def f2w(x):
    return struct.unpack("<Q", struct.pack("<d", float(x)))[0]


def w2f(w):
    return struct.unpack("<d", struct.pack("<Q", int(w)))[0]


def mk(desc, words):
    """(desc, words) -> numpy array owning its memory (0-d/1-d/2-d; dtype code 0 float64, 1 int64)."""
    import numpy as np
    a = np.array(list(words), dtype=np.uint64).view(np.float64 if desc[0] == 0 else np.int64)
    return a.reshape(tuple(desc[1:])).copy()


def arr_of(x):
    """numpy array / numpy scalar -> (desc tuple, words tuple); exact."""
    import numpy as np
    a = np.asarray(x)
    if a.dtype == np.float64:
        code = 0
    elif a.dtype == np.int64:
        code = 1
    else:
        return ((99,) + tuple(a.shape), tuple(int(b) for b in a.tobytes()))
    c = np.ascontiguousarray(a)
    return ((code,) + tuple(a.shape), tuple(int(v) for v in c.reshape(-1).view(np.uint64)))


NOTHING = ((), ())


def A(shape_rows, dtype=0):
    """array literal from rows of floats: [v] -> (3,), [[v]] -> (1,3), [[v],[w]] -> (2,3)."""
    if isinstance(shape_rows[0], (int, float)):
        return ((dtype, 3), tuple(f2w(x) for x in shape_rows))
    n = len(shape_rows)
    return ((dtype, n, 3), tuple(f2w(x) for r in shape_rows for x in r))


class Pool:
    """Shard-wide pool of arrays: the cases refer to `g i`."""

    def __init__(self):
        self.idx = {}
        self.items = []

    def ref(self, a):
        a = (tuple(a[0]), tuple(a[1]))
        if a not in self.idx:
            self.idx[a] = len(self.items)
            self.items.append(a)
        return f"(g {self.idx[a]}%nat)"

    def term(self):
        return emit.lst(f"({emit.lst(emit.z(d) for d in a[0])}, {emit.lst(emit.z(w) for w in a[1])})" for a in self.items)


def karg_term(pool, ka):
    return f"({emit.b(ka[0])}, {pool.ref(ka[1])})"


def op_term(pool, o):
    k = o[0]
    if k == "NewArr":
        return f"(NewArr {emit.z(o[1])} {pool.ref(o[2])})"
    if k == "NewPos":
        return f"(NewPos {emit.z(o[1])} {emit.z(o[2])} {pool.ref(o[3])})"
    if k == "Raw":
        return f"(Raw {o[1]} {o[2]} {emit.z(o[3])})"
    if k == "Rot":
        return f"(Rot {o[1]} {emit.z(o[2])})"
    if k == "Conv":
        return f"(Conv {emit.z(o[1])})"
    if k == "Read":
        return f"(Read {emit.z(o[1])} {o[2]})"
    if k == "WriteRes":
        return f"(WriteRes {emit.z(o[1])})"
    if k == "SetRow":
        return f"(SetRow {emit.z(o[1])} {emit.lst(emit.z(w) for w in o[2])})"
    if k == "SetOther":
        return f"(SetOther {emit.z(o[1])} {emit.opt(None if o[2] is None else emit.z(o[2]))})"
    if k == "Slice":
        return f"(Slice {emit.z(o[1])} {o[2]} {emit.z(o[3])})"
    if k == "Flood":
        return f"(Flood {o[1]} {emit.nat(o[2])})"
    if k == "Aug":
        return f"(Aug {o[1]} {emit.z(o[2])} {pool.ref(o[3])})"
    raise ValueError(o)


# ------------------------------------------------------------------------------------------ running midgard
_FLOOD = [0]


def _fn(fn):
    from midgard.math import transformation, rotation
    return {1: transformation.trs2llh, 2: transformation.llh2trs, 3: rotation.enu2trs, 4: rotation.trs2enu}[fn]


def _ell(ext):
    from midgard.math import ellipsoid
    return {0: ellipsoid.GRS80, 1: ellipsoid.WGS84}[ext]


def _setrow(x, vals):
    import numpy as np
    if x.ndim == 1:
        x[:] = vals
    elif x.shape[0] == 1:
        x[0:1] = [vals]
    else:
        x[0] = vals


def _rot_inputs(x):
    import numpy as np
    return np.array(x[..., 0]), np.array(x[..., 1])


def run_history(ops):
    """Execute one history on the implementation (call only in a fresh fork).
    Returns (observations, reference requests)."""
    import numpy as np
    from midgard.data.position import Position
    from midgard.dev import exceptions
    slots, meta = {}, {}
    res = None
    seen, reqs = [], []
    for o in ops:
        k = o[0]
        try:
            if k == "NewArr":
                slots[o[1]] = mk(*o[2])
                meta[o[1]] = dict(kind=0, view=False)
                seen.append((NOTHING, 0))
            elif k == "NewPos":
                slots[o[1]] = Position(mk(*o[3]), system=SYS[o[2]])
                meta[o[1]] = dict(kind=o[2], view=False)
                seen.append((NOTHING, 0))
            elif k in ("Raw", "Rot"):
                s = o[3] if k == "Raw" else o[2]
                if s not in slots or meta[s]["kind"] != 0:
                    seen.append((NOTHING, -9))
                    continue
                x = slots[s]
                before = x.tobytes()
                if k == "Raw":
                    reqs.append(("conv", o[1], o[2], arr_of(x)))
                    r = _fn(o[1])(x) if o[2] == 0 else _fn(o[1])(x, _ell(o[2]))
                    w = bool(x.flags.writeable)
                else:
                    lat, lon = _rot_inputs(x)
                    reqs.append(("rot", o[1], ((False, arr_of(lat)), (False, arr_of(lon)))))
                    r = _fn(o[1])(lat, lon)
                    w = bool(lat.flags.writeable and lon.flags.writeable)
                aux = (1 if w else 0) if x.tobytes() == before else 2
                res = r
                seen.append((arr_of(r), aux))
            elif k == "Conv":
                s = o[1]
                if s not in slots or meta[s]["kind"] == 0:
                    seen.append((NOTHING, -9))
                    continue
                p = slots[s]
                reqs.append(("pair", meta[s]["kind"], arr_of(np.asarray(p)), None, None, ()))
                target = "llh" if p.system == "trs" else "trs"
                before = np.asarray(p).tobytes()
                r = getattr(p, target)
                res = r
                aux = 0 if getattr(r, "system", None) == target else 5
                if np.asarray(p).tobytes() != before:
                    aux = 6                      # the conversion changed the values of its source
                seen.append((arr_of(np.asarray(r)), aux))
            elif k == "Read":
                s, qt = o[1], o[2]
                if s not in slots or meta[s]["kind"] == 0:
                    seen.append((NOTHING, -9))
                    continue
                p = slots[s]
                q = getattr(p, "other", None)
                if q is None:
                    reqs.append(("pair", meta[s]["kind"], arr_of(np.asarray(p)), None, None, (qt,) if qt >= 5 else ()))
                else:
                    reqs.append(("pair", meta[s]["kind"], arr_of(np.asarray(p)),
                                 1 if q.system == "trs" else 2, arr_of(np.asarray(q)), (qt,)))
                before = np.asarray(p).tobytes(), (None if q is None else np.asarray(q).tobytes())
                try:
                    r = getattr(p, QNAMES[qt])
                except exceptions.InitializationError:
                    res = None
                    seen.append((NOTHING, -2))
                    continue
                res = r
                after = np.asarray(p).tobytes(), (None if q is None else np.asarray(q).tobytes())
                seen.append((arr_of(np.asarray(r)), 0 if after == before else 6))
            elif k == "WriteRes":
                if isinstance(res, np.ndarray) and res.ndim >= 1:
                    try:
                        res[...] = w2f(o[1])
                    except (ValueError, TypeError):
                        pass           # a result that cannot be written cannot leak either
                seen.append((NOTHING, 0))
            elif k == "SetRow":
                s = o[1]
                if s not in slots:
                    seen.append((NOTHING, -9))
                    continue
                try:
                    _setrow(slots[s], [w2f(w) for w in o[2]])
                    seen.append((NOTHING, 0))
                except ValueError as e:
                    if "read-only" in str(e):
                        seen.append((NOTHING, -1))
                    else:
                        raise
            elif k == "SetOther":
                s, s2 = o[1], o[2]
                if s not in slots or meta[s]["kind"] == 0 or (s2 is not None and (s2 not in slots or meta[s2]["kind"] == 0)):
                    seen.append((NOTHING, -9))
                    continue
                if s2 is not None and slots[s] is slots[s2]:
                    seen.append((NOTHING, -9))
                    continue
                slots[s].other = None if s2 is None else slots[s2]
                seen.append((NOTHING, 0))
            elif k == "Slice":
                s, kind, s2 = o[1], o[2], o[3]

                def whole2d(z, m):
                    return m["kind"] != 0 and not m["view"] and z.ndim == 2 and z.shape[0] >= 2

                if s not in slots or not whole2d(slots[s], meta[s]):
                    seen.append((NOTHING, -9))
                    continue
                p = slots[s]
                q = getattr(p, "other", None)
                if q is not None:
                    mq = next((meta[t] for t in slots if slots[t] is q), None)
                    if mq is None:
                        mq = dict(kind=1 if q.system == "trs" else 2, view=getattr(q, "_verif_view", True))
                    if not whole2d(q, mq) or getattr(q, "other", None) is not None:
                        seen.append((NOTHING, -9))
                        continue
                new = p[0:1] if kind == 1 else p[0]
                slots[s2] = new
                meta[s2] = dict(kind=meta[s]["kind"], view=True)
                seen.append((NOTHING, 0))
            elif k == "Aug":
                sgn, s, d = o[1], o[2], o[3]
                if s not in slots or meta[s]["kind"] != 1:
                    seen.append((NOTHING, -9))
                    continue
                from midgard.data.position import PositionDelta
                p = slots[s]
                reqs.append(("aug", sgn, arr_of(np.asarray(p)), d))
                delta = PositionDelta(mk(*d), system="trs", ref_pos=Position(np.asarray(p).copy(), system="trs"))
                if sgn == 1:
                    p += delta
                else:
                    p -= delta
                slots[s] = p            # the name now refers to whatever the augmented assignment left in it
                meta[s] = dict(kind=1, view=False)
                seen.append((arr_of(np.asarray(p)), 0))
            elif k == "Flood":
                fn, n = o[1], o[2]
                f = _fn(fn)
                for _ in range(n):
                    _FLOOD[0] += 1
                    c = _FLOOD[0]
                    if fn == 1:
                        f(np.array([6.0e6 + c, 1.0e5, 2.0e5]))
                    elif fn == 2:
                        f(np.array([0.1 + c * 1e-4, 0.2, 10.0]))
                    else:
                        f(np.array(0.01 + c * 1e-4), np.array(0.5))
                seen.append((NOTHING, 0))
            else:
                raise ValueError(k)
        except Exception as e:   # outside the model: make it visible as a mismatch
            seen.append((((98,), tuple(type(e).__name__.encode()[:40])), -7))
    return seen, reqs


def ref_eval(req):
    """One uncached reference evaluation (call only in a fresh fork)."""
    import numpy as np
    from midgard.data.position import Position
    kind = req[0]
    if kind == "conv":
        _, fn, ext, a = req
        x = mk(*a)
        return arr_of(_fn(fn)(x) if ext == 0 else _fn(fn)(x, _ell(ext)))
    if kind == "rot":
        _, fn, kargs = req
        args = []
        for scalar, a in kargs:
            v = mk(*a)
            args.append(np.float64(v.reshape(-1)[0]) if scalar else v)
        return arr_of(_fn(fn)(*args))
    if kind == "derived":
        _, qt, sp, ap, sq, aq = req
        p = Position(mk(*ap), system=SYS[sp])
        q = Position(mk(*aq), system=SYS[sq])
        p.other = q
        return arr_of(np.asarray(getattr(p, QNAMES[qt])))
    if kind == "aug":
        from midgard.data.position import PositionDelta
        _, sgn, a, d = req
        p = Position(mk(*a), system="trs")
        delta = PositionDelta(mk(*d), system="trs", ref_pos=Position(mk(*a), system="trs"))
        return arr_of(np.asarray(p + delta if sgn == 1 else p - delta))
    if kind == "pv":
        return ref_pv(req)
    if kind == "time":
        _, scale, fmt, val, to = req
        t = mk_time(scale, fmt, val)
        r = getattr(t, to)
        return time_jd(r)
    raise ValueError(kind)


# ------------------------------------------------------------------------------------------ pristine servers
class Servers:
    """N processes forked before any midgard function was called.  Each request is executed in a fresh fork
    of such a process, so that it starts with empty memo tables."""

    def __init__(self, n):
        self.procs = []
        for _ in range(n):
            pr, cw = os.pipe()      # parent reads results
            cr, pw = os.pipe()      # parent writes requests
            pid = os.fork()
            if pid == 0:
                try:
                    os.close(pr)
                    os.close(pw)
                    for other in self.procs:
                        other[1].close()
                        other[2].close()
                    self._serve(os.fdopen(cr, "rb"), os.fdopen(cw, "wb"))
                finally:
                    os._exit(0)
            os.close(cw)
            os.close(cr)
            self.procs.append((pid, os.fdopen(pr, "rb"), os.fdopen(pw, "wb")))

    @staticmethod
    def _serve(rf, wf):
        import warnings
        warnings.simplefilter("ignore")
        # import (only import - nothing is called) what the forks need, so that a fork costs a millisecond
        import numpy  # noqa: F401
        from midgard.data import position, time as _t  # noqa: F401
        from midgard.data.position import PosVel, PositionDelta  # noqa: F401
        from midgard.math import transformation, rotation, ellipsoid  # noqa: F401
        from midgard.dev import exceptions  # noqa: F401
        while True:
            try:
                batch = pickle.load(rf)
            except EOFError:
                return
            out = []
            for what, payload in batch:
                r, w = os.pipe()
                pid = os.fork()
                if pid == 0:
                    os.close(r)
                    try:
                        try:
                            val = ("ok", _dispatch(what, payload))
                        except Exception as e:
                            val = ("err", f"{type(e).__name__}: {e}\n{traceback.format_exc()[-600:]}")
                        with os.fdopen(w, "wb") as f:
                            pickle.dump(val, f)
                    finally:
                        os._exit(0)
                os.close(w)
                with os.fdopen(r, "rb") as f:
                    try:
                        out.append(pickle.load(f))
                    except EOFError:
                        out.append(("err", "child died"))
                os.waitpid(pid, 0)
            pickle.dump(out, wf)
            wf.flush()

    def map(self, what, payloads):
        payloads = list(payloads)
        n = len(self.procs)
        chunks = [payloads[i::n] for i in range(n)]
        for (pid, rf, wf), ch in zip(self.procs, chunks):
            pickle.dump([(what, p) for p in ch], wf)
            wf.flush()
        res = [None] * len(payloads)
        for i, ((pid, rf, wf), ch) in enumerate(zip(self.procs, chunks)):
            out = pickle.load(rf)
            for j, r in enumerate(out):
                res[i + j * n] = r
        return res

    def close(self):
        for pid, rf, wf in self.procs:
            try:
                wf.close()
                rf.close()
            except Exception:
                pass
            try:
                os.waitpid(pid, 0)
            except Exception:
                pass
        self.procs = []


# ------------------------------------------------------------------------------------------ reference table
class Reference:
    """Memo of uncached reference evaluations (each made once, in its own fresh fork)."""

    def __init__(self, servers):
        self.srv = servers
        self.memo = {}

    def need(self, reqs):
        todo = [r for r in dict.fromkeys(reqs) if r not in self.memo]
        if todo:
            for r, (st, val) in zip(todo, self.srv.map("ref", todo)):
                self.memo[r] = val if st == "ok" else None
                if st != "ok":
                    self.memo[("error", r)] = val

    def get(self, r):
        return self.memo.get(r)


def conv_req(sysid, a):
    return ("conv", 1 if sysid == 1 else 2, 0, a)


def rot_kargs(llh):
    """lat, lon, _ = llh.val.T as the model sees it (Model.rot_args)."""
    desc, words = llh
    if len(desc) == 2:
        return ((True, ((desc[0],), (words[0],))), (True, ((desc[0],), (words[1],))))
    n = desc[1]
    return ((False, ((desc[0], n), tuple(words[0::3]))), (False, ((desc[0], n), tuple(words[1::3]))))


def build_tables(ref, hist_reqs):
    """hist_reqs: per history the requests noted by run_history.  Returns per history a list of table entries
    (fn, ext, kargs, result)."""
    # round 1: conversions
    r1 = []
    for reqs in hist_reqs:
        for r in reqs:
            if r[0] in ("conv", "rot", "aug"):
                r1.append(r)
            elif r[0] == "pair":
                _, sp, ap, sq, aq, qts = r
                r1.append(conv_req(sp, ap))
                if sq is not None:
                    r1.append(conv_req(sq, aq))
    ref.need(r1)

    def in_sys(sysid, a, want):
        return a if sysid == want else ref.get(conv_req(sysid, a))

    # round 2: rotation matrices and derived quantities
    r2 = []
    for reqs in hist_reqs:
        for r in reqs:
            if r[0] == "pair":
                _, sp, ap, sq, aq, qts = r
                llh = in_sys(sp, ap, 2)
                if llh is not None and llh[0][0] == 0:
                    r2.append(("rot", 3, rot_kargs(llh)))
                    r2.append(("rot", 4, rot_kargs(llh)))
                for qt in qts:
                    if qt <= 4 and sq is not None:
                        r2.append(("derived", qt, sp, ap, sq, aq))
    ref.need(r2)

    out = []
    for reqs in hist_reqs:
        ent = {}

        def add(fn, ext, kargs, result):
            if result is not None:
                ent[(fn, ext, kargs)] = result

        for r in reqs:
            if r[0] == "conv":
                add(r[1], r[2], ((False, r[3]),), ref.get(r))
            elif r[0] == "rot":
                add(r[1], 0, r[2], ref.get(r))
            elif r[0] == "aug":
                add(20 + r[1], 0, ((False, r[2]), (False, r[3])), ref.get(r))
            elif r[0] == "pair":
                _, sp, ap, sq, aq, qts = r
                add(1 if sp == 1 else 2, 0, ((False, ap),), ref.get(conv_req(sp, ap)))
                if sq is not None:
                    add(1 if sq == 1 else 2, 0, ((False, aq),), ref.get(conv_req(sq, aq)))
                llh = in_sys(sp, ap, 2)
                rot3 = None
                if llh is not None and llh[0][0] == 0:
                    rot3 = ref.get(("rot", 3, rot_kargs(llh)))
                    add(3, 0, rot_kargs(llh), rot3)
                    add(4, 0, rot_kargs(llh), ref.get(("rot", 4, rot_kargs(llh))))
                for qt in qts:
                    if qt > 4 or sq is None:
                        continue
                    val = ref.get(("derived", qt, sp, ap, sq, aq))
                    if qt <= 2:
                        ing = [in_sys(sq, aq, sp), ap]
                    else:
                        ing = [in_sys(sp, ap, 1), in_sys(sq, aq, 1), rot3]
                    if all(i is not None for i in ing):
                        add(10 + qt, 0, tuple((False, i) for i in ing), val)
        out.append([(k[0], k[1], k[2], v) for k, v in ent.items()])
    return out


# ------------------------------------------------------------------------------------------ histories
def W(v):
    return tuple(f2w(x) for x in v)


C_FILL = f2w(0.125)


def scenarios(thorough):
    """(name, prelude, alphabet).  The prelude creates the objects; interleavings of the alphabet follow."""
    sc = []
    # R: raw calls on plain arrays - equal bytes in shapes (3,), (1,3), int64 view; (2,3); read-only flag; LRU overflow
    iv0 = ((1, 3), A(V0)[1])                      # int64 array with the bytes of V0
    sc.append(("raw",
               [("NewArr", 0, A(V0)), ("NewArr", 1, A([V0])), ("NewArr", 2, A([V0, V1])), ("NewArr", 3, iv0)],
               [("Raw", 1, 0, 0), ("Raw", 1, 0, 1), ("Raw", 1, 0, 2), ("Raw", 1, 1, 0), ("Raw", 1, 0, 3),
                ("Rot", 3, 0), ("Rot", 3, 1), ("WriteRes", C_FILL), ("SetRow", 0, W(V2)),
                ("Flood", 1, 127), ("Flood", 1, 130)]))
    sc.append(("raw2",
               [("NewArr", 0, A(L0)), ("NewArr", 1, A([L0])), ("NewArr", 2, A([L0, L1]))],
               [("Raw", 2, 0, 0), ("Raw", 2, 0, 1), ("Raw", 2, 0, 2), ("Rot", 4, 0), ("Rot", 4, 1), ("Rot", 4, 2),
                ("Rot", 3, 1), ("WriteRes", C_FILL), ("SetRow", 1, W(L1)), ("Flood", 4, 130)]))
    # P: positions of equal value in three shapes, conversions, item assignment, raw call on the same bytes
    sc.append(("pos",
               [("NewPos", 0, 1, A(V0)), ("NewPos", 1, 1, A([V0])), ("NewPos", 2, 1, A([V0, V1])), ("NewPos", 3, 2, A(L0)),
                ("NewArr", 4, A(V0))],
               [("Conv", 0), ("Conv", 1), ("Conv", 2), ("Conv", 3), ("WriteRes", C_FILL), ("SetRow", 0, W(V2)),
                ("SetRow", 2, W(V2)), ("Raw", 1, 0, 4), ("Read", 0, 5), ("Read", 1, 5), ("Flood", 1, 130)]))
    # D: derived quantities with `other`
    sc.append(("derived",
               [("NewPos", 0, 1, A(V0)), ("NewPos", 1, 1, A(V1)), ("NewPos", 2, 2, A(L1)), ("NewPos", 3, 1, A([V0])),
                ("SetOther", 0, 1), ("SetOther", 3, 1)],
               [("Read", 0, 1), ("Read", 0, 3), ("Read", 3, 2), ("Read", 3, 4), ("SetRow", 1, W(V2)), ("SetRow", 0, W(V2)),
                ("SetOther", 0, 2), ("SetOther", 0, None), ("Conv", 1), ("WriteRes", C_FILL), ("SetRow", 2, W(L0))]))
    sc.append(("derived2",
               [("NewPos", 0, 2, A([L0, L1])), ("NewPos", 1, 1, A([V1, V0])), ("NewPos", 2, 1, A(V0)),
                ("SetOther", 0, 1), ("SetOther", 2, 0)],
               [("Read", 0, 1), ("Read", 0, 2), ("Read", 0, 3), ("Read", 2, 1), ("Read", 2, 4), ("Read", 0, 6),
                ("SetRow", 1, W(V2)), ("SetRow", 0, W(L1)), ("Conv", 0), ("WriteRes", C_FILL), ("Flood", 3, 130)]))
    # V: views made by slicing
    sc.append(("views",
               [("NewPos", 0, 1, A([V0, V1])), ("NewPos", 1, 1, A([V1, V0])), ("SetOther", 0, 1)],
               [("Slice", 0, 1, 5), ("Slice", 0, 2, 5), ("Slice", 1, 1, 6), ("Conv", 0), ("Conv", 5), ("Read", 0, 1),
                ("Read", 5, 1), ("SetRow", 0, W(V2)), ("SetRow", 5, W(V2)), ("SetRow", 1, W(V2)), ("SetRow", 6, W(V0)),
                ("WriteRes", C_FILL)]))
    # Z: equal by value, different bit patterns: +0.0 / -0.0 in a coordinate (antimeridian y = +-0, lat/lon = +-0); NaN
    zp, zn = [-6.0e6, 0.0, 1.0e5], [-6.0e6, -0.0, 1.0e5]
    sc.append(("zero",
               [("NewArr", 0, A(zp)), ("NewArr", 1, A(zn)), ("NewPos", 2, 1, A(zp)), ("NewPos", 3, 1, A(zn)),
                ("NewPos", 4, 1, A([zp])), ("NewPos", 5, 1, A([zn])), ("NewArr", 6, A([float("nan"), 1.0e6, 2.0e6]))],
               [("Raw", 1, 0, 0), ("Raw", 1, 0, 1), ("Conv", 2), ("Conv", 3), ("Conv", 4), ("Conv", 5), ("Read", 2, 5), ("Read", 3, 5),
                ("Raw", 1, 0, 6), ("WriteRes", C_FILL)]))
    lp, ln, lm = [0.0, -0.0, 10.0], [-0.0, 0.0, 10.0], [0.0, 0.0, 10.0]
    sc.append(("zero2",
               [("NewArr", 0, A(lp)), ("NewArr", 1, A(ln)), ("NewPos", 2, 2, A(lp)), ("NewPos", 3, 2, A(ln)),
                ("NewPos", 4, 2, A([lp])), ("NewPos", 5, 2, A([ln])), ("NewArr", 6, A([lm]))],
               [("Raw", 2, 0, 0), ("Raw", 2, 0, 1), ("Rot", 3, 0), ("Rot", 3, 1), ("Rot", 4, 6), ("Conv", 2), ("Conv", 3),
                ("Read", 2, 5), ("Read", 3, 5), ("Read", 4, 6), ("Read", 5, 6)]))
    # L: longitudes outside [-pi, pi] (0..2pi convention): conversions must leave the caller's values alone
    la, lb = [0.5, 4.0, 100.0], [-0.3, -3.5, 50.0]
    sc.append(("lon2pi",
               [("NewArr", 0, A(la)), ("NewArr", 1, A([la, lb])), ("NewPos", 2, 2, A(la)), ("NewPos", 3, 2, A([la, lb])),
                ("NewPos", 4, 2, A([la])), ("NewPos", 5, 1, A(V1)), ("SetOther", 2, 5)],
               [("Raw", 2, 0, 0), ("Raw", 2, 0, 1), ("Conv", 2), ("Conv", 3), ("Conv", 4), ("Read", 2, 5), ("Read", 3, 6),
                ("Read", 2, 1), ("Rot", 3, 0), ("SetRow", 2, W(lb))]))
    # A: augmented assignment with a position delta (the name is re-bound to p + delta; nothing memoised may survive)
    d3, d23 = A([1234.5, -2500.25, 777.0]), A([[1234.5, -2500.25, 777.0], [-10.0, 20.0, 30.5]])
    sc.append(("aug",
               [("NewPos", 0, 1, A(V0)), ("NewPos", 1, 1, A(V1)), ("NewPos", 2, 1, A([V0, V1])), ("SetOther", 0, 1)],
               [("Conv", 0), ("Read", 0, 5), ("Read", 0, 3), ("Read", 0, 1), ("Aug", 1, 0, d3), ("Aug", 2, 0, d3),
                ("Conv", 2), ("Aug", 1, 2, d23), ("SetRow", 1, W(V2)), ("Read", 2, 6)]))
    # G: several dependents of one `other`, some of them garbage collected (slot re-bound) before `other` is mutated
    sc.append(("deps",
               [("NewPos", 0, 1, A(V0)), ("NewPos", 1, 1, A(V1)), ("NewPos", 3, 1, A([V0])), ("NewPos", 4, 2, A(L1)),
                ("SetOther", 0, 1), ("SetOther", 3, 1), ("SetOther", 4, 1), ("NewPos", 0, 1, A(V2))],
               [("Read", 3, 1), ("Read", 3, 3), ("Read", 4, 1), ("Read", 4, 4), ("SetRow", 1, W(V2)), ("SetRow", 1, W(V0)),
                ("NewPos", 3, 1, A([V1])), ("SetOther", 4, 1), ("SetOther", 0, 1), ("SetOther", 3, 1)]))
    # B: a converted object has been made and written into before the derived quantities of its source are used
    sc.append(("backref",
               [("NewPos", 0, 1, A(V0)), ("NewPos", 1, 1, A(V1)), ("SetOther", 0, 1), ("Conv", 0), ("WriteRes", C_FILL)],
               [("Read", 0, 1), ("Read", 0, 2), ("Read", 0, 4), ("SetRow", 1, W(V2)), ("SetRow", 0, W(V2)), ("Conv", 0),
                ("WriteRes", C_FILL), ("SetOther", 0, 1), ("Conv", 1)]))
    return sc


def gen_histories(ctx):
    rng = ctx.rng
    quick = ctx.quick()
    hs = []                          # (scenario, ops)
    corpus = [
        ("corpus", [("NewArr", 0, A(V0)), ("NewArr", 1, A([V0])), ("Raw", 1, 0, 0), ("Raw", 1, 0, 1)]),
        ("corpus", [("NewArr", 0, A(V0)), ("Raw", 1, 0, 0), ("SetRow", 0, W(V2))]),
        ("corpus", [("NewArr", 0, A(V0)), ("NewArr", 1, A(V0)), ("Raw", 1, 0, 0), ("WriteRes", C_FILL), ("Raw", 1, 0, 1)]),
        ("corpus", [("NewPos", 0, 1, A([V0, V1])), ("Conv", 0), ("Slice", 0, 1, 5), ("SetRow", 5, W(V2)), ("Conv", 0)]),
        ("corpus", [("NewPos", 0, 2, A(L0)), ("NewPos", 1, 1, A(V1)), ("SetOther", 0, 1), ("Conv", 1), ("WriteRes", C_FILL),
                    ("Read", 0, 1)]),
    ]
    hs.extend(corpus)
    light = bool(os.environ.get("VERIF_C08_LIGHT"))     # developer switch: a subset of the quick tier (mutant screening)
    full = int(os.environ.get("VERIF_C08_LIGHT")) if light else 3 if quick else 4
    only = os.environ.get("VERIF_C08_SCEN")             # developer switch: restrict to some alphabets
    n_sample = 0 if light else 80 if quick else 1500          # per scenario, one length above the exhaustive bound
    for name, prelude, alpha in scenarios(not quick):
        if only and name not in only.split(","):
            continue
        for L in range(1, full + 1):
            for combo in itertools.product(alpha, repeat=L):
                hs.append((name, prelude + list(combo)))
        for _ in range(n_sample):
            hs.append((name, prelude + [rng.choice(alpha) for _ in range(full + 1)]))
        # long random histories
        for _ in range(0 if light else 15 if quick else 150):
            L = rng.randrange(6, 41)
            hs.append((name + "-long", prelude + [rng.choice(alpha) for _ in range(L)]))
    # mixed alphabet, long
    allsc = scenarios(not quick)
    for _ in range(0 if light else 40 if quick else 300):
        name, prelude, alpha = rng.choice(allsc)
        name2, prelude2, alpha2 = rng.choice(allsc)
        L = rng.randrange(8, 41)
        hs.append(("mixed-long", prelude + [rng.choice(alpha) for _ in range(L)]))
    return hs


# ------------------------------------------------------------------------------------------ time
TSCALE = {"utc": 0, "tai": 1, "gps": 2, "tt": 3, "tcg": 4}
TFMT = {"isot": 0, "iso": 1, "datetime": 2, "mjd": 3, "jd": 4, "yday": 5}
TVALS = {
    ("isot", 0): ["2017-09-04T00:00:00", "2017-09-05T12:00:00"],
    ("iso", 0): ["2017-09-04 00:00:00", "2017-09-05 12:00:00"],
    ("datetime", 0): [(2017, 9, 4, 0, 0, 0), (2017, 9, 5, 12, 0, 0)],
    ("mjd", 0): [58000.0, 58001.5],
    ("isot", 1): ["2019-01-01T06:00:00", "2019-03-02T18:00:00"],
    ("iso", 1): ["2019-01-01 06:00:00", "2019-03-02 18:00:00"],
    ("isot", 3): ["2017-09-04T06:00:00", "2017-09-05T18:00:00"],     # same days as value 0, other day fractions
    ("isot", 4): ["2017-09-04T00:00:00"],                             # shape (1,)
    ("isot", 2): "2017-09-04T00:00:00",
    ("iso", 2): "2017-09-04 00:00:00",
}


def mk_time(scale, fmt, val):
    from datetime import datetime
    from midgard.data.time import Time
    v = TVALS[(fmt, val)]
    if fmt == "datetime":
        v = [datetime(*x) for x in v]
    return Time(v, scale=scale, fmt=fmt)


def time_jd(t):
    import numpy as np
    j1, j2 = np.atleast_1d(np.asarray(t.jd1, dtype=float)), np.atleast_1d(np.asarray(t.jd2, dtype=float))
    scalar = np.ndim(t.jd1) == 0
    words = tuple(f2w(x) for x in j1) + tuple(f2w(x) for x in j2)
    return ((0,) if scalar else (0, len(j1)), words)


def run_time_history(ops):
    slots = {}
    seen, reqs = [], []
    for o in ops:
        try:
            if o[0] == "TNew":
                t = mk_time(o[2], o[3], o[4])
                slots[o[1]] = t
                seen.append((TFMT[t.fmt] * 16 + TSCALE[t.scale], time_jd(t)))
            elif o[0] == "TScale":
                t = slots[o[1]]
                if t.scale != o[2]:
                    reqs.append(("time", t.scale, t.fmt, slots[("val", o[1])], o[2], time_jd(t)))
                r = getattr(t, o[2])
                seen.append((TFMT.get(r.fmt, 15) * 16 + TSCALE.get(r.scale, 15), time_jd(r)))
            elif o[0] == "TFlood":
                from midgard.data.time import Time
                for _ in range(o[1]):
                    _FLOOD[0] += 1
                    Time(51544.0 + _FLOOD[0], scale="utc", fmt="mjd").tai
                seen.append((0, NOTHING))
            if o[0] == "TNew":
                slots[("val", o[1])] = o[4]
        except Exception as e:
            seen.append((-7, ((98,), tuple(type(e).__name__.encode()[:40]))))
    return seen, reqs


def gen_time_histories(ctx):
    news = [("TNew", 0, "utc", "isot", 0), ("TNew", 1, "utc", "datetime", 0), ("TNew", 2, "utc", "iso", 1),
            ("TNew", 3, "utc", "mjd", 0), ("TNew", 4, "utc", "isot", 2), ("TNew", 5, "utc", "iso", 2), ("TNew", 6, "tai", "iso", 0),
            ("TNew", 7, "utc", "isot", 3)]
    alpha = [("TScale", 0, "tai"), ("TScale", 1, "tai"), ("TScale", 2, "tai"), ("TScale", 3, "tai"), ("TScale", 4, "gps"),
             ("TScale", 5, "gps"), ("TScale", 7, "tai"), ("TScale", 1, "utc"), ("TScale", 0, "utc"), ("TScale", 6, "utc"), ("TScale", 0, "tt"),
             ("TFlood", 130)]
    hs = []
    light = bool(os.environ.get("VERIF_C08_LIGHT"))
    full = 2 if light else 3 if ctx.quick() else 4
    for L in range(1, full + 1):
        for combo in itertools.product(alpha, repeat=L):
            hs.append(news + list(combo))
    for _ in range(0 if light else 40 if ctx.quick() else 1500):
        hs.append(news + [ctx.rng.choice(alpha) for _ in range(ctx.rng.randrange(5, 30))])
    # times of DIFFERENT scales with bitwise equal jd1/jd2, equal shape ((n,), scalar, (1,)) and equal fmt, converted to the
    # same third scale (or to each other's scale) in one interpreter, in both orders
    news2 = [("TNew", 0, "utc", "isot", 0), ("TNew", 1, "tai", "isot", 0), ("TNew", 2, "utc", "isot", 2), ("TNew", 3, "tai", "isot", 2),
             ("TNew", 4, "utc", "isot", 4), ("TNew", 5, "gps", "isot", 4)]
    alpha2 = [("TScale", 0, "tt"), ("TScale", 1, "tt"), ("TScale", 2, "gps"), ("TScale", 3, "gps"), ("TScale", 4, "tt"),
              ("TScale", 5, "tt"), ("TScale", 0, "tai"), ("TScale", 1, "utc"), ("TScale", 5, "utc")]
    for L in range(1, full + 1):
        for combo in itertools.product(alpha2, repeat=L):
            hs.append(news2 + list(combo))
    for _ in range(0 if light else 20 if ctx.quick() else 500):
        hs.append(news2 + [ctx.rng.choice(alpha2) for _ in range(ctx.rng.randrange(4, 20))])
    return hs


def time_case_term(pool, ops, seen, table):
    def top(o):
        if o[0] == "TNew":
            t_jd = o[5]
            return f"(TNew {o[1]} {TSCALE[o[2]]} {TFMT[o[3]]} {pool.ref(t_jd)})"
        if o[0] == "TScale":
            return f"(TScale {o[1]} {TSCALE[o[2]]})"
        return f"(TFlood {emit.nat(o[1])})"
    tt = emit.lst(f"({a}, {b_}, {pool.ref(j)}, {pool.ref(r)})" for (a, b_, j, r) in table)
    return f"({tt}, {emit.lst(top(o) for o in ops)}, {emit.lst(f'({emit.z(c)}, {pool.ref(a)})' for c, a in seen)})"


# ------------------------------------------------------------------------------------------ PosVel / PositionDelta
PV_A = [10000e3, 15000e3, 18000e3, 2000.0, -2500.0, 1500.0]
PV_B = [-12000e3, 20000e3, 9000e3, 1500.0, 2200.0, -2600.0]
PV_C = [7000e3, -21000e3, 12000e3, 3000.0, 1000.0, 1200.0]
PV_KA = [21210193.0, 0.226085234, 2.23199753, 1.87241537, 4.63021704, 2.66698029]
PV_KB = [26559000.0, 0.01, 0.96, 1.0, 2.0, 3.0]
PVSYS = {3: "trs", 4: "kepler"}
PVREAD = {1: "pos", 2: "vel", 4: "trs2acr", 5: "distance", 6: "elevation"}


def A6(rows):
    if isinstance(rows[0], (int, float)):
        return ((0, len(rows)), tuple(f2w(x) for x in rows))
    return ((0, len(rows), len(rows[0])), tuple(f2w(x) for r in rows for x in r))


def _pv_make(kind, a, ref=None):
    from midgard.data.position import PosVel, Position, PositionDelta
    if kind in (3, 4):
        return PosVel(mk(*a), system=PVSYS[kind])
    if kind == 5:
        return PositionDelta(mk(*a), system="trs", ref_pos=ref)
    if kind in (7, 8):
        from midgard.data.position import PosVelDelta
        return PosVelDelta(mk(*a), system="enu" if kind == 7 else "acr", ref_pos=ref)
    return Position(mk(*a), system="trs")


def _pv_read(p, kind, what):
    import numpy as np
    if what == 3:
        return np.asarray(p.kepler if kind == 3 else p.trs)
    if what == 8:
        return np.asarray(p.enu)
    if what >= 11:
        return np.asarray(getattr(p, {11: "trs", 12: "acr", 13: "enu"}[what]))
    return np.asarray(getattr(p, PVREAD[what]))


def _pv_set(x, mode, vals):
    if mode == 2:
        x[...] = vals
    elif x.ndim == 1:
        x[:] = vals
    elif mode == 1 or x.shape[0] == 1:
        x[0:1] = [vals]
    else:
        x[0] = vals


def run_pv_history(ops):
    """PosVel / PositionDelta history on the implementation (call only in a fresh fork)."""
    import numpy as np
    from midgard.dev import exceptions
    slots, kinds, links = {}, {}, {}
    seen, reqs = [], []
    res = None
    for o in ops:
        try:
            if o[0] == "PRaw":
                from midgard.math import transformation
                p = slots[o[1]]
                before = p.tobytes()
                reqs.append(("pv", 3, kinds[o[1]], arr_of(np.asarray(p)), None, None))
                r = transformation.trs2kepler(p) if kinds[o[1]] == 3 else transformation.kepler2trs(p)
                res = r
                seen.append((arr_of(np.asarray(r)), (1 if p.flags.writeable else 0) if p.tobytes() == before else 2))
            elif o[0] == "PWrite":
                if isinstance(res, np.ndarray) and res.ndim >= 1:
                    try:
                        res[...] = w2f(o[1])
                    except (ValueError, TypeError):
                        pass
                seen.append((NOTHING, 0))
            elif o[0] == "PNew":
                _, s_, kind, a, link = o
                slots[s_] = _pv_make(kind, a, slots.get(link) if kind in (5, 7, 8) else None)
                kinds[s_] = kind
                links[s_] = link if kind in (5, 7, 8) else None
                seen.append((NOTHING, 0))
            elif o[0] == "PSet":
                _pv_set(slots[o[1]], o[2], [w2f(w) for w in o[3]])
                seen.append((NOTHING, 0))
            elif o[0] == "POther":
                slots[o[1]].other = None if o[2] is None else slots[o[2]]
                links[o[1]] = o[2]
                seen.append((NOTHING, 0))
            elif o[0] == "PRead":
                _, s_, what = o
                p = slots[s_]
                if what in (5, 6, 8) or what >= 11:
                    if links[s_] is None:
                        res = None
                        try:
                            getattr(p, PVREAD[what])
                            seen.append((NOTHING, -8))
                        except exceptions.InitializationError:
                            seen.append((NOTHING, -2))
                        continue
                    q = slots[links[s_]]
                    reqs.append(("pv", what, kinds[s_], arr_of(np.asarray(p)), kinds[links[s_]], arr_of(np.asarray(q))))
                else:
                    reqs.append(("pv", what, kinds[s_], arr_of(np.asarray(p)), None, None))
                if what == 3:
                    res = p.kepler if kinds[s_] == 3 else p.trs
                    seen.append((arr_of(np.asarray(res)), 0))
                else:
                    res = None
                    seen.append((arr_of(_pv_read(p, kinds[s_], what)), 0))
        except Exception as e:
            seen.append((((98,), tuple(type(e).__name__.encode()[:40])), -7))
    return seen, reqs


def ref_pv(req):
    _, what, kind, a, kind2, a2 = req
    if what == 8 or what >= 11:
        ref = _pv_make(kind2, a2)
        p = _pv_make(kind, a, ref)
    else:
        p = _pv_make(kind, a)
        if kind2 is not None:
            p.other = _pv_make(kind2, a2)
    return arr_of(_pv_read(p, kind, what))


def pv_scenarios():
    W6 = lambda v: tuple(f2w(x) for x in v)
    sc = []
    for name, mkrows in (("pv6", lambda *r: A6(r[0])), ("pv16", lambda *r: A6([r[0]])), ("pv26", lambda *r: A6([r[0], r[1]]))):
        prelude = [("PNew", 0, 3, mkrows(PV_A, PV_B), None), ("PNew", 1, 3, mkrows(PV_B, PV_C), None),
                   ("PNew", 2, 4, mkrows(PV_KA, PV_KB), None), ("POther", 0, 1)]
        # parts and conversions of one object under row / slice / whole assignment
        sc.append((name + "-parts", prelude,
                   [("PRead", 0, 1), ("PRead", 0, 2), ("PRead", 0, 3), ("PRead", 0, 4), ("PRead", 2, 3), ("PRead", 2, 4),
                    ("PSet", 0, 0, W6(PV_C)), ("PSet", 0, 1, W6(PV_B)), ("PSet", 0, 2, W6(PV_C)), ("PSet", 2, 0, W6(PV_KB))]))
        # conversions and raw trs2kepler / kepler2trs: write into the result, convert an equal-valued other object
        sc.append((name + "-conv",
                   prelude + [("PNew", 3, 3, mkrows(PV_A, PV_B), None), ("PNew", 4, 4, mkrows(PV_KA, PV_KB), None)],
                   [("PRead", 0, 3), ("PRead", 3, 3), ("PRaw", 0), ("PRaw", 3), ("PWrite", C_FILL), ("PRead", 2, 3), ("PRead", 4, 3),
                    ("PRaw", 2), ("PRead", 2, 4), ("PSet", 0, 0, W6(PV_C))]))
        # quantities that depend on `other`: mutate / detach / re-attach it
        sc.append((name + "-other", prelude,
                   [("PRead", 0, 5), ("PRead", 0, 6), ("PRead", 0, 1), ("PSet", 1, 0, W6(PV_A)), ("PSet", 1, 2, W6(PV_C)),
                    ("PSet", 0, 0, W6(PV_C)), ("POther", 0, None), ("POther", 0, 1)]))
    # PosVelDelta: two-hop conversions enu <-> acr over trs on several equal-valued objects (state shared between objects)
    ENU = [[1.0, 2.0, 3.0, 0.1, 0.2, 0.3], [4.0, 5.0, 6.0, 0.4, 0.5, 0.6]]
    ACR = [[-2.5, 1.5, 0.75, 0.01, -0.02, 0.03], [3.0, -1.0, 2.0, 0.05, 0.04, -0.06]]
    REF = [[7000e3, 100e3, 200e3, 100.0, 7500.0, 300.0], [7100e3, 150e3, 210e3, 110.0, 7400.0, 310.0]]
    for name, mkrows in (("pvd6", lambda r: A6(r[0])), ("pvd26", lambda r: A6(r))):
        sc.append((name,
                   [("PNew", 0, 3, mkrows(REF), None), ("PNew", 1, 7, mkrows(ENU), 0), ("PNew", 2, 7, mkrows(ENU), 0),
                    ("PNew", 3, 8, mkrows(ACR), 0), ("PNew", 4, 8, mkrows(ACR), 0)],
                   [("PRead", 1, 11), ("PRead", 1, 12), ("PRead", 2, 12), ("PRead", 2, 11), ("PRead", 3, 13), ("PRead", 4, 13),
                    ("PRead", 3, 11), ("PSet", 1, 0, W6(ACR[1])), ("PSet", 0, 0, W6(REF[1]))]))
    # position deltas with a reference position that is mutated
    for name, d, r in (("delta3", A([1.0, 2.0, 3.0]), A(V0)), ("delta23", A([[1.0, 2.0, 3.0], [-4.0, 5.0, 0.5]]), A([V0, V1]))):
        sc.append((name,
                   [("PNew", 0, 6, r, None), ("PNew", 1, 5, d, 0)],
                   [("PRead", 1, 8), ("PSet", 0, 0, W(V2)), ("PSet", 0, 2, W(V1)), ("PSet", 1, 0, W([7.0, 8.0, 9.0])),
                    ("PSet", 1, 2, W([0.5, 0.25, 2.0]))]))
    return sc


def gen_pv_histories(ctx):
    light = os.environ.get("VERIF_C08_LIGHT")
    full = int(light) if light else 3 if ctx.quick() else 4
    only = os.environ.get("VERIF_C08_SCEN")
    hs = []
    for name, prelude, alpha in pv_scenarios():
        if only and name not in only.split(","):
            continue
        for L in range(1, full + 1):
            for combo in itertools.product(alpha, repeat=L):
                hs.append((name, prelude + list(combo)))
        if not light:
            for _ in range(60 if ctx.quick() else 3000):
                hs.append((name, prelude + [ctx.rng.choice(alpha) for _ in range(ctx.rng.randrange(3, 9))]))
            for _ in range(10 if ctx.quick() else 150):
                hs.append((name + "-long", prelude + [ctx.rng.choice(alpha) for _ in range(ctx.rng.randrange(9, 41))]))
    return hs


def pvop_term(pool, o):
    if o[0] == "PNew":
        return f"(PNew {o[1]} {o[2]} {pool.ref(o[3])} {emit.opt(None if o[4] is None else str(o[4]))})"
    if o[0] == "PRead":
        return f"(PRead {o[1]} {o[2]})"
    if o[0] == "PRaw":
        return f"(PRaw {o[1]})"
    if o[0] == "PWrite":
        return f"(PWrite {emit.z(o[1])})"
    if o[0] == "PSet":
        return f"(PSet {o[1]} {o[2]} {emit.lst(emit.z(w) for w in o[3])})"
    return f"(POther {o[1]} {emit.opt(None if o[2] is None else str(o[2]))})"


# ------------------------------------------------------------------------------------------ the run
def shard_term(fn, pool, case_terms):
    return (f"let A := {pool.term()} in\nlet g := fun i : nat => List.nth i A (@nil Z, @nil Z) in\n"
            f"List.map {fn} {emit.lst(case_terms)}")


def describe(ops):
    return [list(o[:1]) + [x if not isinstance(x, tuple) else list(x) for x in o[1:]] for o in ops]


def run(ctx):
    # pristine servers first: nothing of midgard has been called in this process yet
    srv = Servers(min(core.NCPU, 12))
    try:
        return _run(ctx, srv)
    finally:
        srv.close()


def _run(ctx, srv):
    ok = ctx.prove(THEOREMS)
    ref = Reference(srv)

    # ---------------------------------------------------------------- positions / transformations
    hs = gen_histories(ctx)
    ctx.log(f"{len(hs)} histories")
    results = srv.map("hist", [ops for _, ops in hs])
    good = []
    for (name, ops), (st, val) in zip(hs, results):
        if st != "ok":
            ctx.violation(dict(kind="history", scenario=name, ops=describe(ops), error=val),
                          what="history runner failed on the implementation")
            continue
        good.append((name, ops, val[0], val[1]))
    tables = build_tables(ref, [g[3] for g in good])
    ctx.log(f"{len(ref.memo)} reference evaluations")
    shard_size = 400
    # candidate quirk sets: explanations by *open* findings alone are looked for first (fewest quirks first)
    open_bits = sum(1 << bit for bit, fid, _ in QUIRK_BITS
                    if any(k.get("id") == fid and k.get("status", "open") == "open" for k in ctx.known))
    # ... and among equally small sets those with fewer LRU-level quirks (bits 0-2), which the proposed fix removes
    order = sorted(range(1, 64), key=lambda n: (0 if n & ~open_bits == 0 else 1, bin(n).count("1"), bin(n & 7).count("1"), n))
    cand = emit.lst(str(n) for n in order)
    shards, index = [], []
    for i in range(0, len(good), shard_size):
        pool = Pool()
        terms = []
        for (name, ops, seen, _), tab in zip(good[i:i + shard_size], tables[i:i + shard_size]):
            tt = emit.lst(f"({fn}, {ext}, {emit.lst(karg_term(pool, ka) for ka in kargs)}, {pool.ref(r)})" for fn, ext, kargs, r in tab)
            ot = emit.lst(op_term(pool, o) for o in ops)
            st = emit.lst(f"({pool.ref(a)}, {emit.z(x)})" for a, x in seen)
            terms.append(f"({tt}, {ot}, {st})")
        shards.append(shard_term(f"(check_hist_with {cand})", pool, terms))
    vs = ctx.coq_cases(shards, REQ)
    flat = emit.flatten_verdicts(vs, len(good))
    if flat is None:
        ctx.violation({"broken": "correspondence shards did not evaluate in Coq", "errors": ctx.last_coq_errors[:2]},
                      what="correspondence (model evaluation) failed", found=False)
        flat = []
    for (name, ops, seen, _), v in zip(good, flat):
        body = [o for o in ops if o[0] not in ("NewArr", "NewPos")]
        ctx.count(f"scenario:{name}")
        ctx.count(f"verdict:{v}")
        ctx.count(f"len:{min(len(body), 10) if len(body) <= 10 else '11+'}")
        for o in body:
            ctx.count(f"op:{o[0]}")
        rep = dict(kind="history", scenario=name, ops=describe(ops),
                   observed=[[list(a[0]), [w2f(w) if a[0] and a[0][0] == 0 else w for w in a[1]], x] for a, x in seen],
                   verdict=v, how="/venv/bin/python /verif/run_check.py C08 replay <this file>")
        ctx.case((name, repr(ops)), nontrivial=len(body) >= 2, sample=rep if (v == 0 and len(body) == 3 and len(ctx.samples) < 3) else None)
        if v == 0:
            continue
        if v >= 32:
            for bit, fid, what in QUIRK_BITS:
                if (v - 32) >> bit & 1:
                    ctx.count(f"quirk:{fid}")
                    ctx.finding(fid, what, rep)
        else:
            ctx.violation(rep, what=f"midgard's observations differ from the model and from every quirk machine (scenario {name})")

    ctx.log("position machine compared")
    # ---------------------------------------------------------------- PosVel / PositionDelta objects
    phs = gen_pv_histories(ctx)
    pres = srv.map("hist_pv", [ops for _, ops in phs])
    pgood = []
    for (name, ops), (st, val) in zip(phs, pres):
        if st != "ok":
            ctx.violation(dict(kind="pv_history", scenario=name, ops=describe(ops), error=val), what="PosVel history runner failed")
            continue
        pgood.append((name, ops, val[0], val[1]))
    ref.need([r for g in pgood for r in g[3]] +
             [("pv", 3, 4, r[3], None, None) for g in pgood for r in g[3] if r[1] == 4 and r[2] == 4])
    ref.need([("pv", 4, 3, ref.get(("pv", 3, 4, r[3], None, None)), None, None)
              for g in pgood for r in g[3] if r[1] == 4 and r[2] == 4 and ref.get(("pv", 3, 4, r[3], None, None)) is not None])
    pshards = []
    for i in range(0, len(pgood), shard_size):
        pool = Pool()
        terms = []
        for name, ops, seen, reqs in pgood[i:i + shard_size]:
            tab = {}
            for r in reqs:
                _, what, kind, a, kind2, a2 = r
                if what == 4 and kind == 4:
                    # trs2acr of a kepler object = trs2acr of its trs conversion
                    child = ref.get(("pv", 3, 4, a, None, None))
                    if child is not None:
                        tab[(340, (a,))] = child
                        out = ref.get(("pv", 4, 3, child, None, None))
                        if out is not None:
                            tab[(430, (child,))] = out
                    continue
                out = ref.get(r)
                if out is not None:
                    tab[(what * 100 + kind * 10 + (kind2 or 0), (a,) if a2 is None else (a, a2))] = out
            tt = emit.lst(f"({k[0]}, {emit.lst(pool.ref(x) for x in k[1])}, {pool.ref(v)})" for k, v in tab.items())
            terms.append(f"({tt}, {emit.lst(pvop_term(pool, o) for o in ops)}, "
                         f"{emit.lst(f'({pool.ref(a)}, {emit.z(x)})' for a, x in seen)})")
        pshards.append(shard_term("check_pv", pool, terms))
    pvs = ctx.coq_cases(pshards, REQ)
    pflat = emit.flatten_verdicts(pvs, len(pgood))
    if pflat is None:
        ctx.violation({"broken": "PosVel correspondence shards did not evaluate in Coq", "errors": ctx.last_coq_errors[:2]},
                      what="correspondence (model evaluation) failed", found=False)
        pflat = []
    for (name, ops, seen, reqs), v in zip(pgood, pflat):
        body = [o for o in ops if o[0] != "PNew"]
        ctx.count(f"scenario:{name}")
        ctx.count(f"verdict-pv:{v}")
        rep = dict(kind="pv_history", scenario=name, ops=describe(ops),
                   observed=[[list(a[0]), [w2f(w) if a[0] and a[0][0] == 0 else w for w in a[1]], x] for a, x in seen],
                   verdict=v, legend="kinds 3 TrsPosVel 4 KeplerPosVel 5 TrsPositionDelta 6 TrsPosition; reads 1 pos 2 vel 3 other system 11/12/13 PosVelDelta .trs/.acr/.enu (kinds 7 enu, 8 acr) "
                                     "4 trs2acr 5 distance 6 elevation 8 delta.enu; PRaw = transformation.trs2kepler/kepler2trs(p); "
                                     "PWrite = result[...] = c; PSet mode 0 row / 1 slice / 2 whole")
        ctx.case((name, repr(ops)), nontrivial=len(body) >= 3)
        if v == 0:
            continue
        if v in (2, 3, 4):
            if v in (2, 4):
                ctx.count("quirk:c08_refpos_mutation_stale")
                ctx.finding("c08_refpos_mutation_stale",
                            "PositionDelta conversions (.enu) are not invalidated when the reference position is changed by item assignment", rep)
            if v in (3, 4):
                ctx.count("quirk:c08_object_cache_handout")
                ctx.finding("c08_object_cache_handout",
                            "p.kepler / p.trs return the _cache entry itself: writing into it changes what p returns later", rep)
        else:
            ctx.violation(rep, what=f"PosVel/PositionDelta observations differ from the uncached reference of the current contents (scenario {name})")

    ctx.log(f"PosVel machine compared ({len(pgood)} histories)")
    # ---------------------------------------------------------------- time scales
    ths = gen_time_histories(ctx)
    tres = srv.map("hist_time", ths)
    tgood = []
    for ops, (st, val) in zip(ths, tres):
        if st != "ok":
            ctx.violation(dict(kind="time_history", ops=describe(ops), error=val), what="time history runner failed")
            continue
        tgood.append((ops, val[0], val[1]))
    treqs = []
    for ops, seen, reqs in tgood:
        treqs.extend(r[:5] for r in reqs)
    ref.need(treqs)
    tshards = []
    for i in range(0, len(tgood), shard_size):
        pool = Pool()
        terms = []
        for ops, seen, reqs in tgood[i:i + shard_size]:
            tab = {}
            for r in reqs:
                out = ref.get(r[:5])
                if out is not None:
                    tab[(TSCALE[r[1]], TSCALE[r[4]], r[5])] = out
            # TNew terms need the jd of the object: it is the observation of that op
            ops2 = []
            for o, s_ in zip(ops, seen):
                ops2.append(o + (s_[1],) if o[0] == "TNew" else o)
            terms.append(time_case_term(pool, ops2, seen, [(k[0], k[1], k[2], v) for k, v in tab.items()]))
        tshards.append(shard_term("check_time", pool, terms))
    tvs = ctx.coq_cases(tshards, REQ)
    tflat = emit.flatten_verdicts(tvs, len(tgood))
    if tflat is None:
        ctx.violation({"broken": "time correspondence shards did not evaluate in Coq", "errors": ctx.last_coq_errors[:2]},
                      what="correspondence (model evaluation) failed", found=False)
        tflat = []
    for (ops, seen, reqs), v in zip(tgood, tflat):
        body = [o for o in ops if o[0] != "TNew"]
        ctx.count("scenario:time")
        rep = dict(kind="time_history", ops=describe(ops), observed=[[c, list(a[0]), [w2f(w) for w in a[1]]] for c, a in seen], verdict=v)
        ctx.case(("time", repr(ops)), nontrivial=len(body) >= 2)
        if v == 0:
            continue
        if v == 2:
            ctx.count("quirk:c08_time_cache_ignores_fmt")
            ctx.finding("c08_time_cache_ignores_fmt",
                        "TimeBase.to_scale memo is keyed by jd1/jd2 only: a time with another fmt gets the earlier object's fmt", rep)
        else:
            ctx.violation(rep, what="midgard's time-scale observations differ from the model")

    if not ok and not ctx.violations:
        ctx.obligations_broken(lambda: None)
    ctx.trusted += [
        "Coq 8.16.1 kernel, coqc, vm_compute (no native_compute)",
        "hand-written model coq/theories/Model/C08_Cache.v + Lib/C08_Lru.v (validated against midgard by this run's correspondence)",
        "harness/drivers/c08.py (history runner, fresh-fork reference evaluations, term emission)",
        "os.fork of an interpreter in which no midgard function has been called = empty memo tables",
    ]
    ctx.assume += [
        "the numerical functions are deterministic functions of the bytes, shape, dtype of their arguments (same code, same inputs -> bit-identical doubles)",
        "PosVelDelta / Velocity* objects share PosBase's cache code and are not exercised separately",
        "NaN / signed-zero keys (float equality differs from byte equality) are outside the domain",
    ]
    return ctx.finish(
        level="proof",
        rule=("bounded-exhaustive interleavings (length <= 3 quick / <= 4 thorough, plus a random sample one longer) over six "
              "alphabets of 10-12 operations each on objects of equal value in shapes (3,), (1,3), (2,3) and an int64 view "
              "(raw trs2llh/llh2trs/enu2trs/trs2enu with two ellipsoids, conversions, distance/direction/azimuth/elevation/"
              "enu2trs/trs2enu, write into result, item assignment, attach/replace/detach/mutate other, slices, 127/130-call "
              "floods of the LRU), random histories up to length 40, and time-scale histories over 7 objects of 4 formats; "
              "distinct_nontrivial = distinct histories with >= 2 operations after the prelude"),
    )


def _dispatch(what, payload):
    if what == "hist":
        return run_history(payload)
    if what == "hist_time":
        return run_time_history(payload)
    if what == "hist_pv":
        return run_pv_history(payload)
    return ref_eval(payload)


def replay(ctx, path):
    rep = json.load(open(path))
    print(json.dumps({k: v for k, v in rep.items() if k not in ("observed",)}, indent=1)[:4000])
    if rep.get("kind") == "history":
        ops = [tuple(tuple(x) if isinstance(x, list) and x and not isinstance(x[0], list) else x for x in o) for o in rep["ops"]]
        fixed = []
        for o in ops:
            o = list(o)
            for i, x in enumerate(o):
                if isinstance(x, (list, tuple)) and len(x) == 2 and isinstance(x[0], (list, tuple)):
                    o[i] = (tuple(x[0]), tuple(x[1]))
            fixed.append(tuple(o))
        srv = Servers(1)
        try:
            (st, val), = srv.map("hist", [fixed])
        finally:
            srv.close()
        print("re-run on", core.REPO, ":", st)
        if st == "ok":
            for o, (a, x) in zip(fixed, val[0]):
                print("  ", o[0], o[1:] if o[0] not in ("NewArr", "NewPos") else o[1:-1], "->", list(a[0]),
                      [w2f(w) if a[0] and a[0][0] == 0 else w for w in a[1]], x)
    print("re-run the whole check: VERIF_SEED=%s /venv/bin/python run_check.py C08 %s" % (rep.get("seed"), rep.get("tier", "quick")))
    return 0
