"""C10 - writing a Dataset to disk and reading it back is the identity (DESIGN 4.10).

Proof obligations: coq/theories/Props/C10.v (models: Model/C10_Attr.v, Model/C10_File.v).
Correspondence:
  A. meta trees from a grammar through _h5utils.encode_h5attr / decode_h5attr, the encoded text and the
     decoded value compared with the model inside Coq (check_attr);
  B. random datasets built with the real midgard.data.dataset.Dataset, written with ds.write and read with
     Dataset.read; (i) the HDF5 file as seen by plain h5py vs the model's file, (ii) the dataset read back vs
     the model's read; both inside Coq (check_run)."""
from __future__ import annotations

import json
import math
import os
import struct
import warnings

from harness import core, emit

META = {
    "property_id": "C10",
    "level": "proof",
    "design_ref": "DESIGN.md 4.10",
    "technique": "Coq proof (structural induction over trees / field lists with the memo invariant) on a hand model + "
                 "vm_compute correspondence with midgard.data.dataset / _h5utils through real HDF5 files",
    "level_text": (
        "Theorems in Coq 8.16 over (a) an executable token-level model of encode_h5attr/decode_h5attr (repr quote "
        "selection and escapes, literal_eval on the canonical repr layout, the nan/inf regex on the raw characters of "
        "string literals, _recursive_replace) and (b) a model of Dataset.write/read over an abstract HDF5 tree (memo "
        "object->name while writing, name->object while reading, references by name or as private sub groups, "
        "on-demand reading of referenced fields).  The models are tied to the code on every run: meta trees and whole "
        "datasets (ten field kinds + collections, 0..6 rows, three write levels, reference topologies) go through the "
        "real code and a real HDF5 file; file content and read-back dataset are compared with the models inside Coq."),
    "level_note": (
        "Trusted: Coq kernel + vm_compute; h5py/HDF5; Python's repr/tokenizer for ints and floats (a finite float is "
        "represented by its repr text, repr is injective on doubles); the hand-written models are validated, not derived. "
        "Model limits: printable ASCII; private (owned) reference objects carry no references of their own and are not "
        "shared; cyclic reference graphs are outside the domain."),
}

THEOREMS = [
    "attr_roundtrip", "attr_roundtrip_partial", "literal_eval_inverts_repr", "str_literal_roundtrip", "attr_encode_injective",
    "c10_nan_word_refuted", "c10_inf_key_refuted",
    "file_roundtrip", "reference_identity", "field_objects_distinct", "restrict_drops_exactly_below_level",
    "c10_dangling_ref_refuted", "c10_parent_lookup_refuted", "c10_shallow_memo_refuted", "c10_np_string_refuted",
    "c10_meta_nan_file_refuted", "graph_roundtrip", "graph_reference_identity", "graph_field_objects_distinct",
    "c10_bare_names_refuted", "graph_rich_example",
    "decode_history_independent", "c10_parse_memo_refuted",
]

REQ = "From Verif Require Import Lib.Dyadic Model.C10_Attr Model.C10_File Model.C10_Session."
REQ2 = "From Verif Require Import Lib.Dyadic Model.C10_Attr Model.C10_File Model.C10_Graph."

QUIRK_OF_VERDICT = {
    2: ("c10_nan_word", "strings containing nan/inf as a word (or NaN/Inf dict keys) are corrupted or rejected by decode_h5attr's regex"),
    3: ("c10_dangling_ref", "a reference to a field below the write level is written as a name: the file cannot be read (KeyError)"),
    4: ("c10_shallow_memo", "fields in nested collections are not in the write memo: a forward reference is written as a private copy, identity is lost"),
    5: ("c10_parent_lookup", "a not-yet-read referenced field is looked up in the parent group under its dotted name: KeyError for fields in collections"),
    6: ("c10_np_string_removed", "np.string_ was removed in NumPy 2: writing any text field raises AttributeError"),
    9: ("c10_bare_attr_names", "embedded attribute objects are named by the bare attribute name in the write/read memos: a shared embedded "
        "object is confused with another field's embedded object of the same attribute name, or cannot be resolved (KeyError)"),
}


QUIRK_TEXT = {i: t for i, t in QUIRK_OF_VERDICT.values()}


# ============================================================================= python value -> Coq tree
def la(s):
    return f"(la {emit.s(s)})"


def fl_term(x):
    x = float(x)
    if math.isnan(x):
        return "FNan"
    if math.isinf(x):
        return "(FInf true)" if x < 0 else "(FInf false)"
    return f"(FFin {la(repr(x))})"


class Unrepresentable(Exception):
    pass


def tree_term(v):
    import numpy as np
    if isinstance(v, (bool, np.bool_)):
        return f"(Bool {emit.b(bool(v))})"
    if isinstance(v, (int, np.integer)):
        return f"(Int {emit.z(int(v))})"
    if isinstance(v, (float, np.floating)):
        return f"(Flt {fl_term(v)})"
    if isinstance(v, str):
        if not all(32 <= ord(c) < 127 for c in v):
            raise Unrepresentable(repr(v))
        return f"(Str {la(v)})"
    if v is None:
        return "NoneT"
    if isinstance(v, list):
        return "(List " + emit.lst(tree_term(x) for x in v) + ")"
    if isinstance(v, tuple):
        return "(Tuple " + emit.lst(tree_term(x) for x in v) + ")"
    if isinstance(v, (set, frozenset)):
        return "(SetT " + emit.lst(tree_term(x) for x in v) + ")"
    if isinstance(v, dict):
        return "(Dict " + emit.lst(emit.pair(tree_term(k), tree_term(x)) for k, x in v.items()) + ")"
    raise Unrepresentable(repr(v))


def canon(v):
    """deterministic text key of a value (for counting distinct cases)"""
    if isinstance(v, float):
        return "f" + repr(v)
    if isinstance(v, (list, tuple)):
        return type(v).__name__[0] + "(" + ",".join(canon(x) for x in v) + ")"
    if isinstance(v, (set, frozenset)):
        return "s(" + ",".join(sorted(canon(x) for x in v)) + ")"
    if isinstance(v, dict):
        return "d(" + ",".join(canon(k) + ":" + canon(x) for k, x in v.items()) + ")"
    return type(v).__name__[0] + repr(v)


# ============================================================================= grammar of meta trees
WORDS = ["a", "b", "x1", "site", "nan", "inf", "-inf", "NaN", "nano", "info", "inf.", "a nan", "nan-inf", "x-inf", "it's",
         'say "hi"', "it's \"q\"", "back\\slash", "\\nan", " lead", "trail ", "", "list [1]", "str x", "'nan'", "it's nan",
         "-'inf'", "{", "1", "None", "True", "a,b", "k: v", "[", "(", "#", "100%", "_nan_", "nan_", "x inf y"]
FLOATS = [0.0, -0.0, 1.0, -1.5, 0.1, 1e22, 1e16, 1e-5, 123456789.123, 5e-324, 1.7976931348623157e308, 2.5e-7,
          float("nan"), float("inf"), float("-inf")]


def gen_str(rng, dirty):
    r = rng.random()
    if r < 0.5:
        w = rng.choice(WORDS)
    elif r < 0.8:
        w = "".join(rng.choice("abinf n'\"\\-_x1 .") for _ in range(rng.randrange(0, 9)))
    else:
        w = "".join(chr(rng.randrange(32, 127)) for _ in range(rng.randrange(0, 7)))
    if not dirty and has_nan_word(w):
        w = w.replace("nan", "nam").replace("inf", "imf")
    return w


def has_nan_word(s):
    import re
    return bool(re.search(r"\bnan\b|\binf\b", s))


def gen_float(rng, special=True):
    r = rng.random()
    if r < 0.5:
        x = rng.choice(FLOATS)
    elif r < 0.8:
        x = struct.unpack("<d", struct.pack("<Q", rng.getrandbits(64)))[0]
    else:
        x = round(rng.uniform(-1e4, 1e4), rng.randrange(0, 6))
    if not special and (math.isnan(x) or math.isinf(x)):
        x = 1.25
    return x


def gen_atom(rng, dirty, hashable=False, special=True):
    r = rng.random()
    if r < 0.35:
        return gen_str(rng, dirty)
    if r < 0.55:
        return rng.choice([0, 1, -1, 7, -12, 255, 10 ** 6, 2 ** 31, -2 ** 40, 2 ** 62, rng.randrange(-10 ** 9, 10 ** 9)])
    if r < 0.8:
        return gen_float(rng, special)
    if r < 0.9:
        return rng.random() < 0.5
    return None


def gen_key(rng, dirty, depth):
    r = rng.random()
    if r < 0.75:
        return gen_str(rng, dirty)
    if r < 0.9:
        return gen_atom(rng, dirty, special=dirty)
    return tuple(gen_key(rng, dirty, depth + 1) for _ in range(rng.randrange(0, 3)))


def gen_tree(rng, depth, dirty):
    """dirty = strings may contain the words nan/inf, dict keys may be NaN/Inf"""
    if depth <= 0 or rng.random() < 0.3:
        return gen_atom(rng, dirty)
    kind = rng.choice(["list", "list", "tuple", "dict", "dict", "set"])
    n = rng.choice([0, 1, 1, 2, 2, 3, 4])
    if kind == "list":
        return [gen_tree(rng, depth - 1, dirty) for _ in range(n)]
    if kind == "tuple":
        return tuple(gen_tree(rng, depth - 1, dirty) for _ in range(n))
    if kind == "set":
        out = set()
        for _ in range(n):
            k = gen_key(rng, dirty, 2)
            if isinstance(k, float) and math.isnan(k):
                continue
            out.add(k)
        return out
    d = {}
    for _ in range(n):
        d[gen_key(rng, dirty, 2)] = gen_tree(rng, depth - 1, dirty)
    return d


def shards_with_hyp(fn, hypfn, cases, parts=32):
    """shard terms evaluating fn and hypfn on the same case list (the big case terms are parsed once):
    verdicts of a shard = [fn c1 .. fn cn] ++ [hypfn c1 .. hypfn cn]; returns (shards, sizes)"""
    cases = list(cases)
    size = max(1, -(-len(cases) // parts))
    shards, sizes = [], []
    for i in range(0, len(cases), size):
        chunk = cases[i:i + size]
        shards.append(f"(let l := {emit.lst(chunk)} in List.map {fn} l ++ List.map {hypfn} l)%list")
        sizes.append(len(chunk))
    return shards, sizes


def split_with_hyp(vs, sizes):
    """-> (verdicts, hypothesis codes) or (None, None)"""
    main, hyp = [], []
    for v, n in zip(vs, sizes):
        if v is None or len(v) != 2 * n:
            return None, None
        main.extend(v[:n])
        hyp.extend(v[n:])
    return main, hyp


# ============================================================================= history independence helpers
MUT = "__mutated__"


def mutate_in_place(v):
    """change every mutable container reachable in v (what a caller working with a decoded value may do)"""
    if isinstance(v, list):
        for x in v:
            mutate_in_place(x)
        v.append(MUT)
    elif isinstance(v, dict):
        for x in list(v.values()):
            mutate_in_place(x)
        v[MUT] = 1
    elif isinstance(v, set):
        v.add(MUT)
    elif isinstance(v, tuple):
        for x in v:
            mutate_in_place(x)


def container_ids(v, out=None):
    """ids of all mutable containers in v (a list: duplicates = aliasing inside one value)"""
    out = [] if out is None else out
    if isinstance(v, (list, tuple)):
        if isinstance(v, list):
            out.append(id(v))
        for x in v:
            container_ids(x, out)
    elif isinstance(v, dict):
        out.append(id(v))
        for x in v.values():
            container_ids(x, out)
    elif isinstance(v, set):
        out.append(id(v))
    return out


def float_pairs(v, out=None):
    """(repr text, exact double) of every finite float leaf of v, dict keys included"""
    import numpy as np
    out = [] if out is None else out
    if isinstance(v, (float, np.floating)) and not isinstance(v, bool):
        x = float(v)
        if not (math.isnan(x) or math.isinf(x)):
            out.append(emit.pair(emit.s(repr(x)), emit.dy(x)))
    elif isinstance(v, (list, tuple, set, frozenset)):
        for x in v:
            float_pairs(x, out)
    elif isinstance(v, dict):
        for k, x in v.items():
            float_pairs(k, out)
            float_pairs(x, out)
    return out


def file_digest(path):
    import hashlib
    with open(path, "rb") as f:
        return hashlib.sha256(f.read()).hexdigest()


# ============================================================================= A. codec cases
def attr_case(H, v):
    """run encode/decode on the real code; return (case term, replay)"""
    import numpy as np
    t = tree_term(v)
    try:
        with warnings.catch_warnings():
            warnings.simplefilter("ignore")
            e = H.encode_h5attr(v)
    except Exception as ex:  # noqa: BLE001 - every exception is an observation
        oe = f"(ORaise {emit.s(type(ex).__name__)})"
        return (emit.pair(emit.pair(t, oe, "ONotRun", "ONotRun", "false"), emit.lst(float_pairs(v)), "[]"),
                dict(value=repr(v), encode_raised=f"{type(ex).__name__}: {ex}"[:200]))
    if isinstance(e, str):
        oe = f"(OText {emit.s(e)})" if all(32 <= ord(c) < 127 for c in e) else "(ORaise \"non-ascii\")"
        stored = e
    elif isinstance(e, (bool, np.bool_)):
        oe = f"(OBool {emit.b(e)})"
        stored = np.bool_(e)
    elif isinstance(e, (int, np.integer)):
        oe = f"(OInt {emit.z(e)})"
        stored = np.int64(e)
    elif isinstance(e, (float, np.floating)):
        oe = f"(OFlt {fl_term(e)})"
        stored = np.float64(e)
    else:
        oe = "(ORaise \"other\")"
        stored = e
    def dec():
        try:
            with warnings.catch_warnings():
                warnings.simplefilter("ignore")
                dv = H.decode_h5attr(stored)
            return dv, f"(ODec {tree_term(dv)})", repr(dv)
        except Unrepresentable as ex:
            return None, "(ODRaise \"unrepresentable\")", str(ex)
        except Exception as ex:  # noqa: BLE001
            return None, f"(ODRaise {emit.s(type(ex).__name__)})", f"{type(ex).__name__}: {ex}"[:200]

    dv1, od1, dec1 = dec()
    fdec = emit.lst(float_pairs(dv1))
    ids1 = container_ids(dv1)
    mutate_in_place(dv1)            # the caller goes on working with what it got ...
    dv2, od2, dec2 = dec()          # ... the stored value is decoded again
    ids2 = container_ids(dv2)
    aliased = len(set(ids1)) != len(ids1) or len(set(ids2)) != len(ids2) or bool(set(ids1) & set(ids2))
    rep = dict(value=repr(v), encoded=repr(e), decoded=dec1, decoded_again_after_mutating_first_result=dec2,
               results_share_objects=aliased,
               how="x = decode_h5attr(encode_h5attr(value)); mutate x in place (append/setitem/add); decode_h5attr(same text) again")
    return emit.pair(emit.pair(t, oe, od1, od2, emit.b(aliased)), emit.lst(float_pairs(v)), fdec), rep


# ============================================================================= B. datasets
REFNAMES = ("other", "ref_pos", "time")
LEVELS = {"detail": 1, "analysis": 2, "operational": 3}
STD_ATTRS = ("unit", "write_level", "fieldname", "__class__", "multiplier")


def dt_name(dt):
    import numpy as np
    dt = np.dtype(dt)
    if dt.kind == "S":
        return f"text{dt.itemsize}"
    if dt.kind == "U":
        return f"text{dt.itemsize // 4}"
    return dt.name


def arr_term(a):
    import numpy as np
    a = np.asarray(a)
    flat = a.reshape(-1).tolist() if a.size else []
    if a.dtype.kind == "f":
        vals = [f"(SF {emit.dy(x)})" for x in flat]
    elif a.dtype.kind == "b":
        vals = [f"(SB {emit.b(x)})" for x in flat]
    elif a.dtype.kind in "SU":
        vals = []
        for x in flat:
            if isinstance(x, bytes):
                x = x.decode("latin1")
            if not all(32 <= ord(c) < 127 for c in x):
                raise Unrepresentable(repr(x))
            vals.append(f"(ST {emit.s(x)})")
    else:
        raise Unrepresentable(f"dtype {a.dtype}")
    return ("{| a_dtype := %s; a_shape := %s; a_vals := %s |}"
            % (emit.s(dt_name(a.dtype)), emit.lst(emit.z(n) for n in a.shape), emit.lst(vals)))


def cls_path(obj):
    return f"{obj.__class__.__module__}.{obj.__class__.__name__}"


def payload_term(cls, sattrs, main, extra):
    return ("{| p_class := %s; p_sattrs := %s; p_main := %s; p_extra := %s |}"
            % (emit.s(cls), emit.lst(emit.pair(emit.s(k), emit.s(v)) for k, v in sattrs),
               emit.opt(None if main is None else arr_term(main)),
               emit.lst(emit.pair(emit.s(k), arr_term(v)) for k, v in extra)))


def obj_parts(obj):
    """(payload term, [(attr, object)]) of a data object, by the kind of object it is"""
    import numpy as np
    cn = getattr(obj, "cls_name", None)
    if cn in ("PositionArray", "PosVelArray"):
        refs = [(a, getattr(obj, a, None)) for a in type(obj)._attributes()]
        return (payload_term(cls_path(obj), [("system", obj.system), ("ellipsoid", obj.ellipsoid.name)], np.asarray(obj), []),
                [(a, o) for a, o in refs if o is not None])
    if cn in ("PositionDeltaArray", "PosVelDeltaArray"):
        refs = [(a, getattr(obj, a, None)) for a in type(obj)._attributes() + ["ref_pos"]]
        return (payload_term(cls_path(obj), [("system", obj.system)], np.asarray(obj), []),
                [(a, o) for a, o in refs if o is not None])
    if cn in ("TimeArray", "TimeDeltaArray"):
        return payload_term(cls_path(obj), [("scale", obj.scale), ("fmt", obj.fmt)], None,
                            [("jd1", np.asarray(obj.jd1)), ("jd2", np.asarray(obj.jd2))]), []
    if hasattr(obj, "sigma") and type(obj).__name__ == "SigmaArray":
        return payload_term(cls_path(obj), [], np.asarray(obj), [("sigma", np.asarray(obj.sigma))]), []
    if isinstance(obj, np.ndarray):
        return payload_term(cls_path(obj), [], np.asarray(obj), []), []
    raise Unrepresentable(f"object {type(obj)}")


def walk_fields(ds):
    """depth-first (path, field) of a Dataset, collections included"""
    out = []

    def rec(prefix, fields):
        for name, f in fields.items():
            out.append((prefix + [name], f))
            if f.fieldtype == "collection":
                rec(prefix + [name], f.data._fields)
    rec([], ds._fields)
    return out


def path_term(p):
    return emit.lst(emit.s(c) for c in p)


def dataset_term(ds, info=None):
    """Coq `dataset` describing a midgard Dataset (before writing / after reading)"""
    fl = walk_fields(ds)
    ids = {}
    for p, f in fl:
        if f.fieldtype != "collection":
            ids.setdefault(id(f.data), p)
    ents = []
    for p, f in fl:
        if f.fieldtype == "collection":
            ents.append(emit.pair(path_term(p), "EColl"))
            continue
        pl, refs = obj_parts(f.data)
        rts = []
        for a, o in refs:
            if id(o) in ids and ids[id(o)] != p:
                rts.append(emit.pair(emit.s(a), f"(RField {path_term(ids[id(o)])})"))
                if info is not None:
                    info.setdefault("refs", []).append((".".join(p), a, ".".join(ids[id(o)])))
            else:
                opl, orefs = obj_parts(o)
                if orefs:
                    raise Unrepresentable("owned object with references")
                rts.append(emit.pair(emit.s(a), f"(ROwn {opl})"))
                if info is not None:
                    info.setdefault("refs", []).append((".".join(p), a, "<owned>"))
        unit = f._unit
        if unit is not None:
            unit = [unit] if isinstance(unit, str) else list(unit)
        mult = f.multiplier
        if info is not None:
            info.setdefault("entries", {})[".".join(p)] = (int(f._write_level), pl, sorted(rts), unit, int(mult))
        ents.append(emit.pair(path_term(p),
                    "(ELeaf {| l_kind := %s; l_level := %s; l_unit := %s; l_mult := %s; l_pl := %s; l_refs := %s |})"
                    % (emit.s(f.fieldtype), emit.z(int(f._write_level)),
                       emit.opt(None if unit is None else emit.lst(emit.s(u) for u in unit)),
                       emit.z(int(mult)), pl, emit.lst(rts))))
    meta = emit.lst(emit.pair(emit.s(k), tree_term(v)) for k, v in ds.meta.items())
    vars_ = emit.lst(emit.pair(tree_term(k), tree_term(v)) for k, v in ds.vars.items())
    return ("{| d_fields := %s; d_meta := %s; d_vars := %s; d_numobs := %s; d_version := %s |}"
            % (emit.lst(ents), meta, vars_, emit.z(int(ds.num_obs)), emit.s(ds.version)))


# ----------------------------------------------------------------------------- graph model (Model/C10_Graph.v)
FINAL_CLASSES = ("PositionArray", "PositionDeltaArray", "PosVelArray")   # their _write ends with memo[id(self)] = ...


def obj_payload_refs(obj):
    """(payload term, [(attr, object)]) like obj_parts, for any data object"""
    return obj_parts(obj)


def graph_term(ds, info=None):
    """Coq `gdataset`: fields + table of all data objects (field objects under KF path, private ones under KP n)"""
    fl = walk_fields(ds)
    fids = {}
    for p, f in fl:
        if f.fieldtype != "collection":
            fids.setdefault(id(f.data), p)
    priv = {}            # id -> n
    nodes = []           # (key term, node term)
    keep = []            # keep objects alive while ids are used

    def key_of(o):
        if id(o) in fids:
            return f"(KF {path_term(fids[id(o)])})"
        if id(o) not in priv:
            priv[id(o)] = len(priv)
            keep.append(o)
            add_node(f"(KP {emit.nat(priv[id(o)])})", o)
        return f"(KP {emit.nat(priv[id(o)])})"

    def add_node(kterm, o):
        pl, refs = obj_payload_refs(o)
        slot = len(nodes)
        nodes.append(None)
        rts = [emit.pair(emit.s(a), key_of(x)) for a, x in refs]
        final = getattr(o, "cls_name", None) in FINAL_CLASSES
        nodes[slot] = emit.pair(kterm, "{| n_pl := %s; n_final := %s; n_refs := %s |}" % (pl, emit.b(final), emit.lst(rts)))

    ents = []
    for p, f in fl:
        if f.fieldtype == "collection":
            ents.append(emit.pair(path_term(p), "GColl"))
            continue
        if fids[id(f.data)] != p:
            raise Unrepresentable("two fields share one data object")
        add_node(f"(KF {path_term(p)})", f.data)
        unit = f._unit
        if unit is not None:
            unit = [unit] if isinstance(unit, str) else list(unit)
        ents.append(emit.pair(path_term(p), "(GLeaf {| gl_kind := %s; gl_level := %s; gl_unit := %s; gl_mult := %s |})"
                              % (emit.s(f.fieldtype), emit.z(int(f._write_level)),
                                 emit.opt(None if unit is None else emit.lst(emit.s(u) for u in unit)), emit.z(int(f.multiplier)))))
    if info is not None:
        info["n_private"] = len(priv)
    meta = emit.lst(emit.pair(emit.s(k), tree_term(v)) for k, v in ds.meta.items())
    vars_ = emit.lst(emit.pair(tree_term(k), tree_term(v)) for k, v in ds.vars.items())
    return ("{| g_fields := %s; g_objs := %s; g_meta := %s; g_vars := %s; g_numobs := %s; g_version := %s |}"
            % (emit.lst(ents), emit.lst(nodes), meta, vars_, emit.z(int(ds.num_obs)), emit.s(ds.version)))


def tdataset_term(ds):
    """Coq `tdataset`: the dataset with every data object unfolded; a reference to a field's object is that field"""
    fl = walk_fields(ds)
    fids = {}
    for p, f in fl:
        if f.fieldtype != "collection":
            fids.setdefault(id(f.data), p)

    def tobj(o, depth=0):
        if depth > 20:
            raise Unrepresentable("cyclic object graph")
        pl, refs = obj_payload_refs(o)
        rts = []
        for a, x in refs:
            if id(x) in fids:
                rts.append(emit.pair(emit.s(a), f"(TRF {path_term(fids[id(x)])})"))
            else:
                rts.append(emit.pair(emit.s(a), f"(TRO {tobj(x, depth + 1)})"))
        return f"(TObj {pl} {emit.lst(rts)})"

    ents = []
    for p, f in fl:
        if f.fieldtype == "collection":
            ents.append(emit.pair(path_term(p), "TColl"))
            continue
        unit = f._unit
        if unit is not None:
            unit = [unit] if isinstance(unit, str) else list(unit)
        ents.append(emit.pair(path_term(p), "(TLeaf %s %s %s %s %s)"
                              % (emit.s(f.fieldtype), emit.z(int(f._write_level)),
                                 emit.opt(None if unit is None else emit.lst(emit.s(u) for u in unit)), emit.z(int(f.multiplier)),
                                 tobj(f.data))))
    meta = emit.lst(emit.pair(emit.s(k), tree_term(v)) for k, v in ds.meta.items())
    vars_ = emit.lst(emit.pair(tree_term(k), tree_term(v)) for k, v in ds.vars.items())
    return "{| t_fields := %s; t_meta := %s; t_vars := %s; t_numobs := %s |}" % (emit.lst(ents), meta, vars_, emit.z(int(ds.num_obs)))


def oh5o_term(g, skip=()):
    import h5py
    sat, data, items = [], [], []
    for k, v in g.attrs.items():
        if k in ("fieldname", "__class__") or k in skip or k in REFNAMES:
            continue
        sat.append(emit.pair(emit.s(k), sattr(v)))
    # reference attributes in the order of the classes' attribute lists (other, ref_pos, time)
    names = [a for a in REFNAMES if a in g.attrs or (a in g and isinstance(g[a], h5py.Group))]
    names += [k for k in g if isinstance(g[k], h5py.Group) and k not in names]
    for a in names:
        if a in g.attrs:
            items.append(emit.pair(emit.s(a), f"(OIName {path_term(sattr_raw(g.attrs[a]).split('.'))})"))
        if a in g and isinstance(g[a], h5py.Group):
            items.append(emit.pair(emit.s(a), f"(OISub {oh5o_term(g[a])})"))
    for k in g:
        if isinstance(g[k], h5py.Dataset):
            data.append(emit.pair(emit.s(k), arr_term(g[k][...])))
    return ("(OH5o %s %s %s %s %s)" % (sattr(g.attrs["__class__"]), sattr(g.attrs["fieldname"]), emit.lst(sat), emit.lst(data),
                                      emit.lst(items)))


def sattr_raw(v):
    if isinstance(v, bytes):
        v = v.decode("latin1")
    if not isinstance(v, str):
        raise Unrepresentable(f"attribute value {v!r}")
    return v


def ofile2_term(path):
    import ast
    import h5py
    groups = []

    def rec(h5g, prefix):
        text = h5g.attrs["fields"]
        if not isinstance(text, str) or not text.startswith("dict "):
            raise Unrepresentable(f"fields attribute {text!r}")
        fd = ast.literal_eval(text[5:])
        extra = [k for k in h5g if isinstance(h5g[k], h5py.Group) and k not in fd and not (prefix == [] and k == "__meta__")]
        for name in list(fd.keys()) + extra:
            kind = fd.get(name, "<unlisted>")
            p = prefix + [name]
            if name not in h5g:
                groups.append(emit.pair(path_term(p), "(OColl2 \"<missing>\" (OAText \"\"))"))
                continue
            g = h5g[name]
            if kind == "collection":
                groups.append(emit.pair(path_term(p), f"(OColl2 {sattr(g.attrs['fieldname'])} {oaval_term(g.attrs['fields'])})"))
                rec(g, p)
                continue
            groups.append(emit.pair(path_term(p),
                          "(OLeaf2 {| og2_kind := %s; og2_unit := %s; og2_level := %s; og2_mult := %s; og2_obj := %s |})"
                          % (emit.s(kind), oaval_term(g.attrs["unit"]), sattr(g.attrs["write_level"]),
                             emit.z(int(g.attrs["multiplier"])), oh5o_term(g, skip=STD_ATTRS))))

    with h5py.File(path, "r") as f:
        rec(f, [])
        meta = emit.lst(emit.pair(emit.s(k), oaval_term(v)) for k, v in f["__meta__"].attrs.items())
        return ("{| of2_fields := %s; of2_numobs := %s; of2_vars := %s; of2_version := %s; of2_groups := %s; of2_meta := %s |}"
                % (oaval_term(f.attrs["fields"]), emit.z(int(f.attrs["num_obs"])), oaval_term(f.attrs["vars"]),
                   sattr(f.attrs["version"]), emit.lst(groups), meta))


def oaval_term(v):
    import numpy as np
    if isinstance(v, bytes):
        v = v.decode("latin1")
    if isinstance(v, str):
        if not all(32 <= ord(c) < 127 for c in v):
            raise Unrepresentable(repr(v))
        return f"(OAText {emit.s(v)})"
    if isinstance(v, (bool, np.bool_)):
        return f"(OABool {emit.b(v)})"
    if isinstance(v, (int, np.integer)):
        return f"(OAInt {emit.z(v)})"
    if isinstance(v, (float, np.floating)):
        return f"(OAFlt {fl_term(v)})"
    raise Unrepresentable(f"attribute {type(v)}")


def sattr(v):
    if isinstance(v, bytes):
        v = v.decode("latin1")
    if not isinstance(v, str):
        raise Unrepresentable(f"attribute value {v!r}")
    return emit.s(v)


def oobj_term(g, skip=()):
    import h5py
    sat, data = [], []
    for k, v in g.attrs.items():
        if k in ("fieldname", "__class__") or k in skip:
            continue
        sat.append(emit.pair(emit.s(k), sattr(v)))
    for k in g:
        if isinstance(g[k], h5py.Dataset):
            data.append(emit.pair(emit.s(k), arr_term(g[k][...])))
    return ("{| oo_class := %s; oo_fieldname := %s; oo_sattrs := %s; oo_data := %s |}"
            % (sattr(g.attrs["__class__"]), sattr(g.attrs["fieldname"]), emit.lst(sat), emit.lst(data)))


def ofile_term(path):
    """the file as plain h5py sees it"""
    import ast
    import h5py
    groups = []

    def fields_of(text):
        if not isinstance(text, str) or not text.startswith("dict "):
            raise Unrepresentable(f"fields attribute {text!r}")
        return ast.literal_eval(text[5:])

    def rec(h5g, prefix):
        fd = fields_of(h5g.attrs["fields"])
        listed = list(fd.keys())
        extra = [k for k in h5g if isinstance(h5g[k], h5py.Group) and k not in fd and not (prefix == [] and k == "__meta__")]
        for name in listed + extra:
            kind = fd.get(name, "<unlisted>")
            if name not in h5g:
                groups.append(emit.pair(path_term(prefix + [name]), f"(OColl \"<missing>\" (OAText \"\"))"))
                continue
            g = h5g[name]
            p = prefix + [name]
            if kind == "collection":
                groups.append(emit.pair(path_term(p), f"(OColl {sattr(g.attrs['fieldname'])} {oaval_term(g.attrs['fields'])})"))
                rec(g, p)
                continue
            refattrs = [(k, g.attrs[k]) for k in g.attrs if k in REFNAMES]
            subs = []
            for k in g:
                if isinstance(g[k], h5py.Group):
                    if any(isinstance(g[k][kk], h5py.Group) for kk in g[k]) or any(a in REFNAMES for a in g[k].attrs):
                        raise Unrepresentable("nested private object")
                    subs.append(emit.pair(emit.s(k), oobj_term(g[k])))
            obj = oobj_term(g, skip=STD_ATTRS + REFNAMES)
            groups.append(emit.pair(path_term(p),
                          "(OLeaf {| og_kind := %s; og_unit := %s; og_level := %s; og_mult := %s; og_obj := %s; og_refattrs := %s; og_subs := %s |})"
                          % (emit.s(kind), oaval_term(g.attrs["unit"]), sattr(g.attrs["write_level"]),
                             emit.z(int(g.attrs["multiplier"])), obj,
                             emit.lst(emit.pair(emit.s(k), sattr(v)) for k, v in refattrs), emit.lst(subs))))

    with h5py.File(path, "r") as f:
        rec(f, [])
        meta = emit.lst(emit.pair(emit.s(k), oaval_term(v)) for k, v in f["__meta__"].attrs.items())
        return ("{| of_fields := %s; of_numobs := %s; of_vars := %s; of_version := %s; of_groups := %s; of_meta := %s |}"
                % (oaval_term(f.attrs["fields"]), emit.z(int(f.attrs["num_obs"])), oaval_term(f.attrs["vars"]),
                   sattr(f.attrs["version"]), emit.lst(groups), meta))


# ----------------------------------------------------------------------------- dataset generator
TEXTS = ["", "a", "nan", "inf", " lead", "trail ", "it's", 'q"uote', "x y", "nan inf", "-inf", "NaN", "abc def", "#1", "\\", "0"]
LEAF_KINDS = ["float", "float", "bool", "text", "sigma", "time", "time_delta",
              "position", "position", "posvel", "position_delta", "posvel_delta"]
POSLIKE = ("position", "posvel", "position_delta", "posvel_delta")


def gen_spec(rng, with_text):
    """A dataset plan: list of dicts(path, kind, level, ...) in dataset order plus a reference plan."""
    n = rng.choice([0, 1, 2, 3, 3, 4, 5, 6])
    nf = rng.choice([1, 2, 3, 4, 5, 6, 8])
    colls = rng.choice([[], [], [["g"]], [["g"]], [["g"], ["g", "h"]], [["g"], ["k"]], [["g"], ["g", "h"], ["k"]]])
    kinds = [k for k in LEAF_KINDS if with_text or k != "text"]
    leaves = []
    for i in range(nf):
        kind = rng.choice(kinds)
        prefix = rng.choice([[]] * 3 + colls) if colls else []
        level = rng.choice(["operational", "operational", "operational", "analysis", "detail", None])
        leaves.append(dict(path=prefix + [f"{kind[:2]}{i}"], kind=kind, level=level))
    # dataset order: group by first component keeping first-appearance order (what the nested dicts give anyway)
    rng.shuffle(leaves)
    # reference plan over position-like leaves: creation order pi, references only to objects created earlier
    pos = [l for l in leaves if l["kind"] in POSLIKE]
    times = [l for l in leaves if l["kind"] == "time"]
    pi = pos[:]
    rng.shuffle(pi)
    made = []
    for l in pi:
        l["refs"] = {}
        attrs = {"position": ["other", "time"], "posvel": ["other"], "position_delta": ["ref_pos"], "posvel_delta": ["ref_pos"]}[l["kind"]]
        for a in attrs:
            r = rng.random()
            if a == "time":
                if times and r < 0.4:
                    l["refs"][a] = ("field", rng.choice(times))
                elif r < 0.5:
                    l["refs"][a] = ("owned", "time")
                continue
            want = {"other": ("position", "posvel"), "ref_pos": ("position",) if l["kind"] == "position_delta" else ("posvel",)}[a]
            if a == "other":
                want = (l["kind"],)
            cands = [m for m in made if m["kind"] in want]
            if cands and r < 0.6:
                l["refs"][a] = ("field", rng.choice(cands))
            elif r < 0.8:
                l["refs"][a] = ("owned", want[0])
        made.append(l)
    return dict(n=n, leaves=leaves, pi=pi, colls=colls, rich=rng.random() < 0.35)


def lvl_num(l):
    return 3 if l["level"] is None else LEVELS[l["level"]]


def prune_refs(spec):
    """keep the plan inside the model: a field that may be stored as a private copy (target below the
    referrer's level, or forward target nested >= 3 deep) must not have references of its own"""
    order = {id(l): i for i, l in enumerate(spec["leaves"])}
    for l in spec["pi"]:
        for a, (how, tgt) in list(l.get("refs", {}).items()):
            if how != "field":
                continue
            may_copy = lvl_num(tgt) < lvl_num(l) or (len(tgt["path"]) >= 3)
            if may_copy and tgt.get("refs"):
                del l["refs"][a]


def build_dataset(rng, spec):
    import numpy as np
    from midgard.data import dataset, position
    from midgard.data.time import Time, TimeDelta
    n = spec["n"]

    def fvals(shape):
        return np.array([gen_float(rng) for _ in range(int(np.prod(shape)))], dtype=float).reshape(shape)

    def finite(shape, lo=-7e6, hi=7e6):
        return np.array([rng.uniform(lo, hi) if rng.random() < 0.9 else float(rng.randrange(-3, 4)) for _ in range(int(np.prod(shape)))],
                        dtype=float).reshape(shape)

    def mk_time():
        return Time(np.array([rng.choice([51544.5, 58000.0, 58849.0 + rng.random(), 40000 + rng.randrange(20000) + rng.random()])
                              for _ in range(n)], dtype=float), scale=rng.choice(["utc", "gps", "tt", "tai"]), fmt="mjd")

    def mk_obj(kind, refs):
        system = rng.choice(["trs", "trs", "llh"] if kind == "position" else ["trs"] if kind == "posvel" else ["trs", "enu"])
        if kind == "position":
            kw = dict(refs)
            if rng.random() < 0.3:
                from midgard.math import ellipsoid
                kw["ellipsoid"] = ellipsoid.WGS84
            return position.Position(finite((n, 3)), system=system, **kw)
        if kind == "posvel":
            return position.PosVel(finite((n, 6)), system=system, **refs)
        if kind == "position_delta":
            return position.PositionDelta(finite((n, 3), -10, 10), system=system, **refs)
        if kind == "posvel_delta":
            return position.PosVelDelta(finite((n, 6), -10, 10), system=system, **refs)
        raise ValueError(kind)

    rich = spec.get("rich", False)
    pool = {}            # kind -> private objects made so far (rich: may be shared)

    def private(kind):
        """a private attribute object; rich datasets share them and give them references of their own"""
        if rich and pool.get(kind) and rng.random() < 0.4:
            return rng.choice(pool[kind])
        refs = {}
        if rich and kind == "position" and rng.random() < 0.5:
            r = rng.random()
            made_pos = [o for o in objs.values() if getattr(o, "cls_name", "") == "PositionArray"]
            if r < 0.35:
                refs["time"] = private("time")
            elif r < 0.7 and made_pos:
                refs["other"] = rng.choice(made_pos)            # private object -> field object
            elif r < 0.85:
                refs["time"] = private("time")
                if pool.get("position"):
                    refs["other"] = rng.choice(pool["position"])   # private -> private under the same name: HDF5 refuses
        o = mk_time() if kind == "time" else mk_obj(kind, refs)
        pool.setdefault(kind, []).append(o)
        return o

    # times first (they can be referenced), then position-like objects in creation order
    objs = {}
    for l in spec["leaves"]:
        if l["kind"] == "time":
            objs[id(l)] = mk_time()
    for l in spec["pi"]:
        refs = {}
        for a, (how, tgt) in l.get("refs", {}).items():
            if how == "field":
                refs[a] = objs[id(tgt)]
            else:
                refs[a] = private(tgt)
        if l["kind"] == "position_delta" and "ref_pos" not in refs:
            refs["ref_pos"] = private("position")
        if l["kind"] == "posvel_delta" and "ref_pos" not in refs:
            refs["ref_pos"] = private("posvel")
        objs[id(l)] = mk_obj(l["kind"], refs)

    ds = dataset.Dataset(n)
    for c in spec["colls"]:
        if rng.random() < 0.3:
            ds.add_collection(".".join(c))          # possibly empty collection
    for l in spec["leaves"]:
        name = ".".join(l["path"])
        kw = {} if l["level"] is None else {"write_level": l["level"]}
        k = l["kind"]
        if k == "float":
            two = rng.random() < 0.3
            unit = rng.choice([None, None, "meter", "second"])
            if two:
                unit = rng.choice([None, ("meter", "second"), "meter"])
            if rng.random() < 0.3:
                kw["multiplier"] = rng.choice([10, -1, 1000, 0])
            ds.add_float(name, val=fvals((n, 2) if two else (n,)), unit=unit, **kw)
        elif k == "bool":
            ds.add_bool(name, val=np.array([rng.random() < 0.5 for _ in range(n)], dtype=bool), **kw)
        elif k == "text":
            if rng.random() < 0.35:       # 2-d text: rows x columns, strings longer than the number of columns
                cols = rng.choice([1, 2, 3])
                ds.add_text(name, val=np.array([[rng.choice(TEXTS) for _ in range(cols)] for _ in range(n)], dtype=str).reshape(n, cols), **kw)
            else:
                ds.add_text(name, val=[rng.choice(TEXTS) for _ in range(n)], **kw)
        elif k == "sigma":
            ds.add_sigma(name, val=fvals((n,)), sigma=fvals((n,)), unit=rng.choice([None, "meter"]), **kw)
        elif k == "time":
            ds.add_time(name, val=objs[id(l)], **kw)
        elif k == "time_delta":
            ds.add_time_delta(name, val=np.array([rng.uniform(-1e5, 1e5) for _ in range(n)], dtype=float),
                              scale=rng.choice(["utc", "gps"]), fmt=rng.choice(["seconds", "days"]), **kw)
        else:
            getattr(ds, f"add_{k}")(name, val=objs[id(l)], **kw)
    return ds


def gen_meta(rng, ds, dirty):
    for i in range(rng.choice([0, 1, 2, 3, 4])):
        v = gen_tree(rng, 3, dirty)
        if v is None:
            v = "none"
        ds.meta[f"m{i}"] = v
    if rng.random() < 0.4:
        ds.meta.add("name", gen_str(rng, dirty), section="sect")
    for i in range(rng.choice([0, 0, 1, 2])):
        ds.vars[f"v{i}"] = gen_str(rng, False)


def run_dataset_case(ctx, idx, rng, corpus=None, reread=False):
    """build, write, inspect, read, describe -> (case term for Model/C10_File or None, replay dict, info);
    info["g_case"]: the case for Model/C10_Graph (always); with reread: info["reread_term"]"""
    import numpy as np
    from midgard.data import dataset
    with_text = rng.random() < 0.4
    dirty = rng.random() < 0.12
    rich = False
    if corpus is not None:
        ds, lvl, tag = corpus()
        rich = tag.startswith("graph:")
    else:
        spec = gen_spec(rng, with_text)
        rich = spec["rich"]
        if not rich:
            prune_refs(spec)
        ds = build_dataset(rng, spec)
        gen_meta(rng, ds, dirty)
        lvl = rng.choice(["detail", "detail", "analysis", "operational", None])
        tag = "random-rich" if rich else "random"
    info = {}

    def v1(fn):
        """a description in the restricted model; None when the dataset is outside it"""
        try:
            return fn()
        except Unrepresentable:
            return None

    d_term = None if rich else v1(lambda: dataset_term(ds, info))
    g_term = graph_term(ds, info)
    info["g_term"] = g_term
    lvl_n = 1 if lvl is None else LEVELS[lvl]
    if d_term is not None:
        info["hyp_term"] = emit.pair(d_term, emit.z(lvl_n))
    path = os.path.join(ctx.work, f"ds_{idx:05d}.hdf5")
    rep = dict(kind="dataset", tag=tag, index=idx, write_level=lvl,
               fields=[(".".join(p), f.fieldtype, f._write_level.name) for p, f in walk_fields(ds)],
               references=info.get("refs", []), private_objects=info.get("n_private"), meta=repr(dict(ds.meta))[:600],
               num_obs=int(ds.num_obs),
               how="generated by harness/drivers/c10.py (same VERIF_SEED, same index); ds.write(path, write_level); Dataset.read(path)")
    try:
        with warnings.catch_warnings():
            warnings.simplefilter("ignore")
            ds.write(path, write_level=lvl)
    except Exception as ex:  # noqa: BLE001
        rep["write_raised"] = f"{type(ex).__name__}: {ex}"[:300]
        if os.path.exists(path):
            os.remove(path)
        info["g_case"] = emit.pair(g_term, emit.z(lvl_n), f"(OW2Raise {emit.s(type(ex).__name__)})", "OR2NotRun")
        t1 = None if d_term is None else emit.pair(d_term, emit.z(lvl_n), f"(OWRaise {emit.s(type(ex).__name__)})", "ORNotRun")
        return t1, rep, info
    ow = v1(lambda: f"(OWFile {ofile_term(path)})") if d_term is not None else None
    ow2 = f"(OW2File {ofile2_term(path)})"
    digest0 = file_digest(path) if reread else None
    back = None
    ord_ = None
    try:
        with warnings.catch_warnings():
            warnings.simplefilter("ignore")
            back = dataset.Dataset.read(path)
        ord2 = f"(OR2Data {tdataset_term(back)})"
        rep["read_fields"] = [(".".join(p), f.fieldtype) for p, f in walk_fields(back)]
        if ow is not None:
            info2 = {}
            od = v1(lambda: dataset_term(back, info2))
            if od is not None:
                ord_ = f"(ORData {od})"
                # diagnosis only (the verdict is Coq's): which written fields are described differently after reading
                e1, e2 = info.get("entries", {}), info2.get("entries", {})
                what = ["level", "payload (class/attributes/arrays)", "references", "unit", "multiplier"]
                rep["diagnosis"] = [f"{k}: {what[i]} differ" for k in e1 if e1[k][0] >= lvl_n and k in e2
                                    for i in range(5) if e1[k][i] != e2[k][i]][:8] + \
                                   [f"{k}: missing after read" for k in e1 if e1[k][0] >= lvl_n and k not in e2][:4] + \
                                   [f"{k}: unexpected after read" for k in e2 if k not in e1 or e1[k][0] < lvl_n][:4]
        if repr(dict(back.meta)) != repr(dict(sorted(ds.meta.items()))):
            rep["meta_after"] = repr(dict(back.meta))[:600]
        if dict(back.vars) != dict(ds.vars):
            rep["vars_before_after"] = [repr(dict(ds.vars))[:300], repr(dict(back.vars))[:300]]
    except Unrepresentable:
        raise
    except Exception as ex:  # noqa: BLE001
        ord_ = f"(ORRaise {emit.s(type(ex).__name__)})"
        ord2 = f"(OR2Raise {emit.s(type(ex).__name__)})"
        rep["read_raised"] = f"{type(ex).__name__}: {ex}"[:300]
    info["g_case"] = emit.pair(g_term, emit.z(lvl_n), ow2, ord2)
    t1 = None if (ow is None or ord_ is None) else emit.pair(d_term, emit.z(lvl_n), ow, ord_)
    if reread and t1 is not None:
        info["reread_term"] = emit.pair(d_term, emit.z(lvl_n), ow, ord_, *reread_observation(path, back, digest0, rep))
    if not os.environ.get("VERIF_KEEP_WORK"):
        os.remove(path)
    return t1, rep, info


def reread_observation(path, back, digest0, rep):
    """the reader goes on working with the dataset it read (changes meta, vars and an array in place); the untouched file is
    read again -> (second observation, file bytes unchanged, the two datasets share mutable objects)"""
    import numpy as np
    from midgard.data import dataset
    ids1, arrays1 = [], []
    if back is not None:
        for v in back.meta.values():
            container_ids(v, ids1)
        for v in list(back.meta.values()):
            mutate_in_place(v)
        back.meta[MUT] = [1]
        back.vars[MUT] = "x"
        for p, f in walk_fields(back):
            if f.fieldtype == "collection":
                continue
            a = np.asarray(f.data)
            arrays1.append((".".join(p), a))
            if a.dtype.kind == "f" and a.size and a.flags.writeable and "array_changed" not in rep:
                a[...] = 12345.678
                rep["array_changed"] = ".".join(p)
    try:
        with warnings.catch_warnings():
            warnings.simplefilter("ignore")
            back2 = dataset.Dataset.read(path)
        ord2 = f"(ORData {dataset_term(back2)})"
    except Unrepresentable:
        raise
    except Exception as ex:  # noqa: BLE001
        back2 = None
        ord2 = f"(ORRaise {emit.s(type(ex).__name__)})"
        rep["second_read_raised"] = f"{type(ex).__name__}: {ex}"[:300]
    aliased = False
    if back2 is not None:
        ids2 = []
        for v in back2.meta.values():
            container_ids(v, ids2)
        aliased = len(set(ids2)) != len(ids2) or bool(set(ids1) & set(ids2))
        a2 = {".".join(p): np.asarray(f.data) for p, f in walk_fields(back2) if f.fieldtype != "collection"}
        aliased = aliased or any(k in a2 and a.size and np.shares_memory(a, a2[k]) for k, a in arrays1)
        rep["meta_second_read"] = repr(dict(back2.meta))[:600]
    same_bytes = file_digest(path) == digest0
    rep["reread"] = dict(file_bytes_unchanged=same_bytes, datasets_share_objects=aliased,
                         how="r1 = Dataset.read(p); change r1.meta / r1.vars / an array of r1 in place; r2 = Dataset.read(p)")
    return ord2, emit.b(same_bytes), emit.b(aliased)


# ----------------------------------------------------------------------------- corpus: topologies seen to fail
def corpus_cases():
    import numpy as np
    from midgard.data import dataset, position

    def P(n, k=1.0):
        return np.ones((n, 3)) * k

    def dangling():
        d = dataset.Dataset(2)
        d.add_position("sat", val=P(2), system="trs", write_level="analysis")
        d.add_position("site", val=P(2, 2), system="trs", other=d.sat, write_level="operational")
        return d, "operational", "corpus:dangling"

    def forward_top():
        d = dataset.Dataset(2)
        sat = position.Position(P(2), system="trs")
        d.add_position("site", val=P(2, 2), system="trs", other=sat)
        d.add_position("sat", val=sat)
        return d, None, "corpus:forward_top"

    def coll_forward():
        d = dataset.Dataset(2)
        sat = position.Position(P(2), system="trs")
        d.add_position("g.site", val=P(2, 2), system="trs", other=sat)
        d.add_position("g.sat", val=sat)
        return d, None, "corpus:coll_forward"

    def coll_to_top_forward():
        d = dataset.Dataset(2)
        sat = position.Position(P(2), system="trs")
        d.add_position("g.site", val=P(2, 2), system="trs", other=sat)
        d.add_position("sat", val=sat)
        return d, None, "corpus:coll_to_top_forward"

    def nested_forward():
        d = dataset.Dataset(2)
        sat = position.Position(P(2), system="trs")
        d.add_position("g.h.site", val=P(2, 2), system="trs", other=sat)
        d.add_position("g.h.sat", val=sat)
        return d, None, "corpus:nested_forward"

    def nested_backward():
        d = dataset.Dataset(2)
        d.add_position("g.h.sat", val=P(2), system="trs")
        d.add_position("g.h.site", val=P(2, 2), system="trs", other=d.g.h.sat)
        d.add_position_delta("g.h.dl", val=P(2, 0.5), system="trs", ref_pos=d.g.h.site)
        return d, "analysis", "corpus:nested_backward"

    def chain():
        d = dataset.Dataset(3)
        d.add_posvel("a", val=np.ones((3, 6)), system="trs")
        d.add_posvel("b", val=np.ones((3, 6)) * 2, system="trs", other=d.a)
        d.add_posvel_delta("c", val=np.ones((3, 6)) * 3, system="trs", ref_pos=d.b)
        d.meta["nanword"] = "a nan b"
        return d, None, "corpus:chain+nanword"

    def meta_only():
        d = dataset.Dataset(0)
        d.meta["x"] = {"a": "nan"}
        return d, None, "corpus:meta_nan"

    def text_levels():
        d = dataset.Dataset(2)
        d.add_text("text", val=["hello", " nan"], write_level="operational")
        d.add_text("textagain", val=["it's", 'q"'], write_level="analysis")
        return d, "operational", "corpus:text_levels"

    # object graphs outside Model/C10_File.v (shared / nested private objects, dropped fields with references)
    def shared_confusion():
        d = dataset.Dataset(2)
        o1, o2 = position.Position(P(2, 1), system="trs"), position.Position(P(2, 2), system="trs")
        d.add_position("a", val=P(2, 10), system="trs", other=o1)
        d.add_position("b", val=P(2, 20), system="trs", other=o2)
        d.add_position("c", val=P(2, 30), system="trs", other=o1)
        return d, None, "graph:shared_confusion"

    def shared_ondemand():
        d = dataset.Dataset(2)
        o = position.Position(P(2, 9), system="trs")
        bobj = position.Position(P(2, 20), system="trs", other=o)
        d.add_position("x", val=P(2, 5), system="trs", other=bobj)
        d.add_position("a", val=P(2, 10), system="trs", other=o)
        d.add_position("b", val=bobj)
        return d, None, "graph:shared_ondemand"

    def private_to_field():
        d = dataset.Dataset(2)
        d.add_position("g.s", val=P(2, 7), system="trs")
        o = position.Position(P(2, 9), system="trs", other=d.g.s)
        d.add_position_delta("a", val=P(2, 0.5), system="trs", ref_pos=o)
        d.add_position_delta("g.h.b", val=P(2, 0.25), system="trs", ref_pos=o)
        return d, None, "graph:private_to_field"

    def nested_same_name():
        d = dataset.Dataset(2)
        o2 = position.Position(P(2, 2), system="trs")
        o1 = position.Position(P(2, 1), system="trs", other=o2)
        d.add_position("a", val=P(2, 10), system="trs", other=o1)
        return d, None, "graph:nested_same_name"

    def dropped_with_refs(lvl):
        def build():
            d = dataset.Dataset(2)
            d.add_position("g.h.s", val=P(2, 7), system="trs", write_level="analysis")
            d.add_position("g.t", val=P(2, 3), system="trs", other=d.g.h.s, write_level="detail")
            d.add_position_delta("a", val=P(2, 0.5), system="trs", ref_pos=d.g.t)
            d.add_position_delta("g.h.b", val=P(2, 0.25), system="trs", ref_pos=d.g.t)
            return d, lvl, f"graph:dropped_with_refs:{lvl}"
        return build

    # 2-d text fields (rows x columns; strings longer than the number of columns), top level and in collections
    def text_2d(rows, cols):
        def build():
            d = dataset.Dataset(rows)
            words = ["a", "nan inf", " lead", "it's", "trail ", "abc def ghi", "", "0123456789"]
            val = np.array([[words[(r * cols + c) % len(words)] for c in range(cols)] for r in range(rows)], dtype=str).reshape(rows, cols)
            d.add_text("t2", val=val)
            d.add_text("g.t2", val=val[:, ::-1].copy(), write_level="analysis")
            d.add_text("g.h.t2", val=np.char.add(val, "x"))
            d.add_text("t1", val=[w + "yz" for w in val[:, 0]])
            return d, "analysis", f"corpus:text_2d:{rows}x{cols}"
        return build

    # a field literally named like a reference attribute, next to an object embedded under that attribute
    from midgard.data.time import Time

    def T(k):
        return Time(np.array([58000.0 + k, 58001.5 + k]), scale="utc" if k % 2 else "gps", fmt="mjd")

    def named_like_attr(attr, variant):
        def build():
            d = dataset.Dataset(2)

            def embedded(k):
                return T(k) if attr == "time" else position.Position(P(2, 9 + k), system="trs")

            def add_holder(name, obj, **kw):
                if attr == "ref_pos":
                    d.add_position_delta(name, val=P(2, 0.5), system="trs", ref_pos=obj, **kw)
                else:
                    d.add_position(name, val=P(2, 2), system="trs", **{attr: obj}, **kw)

            def add_named(**kw):
                if attr == "time":
                    d.add_time(attr, val=T(100), **kw)
                else:
                    d.add_position(attr, val=P(2, 5), system="trs", **kw)

            if variant == "holder_first":            # the embedded object is read before the field named like the attribute
                add_holder("a", embedded(1))
                add_named()
            elif variant == "field_first":            # ... after it, and a third field refers to the field by name
                add_named()
                add_holder("a", embedded(1))
                add_holder("c", getattr(d, attr))
            elif variant == "dropped":                # embedded because the referred field is below the write level
                if attr == "time":
                    d.add_time("low", val=T(3), write_level="detail")
                else:
                    d.add_position("low", val=P(2, 7), system="trs", write_level="detail")
                add_holder("g.a", d.low)
                add_named()
                add_holder("c", getattr(d, attr))
            return d, ("operational" if variant == "dropped" else None), f"graph:named_like_attr:{attr}:{variant}"
        return build

    named = [named_like_attr(a, v) for a in ("time", "other", "ref_pos") for v in ("holder_first", "field_first", "dropped")]
    return [dangling, forward_top, coll_forward, coll_to_top_forward, nested_forward, nested_backward, chain, meta_only, text_levels,
            shared_confusion, shared_ondemand, private_to_field, nested_same_name,
            dropped_with_refs("operational"), dropped_with_refs("analysis"), dropped_with_refs("detail"),
            text_2d(1, 2), text_2d(3, 2), text_2d(2, 3), text_2d(4, 1)] + named


def grid_cases(full):
    """references between every pair of places (top level, collection g, nested collection g.h) x both orders of
    the two fields x write-level combinations (level of the referred field, of the referring field, of the write);
    quick: the four combinations that differ in what must happen, thorough: all 27"""
    import numpy as np
    from midgard.data import dataset, position
    places = [[], ["g"], ["g", "h"]]
    names = ["detail", "analysis", "operational"]
    if full:
        combos = [(a, b, c) for a in names for b in names for c in names]
    else:
        combos = [("detail", "operational", "operational"),     # referred field omitted: private copy
                  ("detail", "operational", "detail"),          # both written: reference by name
                  ("analysis", "operational", "analysis"),      # referred field exactly at the level
                  ("operational", "detail", "analysis")]        # referring field omitted
    out = []
    k = 0
    for tp in places:
        for rp in places:
            for target_first in (True, False):
                for (tl, rl, wl) in combos:
                    k += 1

                    def build(tp=tp, rp=rp, target_first=target_first, tl=tl, rl=rl, wl=wl, k=k):
                        d = dataset.Dataset(2)
                        tname, rname = ".".join(tp + ["tg"]), ".".join(rp + ["rf"])
                        delta = k % 2 == 0
                        tgt = position.Position(np.array([[3.0e6, 1.0e6 + k, 5.0e6], [3.1e6, 1.1e6, 5.1e6 - k]]), system="trs")

                        def add_ref():
                            if delta:
                                d.add_position_delta(rname, val=np.array([[0.1, 0.2, 0.3], [0.4, 0.5, 0.25 * k]]), system="trs",
                                                     ref_pos=tgt, write_level=rl)
                            else:
                                d.add_position(rname, val=np.array([[1.0, 2.0, 3.0 + k], [4.0, 5.0, 6.0]]), system="trs",
                                               other=tgt, write_level=rl)
                        if k % 3 == 0:
                            d.add_float("g.h.ht", val=[10.5, 11.5], unit="meter")
                        if target_first:
                            d.add_position(tname, val=tgt, write_level=tl)
                            add_ref()
                        else:
                            add_ref()
                            d.add_position(tname, val=tgt, write_level=tl)
                        tag = f"grid:{tname}({tl})<-{rname}({rl}):{'target' if target_first else 'referrer'}-first:write={wl}"
                        return d, wl, tag
                    out.append(build)
    return out


def outside_cases():
    """datasets the models exclude by `wf` (a leaf named like a reference attribute while some field keeps a private
    object under that attribute); the property is judged directly: what is read must be what was written"""
    import numpy as np
    from midgard.data import dataset, position

    def shadow_float():
        d = dataset.Dataset(2)
        d.add_position("a", val=np.ones((2, 3)) * 2, system="trs", other=position.Position(np.ones((2, 3)) * 9, system="trs"))
        d.add_float("other", val=[1.0, 2.0])
        return d, None, "c10_attr_name_shadows_field:float"

    def shadow_position():
        d = dataset.Dataset(2)
        d.add_position_delta("dl", val=np.ones((2, 3)), system="trs", ref_pos=position.Position(np.ones((2, 3)) * 9, system="trs"))
        d.add_position("ref_pos", val=np.ones((2, 3)) * 5, system="trs")
        return d, None, "c10_attr_name_shadows_field:position"

    def no_shadow():
        d = dataset.Dataset(2)
        d.add_float("other", val=[1.0, 2.0])
        d.add_position("a", val=np.ones((2, 3)) * 2, system="trs", other=position.Position(np.ones((2, 3)) * 9, system="trs"))
        return d, None, "c10_attr_name_shadows_field:control"

    return [shadow_float, shadow_position, no_shadow]


# ============================================================================= the run
def run(ctx):
    import numpy as np  # noqa: F401
    from midgard.data import _h5utils as H
    from midgard.data import _position, position
    if "time" not in position.PositionArray._attributes():
        _position.register_attribute(position.PositionArray, "time")     # as `where` does; public registration API

    ok = ctx.prove(THEOREMS)
    rng = ctx.rng
    n_attr = 3200 if ctx.quick() else 30000
    n_ds = 300 if ctx.quick() else 3000

    # ---- A. codec
    casesA, metaA = [], []
    fixed = ["nan", "a nan b", "inf", "-inf", "x-inf", {"a": "nan"}, ["inf"], ["'nan'"], ["it's nan"], {float("inf"): 1},
             [float("nan")], [float("inf"), -float("inf")], {"a": float("nan")}, (1,), (), [], set(), {}, [set()], [()],
             {(1, 2): 3}, {None: 1}, [True, 1, 1.0], ["it's \"q\""], ["a\\b"], [-0.0, 1e22, 5e-324], "", " lead",
             {"a": {"b": {"c": [1, (2, {3})]}}}, [-5, -2.5], None, True, 3, 2.5, float("nan"), ["\\nan"], ["x'-inf"]]
    k = 0
    while len(casesA) < n_attr:
        if k < len(fixed):
            v = fixed[k]
        else:
            dirty = rng.random() < 0.2
            v = gen_tree(rng, rng.choice([1, 2, 3, 4]), dirty)
        k += 1
        try:
            term, rep = attr_case(H, v)
        except Unrepresentable:
            continue
        casesA.append(term)
        metaA.append(rep)
        ctx.count("attr:" + type(v).__name__)
        nontriv = isinstance(v, (list, tuple, set, dict)) and len(v) > 0
        ctx.case(("A", canon(v)), nontrivial=nontriv, sample=rep if nontriv and len(metaA) % 500 == 7 else None)
    ctx.log(f"A: {len(casesA)} codec cases generated")
    vsA = ctx.coq_cases(emit.shard_terms("check_attr3", casesA, 100), REQ)
    ctx.log("A: evaluated in Coq")
    flatA = emit.flatten_verdicts(vsA, len(casesA))

    # ---- B. datasets
    casesB, metaB, hypB = [], [], []
    casesR, metaR = [], []
    casesG, metaG, hypG = [], [], []
    corp = corpus_cases()
    n_hand = len(corp)
    corp = corp + grid_cases(not ctx.quick())
    n_ds += len(corp) - 16          # the random stream keeps its size when the directed corpus grows
    idx = 0
    skipped = 0
    n_done = 0
    while n_done < n_ds and idx < n_ds * 3:
        c = corp[idx] if idx < len(corp) else None
        try:
            term, rep, info = run_dataset_case(ctx, idx, rng, corpus=c, reread=(idx % 3 == 0 or idx < 9))
        except Unrepresentable as ex:
            skipped += 1
            ctx.count("dataset:outside-model")
            ctx.notes.append(f"dataset {idx} outside the model: {ex}"[:200]) if skipped <= 5 else None
            idx += 1
            continue
        idx += 1
        casesG.append(info.pop("g_case"))
        hypG.append(info.pop("g_term"))
        metaG.append(dict(rep, kind="dataset (object graph model)"))
        n_done += 1
        if term is not None:
            casesB.append(term)
            metaB.append(rep)
            hypB.append(info.pop("hyp_term"))
        else:
            ctx.count("dataset:graph-model-only")
        if "reread_term" in info:
            casesR.append(info.pop("reread_term"))
            metaR.append(dict(rep, kind="dataset-read-twice"))
            ctx.count("dataset:read-twice")
        if rep["tag"].startswith("grid:"):
            ctx.count("dataset:grid")
        ctx.count(f"dataset:level:{rep['write_level']}")
        ctx.count(f"dataset:nfields:{len(rep['fields'])}")
        ctx.count(f"dataset:nrefs:{len(rep['references'])}")
        ctx.count(f"dataset:rows:{rep['num_obs']}")
        for _, kind, _ in rep["fields"]:
            ctx.count(f"kind:{kind}")
        if "write_raised" in rep:
            ctx.count("dataset:write-raised:" + rep["write_raised"].split(":")[0])
        if "read_raised" in rep:
            ctx.count("dataset:read-raised:" + rep["read_raised"].split(":")[0])
        nontriv = len(rep["fields"]) >= 2 and "write_raised" not in rep
        ctx.case(("B", json.dumps(rep["fields"]), json.dumps(rep["references"]), rep["write_level"], rep["meta"], rep["num_obs"], idx),
                 nontrivial=nontriv, sample=rep if nontriv and len(metaB) % 60 == 11 else None)
    ctx.log(f"B/G: {len(casesG)} datasets written and read")
    shB, szB = shards_with_hyp("check_run", "hyp_case", casesB)
    flatB, flatH = split_with_hyp(ctx.coq_cases(shB, REQ + "\nFrom Verif Require Import Proofs.C10_FileTop."), szB)
    ctx.log("B: evaluated in Coq")
    # how many generated datasets meet the hypotheses of file_roundtrip (wf, tree_shaped, closed) / graph_roundtrip (gwf)
    for h in flatH or []:
        ctx.count("hypotheses:" + "+".join(n for bit, n in ((1, "wf"), (2, "tree"), (4, "closed")) if h & bit))
    if flatH is not None and any(h & 3 != 3 for h in flatH):
        ctx.notes.append("some generated datasets are outside wf/tree_shaped: the generator left the modelled domain")
    shG, szG = shards_with_hyp("check_run2", "hyp_case2", casesG)
    flatG, flatH2 = split_with_hyp(ctx.coq_cases(shG, REQ2 + "\nFrom Verif Require Import Proofs.C10_GraphTop."), szG)
    ctx.log("G: evaluated in Coq")
    for h in flatH2 or []:
        ctx.count("hypotheses:graph:" + ("gwf" if h else "outside-gwf"))
    vsR = ctx.coq_cases(emit.shard_terms("check_reread", casesR, max(1, -(-len(casesR) // 32))), REQ)
    flatR = emit.flatten_verdicts(vsR, len(casesR))

    # ---- C. topologies outside the models' well-formedness domain, judged by the property itself on observables
    casesC, metaC = [], []
    for build in outside_cases():
        ds, lvl, tag = build()
        path = os.path.join(ctx.work, f"out_{len(casesC)}.hdf5")
        rep = dict(kind="dataset-outside-model", tag=tag, write_level=lvl,
                   fields=[(".".join(p), f.fieldtype, f._write_level.name) for p, f in walk_fields(ds)],
                   how="see outside_cases() in harness/drivers/c10.py; ds.write(path); Dataset.read(path); compared field by field")
        d_term = dataset_term(ds)
        try:
            with warnings.catch_warnings():
                warnings.simplefilter("ignore")
                ds.write(path, write_level=lvl)
                from midgard.data import dataset as _ds
                back = _ds.Dataset.read(path)
            ord_ = f"(ORData {dataset_term(back)})"
            rep["read_back"] = {".".join(p): (type(f.data).__name__, np.asarray(f.data).tolist() if f.fieldtype != "collection" else None)
                                for p, f in walk_fields(back)}
        except Exception as ex:  # noqa: BLE001
            ord_ = f"(ORRaise {emit.s(type(ex).__name__)})"
            rep["raised"] = f"{type(ex).__name__}: {ex}"[:300]
        if os.path.exists(path):
            os.remove(path)
        casesC.append(emit.pair(d_term, emit.z(1 if lvl is None else LEVELS[lvl]), ord_))
        metaC.append(rep)
        ctx.count("outside:" + tag)
        ctx.case(("C", tag), nontrivial=True)
    vsC = ctx.coq_cases(emit.shard_terms("roundtrip_run", casesC, 20), REQ)
    flatC = emit.flatten_verdicts(vsC, len(casesC))
    if flatC is None:
        ctx.violation({"broken": "correspondence shard C did not evaluate in Coq", "errors": ctx.last_coq_errors[:2]},
                      what="correspondence (model evaluation) failed", found=False)
    else:
        for v, rep in zip(flatC, metaC):
            if v != 0:
                fid = rep["tag"].split(":")[0]
                ctx.count("quirk:" + fid)
                ctx.finding(fid, "a field named like a reference attribute (other/ref_pos/time) is read back with the data of another field's private attribute object", rep)

    # ---------------------------------------------------------------- decide
    for name, flat, meta in (("A", flatA, metaA), ("B", flatB, metaB), ("R", flatR, metaR), ("G", flatG, metaG)):
        if flat is None:
            ctx.violation({"broken": f"correspondence shard {name} did not evaluate in Coq", "errors": ctx.last_coq_errors[:2]},
                          what="correspondence (model evaluation) failed", found=False)
            continue
        terms = {"G": casesG, "B": casesB}.get(name)
        for n_, (v, rep) in enumerate(zip(flat, meta)):
            if v == 0:
                continue
            rep = dict(rep, verdict=v)
            if v == 1 and terms is not None and len(terms[n_]) < 200000:
                rep["coq_case"] = terms[n_]          # evaluate with check_run / check_run2 to replay the comparison
            if v in QUIRK_OF_VERDICT:
                ctx.count(f"quirk:{QUIRK_OF_VERDICT[v][0]}")
                ctx.finding(QUIRK_OF_VERDICT[v][0], QUIRK_OF_VERDICT[v][1], rep)
            elif v >= 100:
                # several quirks at once: every one of them must be a listed open finding
                mask = v - 100
                ids = [QUIRK_OF_VERDICT[q][0] for bit, q in ((1, 2), (2, 3), (4, 4), (8, 5)) if mask & bit]
                ctx.count("quirk:" + "+".join(ids))
                open_ids = {k_.get("id") for k_ in ctx.known if k_.get("status", "open") == "open"}
                if all(i in open_ids for i in ids):
                    for i in ids:
                        ctx.finding(i, QUIRK_TEXT[i], rep)
                else:
                    ctx.violation(rep, what="behaviour only explained by quirks that are not (all) open findings: " + ", ".join(ids))
            else:
                ctx.violation(rep, what=f"midgard differs from the model ({rep.get('kind', 'attribute codec')})")

    if not ok and not ctx.violations:
        def search():
            # property oracle on observables: a value that does not survive encode/decode, judged without the model
            for rep in metaA:
                if "encode_raised" in rep or rep.get("decoded") != rep.get("value"):
                    if "nan" not in rep["value"] and "inf" not in rep["value"] and "None" != rep["value"]:
                        return rep
            return None
        ctx.obligations_broken(search)

    ctx.trusted += [
        "Coq 8.16.1 kernel, coqc, vm_compute (no native_compute)",
        "h5py / HDF5 (storage of attributes, groups and arrays)",
        "Python tokenizer for int and float literals (floats are carried as their repr text; float(repr(x)) == x is checked in Coq per shipped value)",
        "hand-written models coq/theories/Model/C10_Attr.v, C10_File.v, C10_Graph.v, C10_Session.v (validated against midgard by this run's correspondence)",
        "harness/drivers/c10.py (generators, description of data objects per kind, h5py inspection, term emission)",
    ]
    ctx.assume += ["printable ASCII in strings, names and texts",
                   "Model/C10_File.v: private reference objects have no references of their own and are not shared (Model/C10_Graph.v: no such limit)",
                   "acyclic reference graphs; field names are not 'other'/'ref_pos'/'time'"]
    return ctx.finish(
        level="proof",
        rule=("A: meta trees from a grammar (str/int/float incl. NaN, +-Inf, -0.0, subnormals/bool/None/list/tuple/set/dict, "
              "depth <= 4, words nan/inf, quotes, backslashes, blanks) through encode_h5attr/decode_h5attr.  B: datasets of 1..8 "
              "fields of ten kinds + collections nested up to 3 deep, 0..6 rows, write levels on fields and on write, references "
              "other/ref_pos/time to earlier/later/private objects, meta from the same grammar; written to HDF5, inspected with "
              "h5py, read back. distinct_nontrivial = distinct container trees (A) / datasets with >= 2 fields that could be written (B)"),
    )


def replay(ctx, path):
    rep = json.load(open(path))
    print(json.dumps(rep, indent=1))
    print("re-run: VERIF_SEED=%s /venv/bin/python run_check.py C10 %s" % (rep.get("seed"), rep.get("tier", "quick")))
    return 0
