"""C07 - orbit state <-> Keplerian elements conversion is invertible and consistent (DESIGN 4.7).

Proof obligations: coq/theories/Props/C07.v (model Model/C07_Kepler.v, proofs Proofs/C07_Kepler.v and
Proofs/C07_StateRoundtrip.v, libraries Lib/Ival, Lib/Atan2, Lib/Vec3, Lib/Mat3; GM regenerated into Gen/C07_Const.v).
Correspondence: midgard.math.transformation.kepler2trs / trs2kepler and PosVel(..., system="kepler"|"trs") with
.trs / .kepler / .M / .f are run on generated orbits (single states and arrays); every returned double is shipped exactly
(`Dy m e`) and compared inside Coq with interval enclosures of the real-number model (Coq-Interval, 128 bits), with the
two-body relations evaluated on the implementation's own doubles, and with exact rational round-trip certificates."""
from __future__ import annotations

import json
import math
import os
import re
from fractions import Fraction

import numpy as np

from harness import core, emit

META = {
    "property_id": "C07",
    "level": "proof",
    "design_ref": "DESIGN.md 4.7",
    "technique": "Coq proof over R (stdlib reals, atan2 by quadrants) on a hand model + vm_compute correspondence with "
                 "interval enclosures (Coq-Interval) and exact rational certificates on midgard's doubles",
    "level_text": (
        "Theorems in Coq 8.16 over the real numbers, for every GM > 0 and all elements with a > 0, 0 < e < 1, 0 < i < pi "
        "and arbitrary angles: the state produced by kepler2trs satisfies |r| = a(1 - e cos E), vis-viva, "
        "h = sqrt(GM a (1-e^2)) (sin i sin Omega, -sin i cos Omega, cos i), r.v = sqrt(GM a) e sin E; trs2kepler applied "
        "to it returns a, e, i exactly and Omega, omega, E up to whole turns inside their principal ranges "
        "(-pi,pi], [0,2pi), (-pi,pi] - hence the identity on principal elements (all quadrants: retrograde orbits, perigee "
        "beyond pi, descending arcs); conversely kepler2trs(trs2kepler(r, v)) = (r, v) for every bound, inclined, "
        "non-circular state; the true anomaly is the polar angle of the position in the orbital plane, "
        "tan(f/2) = sqrt((1+e)/(1-e)) tan(E/2), and Kepler's equation determines E uniquely.  The model is tied to the code "
        "on every run: GM is regenerated from constant.txt, and transformation.kepler2trs/trs2kepler, .trs/.kepler/.M/.f "
        "are run on generated orbits; each returned double is compared inside Coq (vm_compute) with a rigorous interval "
        "enclosure of the real-number model (relative 1e-10), with the two-body relations on the doubles themselves, and "
        "with exact rational round-trip certificates (relative 1e-8, the property's figure)."),
    "level_note": (
        "Trusted: Coq kernel + vm_compute, Coq-Interval (its correctness lemmas are proved in Coq; BigZ uses the primitive "
        "63-bit integer axioms), stdlib real axioms, the hand-written model (validated by the correspondence; the staged "
        "expressions the correspondence evaluates are proved equal to the model), the driver.  The theorems are about real "
        "arithmetic; floating-point rounding of the implementation is covered by the correspondence only (validated "
        "numerics, tolerance 1e-10 / 1e-8).  HashArray/lru_cache aliasing belongs to C08: the driver passes fresh copies "
        "and copies results."),
}

THEOREMS = [
    "r_norm", "vis_viva", "h_norm2", "h_unit", "r_dot_v",
    "recover_a", "recover_e", "recover_i", "recover_Omega", "recover_E", "recover_omega",
    "elements_roundtrip", "elements_roundtrip_mod2pi", "principal_ranges", "state_roundtrip",
    "true_anomaly_is_polar_angle", "true_anomaly_half_angle", "kepler_equation", "kepler_equation_unique",
    "model_exprs_ok", "check_k2t_sound", "check_t2k_sound", "gm_positive", "gm_sources_positive",
]

REQ = "From Verif Require Import Lib.Dyadic Model.C07_Kepler."
PI = math.pi
A_MIN, A_MAX = 6600e3, 60000e3
E_MIN, E_MAX = 0.001, 0.95
I_MIN, I_MAX = 0.01, PI - 0.01


# ----------------------------------------------------------------------------- regeneration of Gen/C07_Const.v
def read_gm_entries():
    """the entries of section [GM] of midgard/math/constant.txt: ({name: decimal text}, name `default` points to or None)
    (one level of %(name)s interpolation, as the configuration reader does)"""
    path = os.path.join(core.REPO, "midgard", "math", "constant.txt")
    section, entries = None, {}
    for raw in open(path, encoding="utf8"):
        line = "" if raw.lstrip().startswith("#") else raw.rstrip()
        m = re.match(r"^\[(.+)\]\s*$", line)
        if m:
            section = m.group(1)
            continue
        if section == "GM":
            m = re.match(r"^(\w+)\s*=\s*(.*?)\s*$", line)
            if m and not m.group(1).startswith("__"):
                entries[m.group(1)] = m.group(2)
    via = None
    m = re.match(r"^%\((\w+)\)s$", entries["default"])
    if m:
        via = m.group(1)
        entries["default"] = entries[via]
    return entries, via


def gm_sources():
    """sorted names of the sources that define GM (without `default`)"""
    entries, _ = read_gm_entries()
    return sorted(n for n in entries if n != "default")


def regen(ctx):
    from midgard.math.constant import constant
    entries, via = read_gm_entries()
    text = entries["default"]
    gm = float(constant.GM)
    rows = []
    for name in gm_sources():
        with constant.use_source(name):
            g = float(constant.GM)
        rows.append(f"  ({emit.q(Fraction(entries[name]))}, {emit.dy(g)})   (* {name}: text {json.dumps(entries[name])} *)")
    body = (
        f"(* midgard/math/constant.txt, section [GM], entry `default`"
        + (f" (resolved through %({via})s)" if via else "") + f": text {json.dumps(text)} *)\n"
        "From Coq Require Import ZArith QArith List.\nImport ListNotations.\nFrom Verif Require Import Lib.Dyadic.\n"
        f"Definition GM_Q : Q := {emit.q(Fraction(text))}.\n"
        "(* midgard.math.constant.constant.GM at run time (the double the conversions use) *)\n"
        f"Definition GM_dy : dy := {emit.dy(gm)}.\n"
        "(* every source that defines GM, sorted by name: (exact decimal of the text, constant.GM inside use_source(name)) *)\n"
        "Definition GM_sources : list (Q * dy) := [\n" + ";\n".join(rows).replace(")   (*", ")  (*") + "\n].\n")
    # `;` must come before the trailing comment of a row, not after it
    body = re.sub(r"(\(\* [^*]*\*\));\n", r";  \1\n", body)
    body = re.sub(r"\)  ;  \(\*", r");  (*", body)
    return ctx.regen("C07_Const", body)


# ----------------------------------------------------------------------------- helpers
def dys(a):
    return emit.lst(emit.dy(x) for x in np.asarray(a, dtype=float).ravel())


def fl(a):
    return [float(x) for x in np.asarray(a, dtype=float).ravel()]


def hexes(a):
    return [float(x).hex() for x in np.asarray(a, dtype=float).ravel()]


def fresh(a):
    return np.array(a, dtype=float, copy=True)


def out(a):
    return np.array(np.asarray(a), dtype=float, copy=True)


class Cases:
    def __init__(self, fn, size):
        self.fn, self.size = fn, size
        self.terms, self.meta, self.seen = [], [], set()

    def add(self, term, rep):
        if term in self.seen:
            return
        self.seen.add(term)
        self.terms.append(term)
        self.meta.append(rep)


# ----------------------------------------------------------------------------- generators
def gen_angle(rng, octant):
    """angle in [0, 2 pi) inside the given octant; sometimes exactly on / next to the octant boundary"""
    lo = octant * PI / 4
    u = rng.random()
    if u < 0.06:
        return lo
    if u < 0.10:
        return math.nextafter(lo + PI / 4, 0)
    if u < 0.14:
        return lo + rng.choice([1e-9, 1e-6])
    return lo + rng.uniform(0, PI / 4)


def gen_elements(rng, idx):
    """elements of the property's domain; `idx` cycles through all 8^3 octant combinations of (Omega, omega, E)"""
    oc = (idx % 8, (idx // 8) % 8, (idx // 64) % 8)
    u = rng.random()
    a = rng.choice([A_MIN, A_MAX, 26559.7e3, 42164e3, 7000e3]) if u < 0.2 else rng.uniform(A_MIN, A_MAX)
    u = rng.random()
    if u < 0.12:
        e = rng.choice([E_MIN, E_MAX, 0.01, 0.5, 0.74])
    elif u < 0.3:
        e = 10 ** rng.uniform(-3, -1.5)
    else:
        e = rng.uniform(E_MIN, E_MAX)
    u = rng.random()
    if u < 0.15:
        inc = rng.choice([I_MIN, I_MAX, PI / 2, 0.9599, 1.7, PI - 0.5])
    else:
        inc = rng.uniform(I_MIN, I_MAX)
    Om, om, E = (gen_angle(rng, o) for o in oc)
    return np.array([a, e, inc, Om, om, E]), oc


def in_domain_state(s, gm):
    """bound, inclined, non-circular state (used for the direct state stream): Python floats only decide whether the
    case is *generated*, never a verdict"""
    r, v = s[:3], s[3:]
    rn, vn = np.linalg.norm(r), np.linalg.norm(v)
    inv_a = 2 / rn - vn * vn / gm
    if inv_a <= 0:
        return False
    a = 1 / inv_a
    h = np.cross(r, v)
    hn = np.linalg.norm(h)
    e2 = 1 - hn * hn / gm / a
    if not (A_MIN <= a <= A_MAX and E_MIN ** 2 * 1.1 <= e2 <= E_MAX ** 2 * 0.98):
        return False
    inc = math.atan2(math.hypot(h[0], h[1]), h[2])
    return I_MIN * 1.05 <= inc <= I_MAX - 0.001


def gen_state(rng, gm):
    """a state built directly (not through kepler2trs): random directions and speeds, kept if inside the domain"""
    while True:
        r = np.array([rng.gauss(0, 1) for _ in range(3)])
        r = r / np.linalg.norm(r) * rng.uniform(3.5e6, 1.1e8)
        v = np.array([rng.gauss(0, 1) for _ in range(3)])
        v = v / np.linalg.norm(v) * math.sqrt(gm / np.linalg.norm(r)) * rng.uniform(0.3, 1.38)
        s = np.concatenate([r, v])
        if in_domain_state(s, gm):
            return s


DELTAS = [1e-3, 1e-4, 6e-5, 3e-5, 1e-5, 1e-6, 1e-8, 1e-10]


def true_anomaly_of(e, E):
    return math.atan2(math.sqrt(1 - e * e) * math.sin(E), math.cos(E) - e)


def directed_elements():
    """deterministic boundary corpus: list of (elements, description).  Angles are given in [0, 2 pi) (the property's range);
    `pi -+ delta` are the wrap points of the angles the code returns in (-pi, pi]."""
    combos = [(26559.7e3, 0.01, 0.9599), (7000e3, 0.001, 2.4), (42164e3, 0.3, 0.01), (24000e3, 0.74, PI - 0.01),
              (6600e3, 0.95, 1.1), (60000e3, 0.5, PI / 2)]
    base_angles = (1.0, 4.0, 2.0)            # Omega, omega, E when not the angle under test
    outl = []
    c = 0
    for d in DELTAS:
        for pos, name in ((2 * PI - d, "2pi-"), (d, "0+"), (PI - d, "pi-"), (PI + d, "pi+")):
            for slot, an in ((3, "Omega"), (4, "omega"), (5, "E")):
                a, e, inc = combos[c % len(combos)]
                c += 1
                k = [a, e, inc, *base_angles]
                k[slot] = pos
                outl.append((np.array(k), f"{an} = {name}{d:g}"))
        # argument of latitude u = omega + f across +-pi (the arctan2 cut of u) and across 0
        for target, name in ((PI - d, "pi-"), (PI + d, "pi+"), (2 * PI - d, "2pi-"), (d, "0+")):
            a, e, inc = combos[c % len(combos)]
            c += 1
            E = 2.0 if c % 2 else 5.0
            om = (target - true_anomaly_of(e, E)) % (2 * PI)
            outl.append((np.array([a, e, inc, 1.0, om, E]), f"u = {name}{d:g}"))
        # perigee marginally before / after the node together with the anomaly at the apsides
        a, e, inc = combos[c % len(combos)]
        c += 1
        outl.append((np.array([a, e, inc, 2 * PI - d, 2 * PI - d, PI + d]), f"all = wrap-{d:g}"))
        outl.append((np.array([a, e, inc, d, d, d]), f"all = 0+{d:g}"))
    # edges of the domain in e, i, a (all combinations), perigee next to the node
    for e in (E_MIN, E_MAX):
        for inc in (I_MIN, I_MAX):
            for a in (A_MIN, A_MAX):
                outl.append((np.array([a, e, inc, 5.5, 2 * PI - 2e-5, 3.5]), f"domain e={e:g} i={inc:g} a={a:g}"))
                outl.append((np.array([a, e, inc, 0.5, 1e-6, 0.0]), f"domain e={e:g} i={inc:g} a={a:g} E=0"))
    return outl


# ----------------------------------------------------------------------------- the run
def run(ctx):
    regen(ctx)
    ok = ctx.prove(THEOREMS)
    rng = ctx.rng
    q = ctx.quick()
    from midgard.data.position import PosVel
    from midgard.math import transformation
    from midgard.math.constant import constant
    gm = float(constant.GM)

    fam = {
        "k2t": Cases("check_k2t", 60), "t2k": Cases("check_t2k", 40), "tb": Cases("check_twobody", 60),
        "rt": Cases("check_roundtrip", 400), "rte": Cases("check_roundtrip_elements", 400),
        "anom": Cases("check_anomaly", 80), "const": Cases("check_const", 1),
        "k2t_src": Cases("check_k2t_src", 30), "t2k_src": Cases("check_t2k_src", 20), "tb_src": Cases("check_twobody_src", 30),
        "const_src": Cases("check_const_src", 20),
    }
    fam["const"].add("tt", dict(kind="const", GM=gm, how="midgard.math.constant.constant.GM vs [GM] default of constant.txt"))
    other = []          # structural mismatches (shape / type / exception): (finding id or None, replay dict)

    def crash(rep, e):
        other.append((None, dict(rep, what=f"{type(e).__name__}: {e}")))

    def shape_check(what, arr, want, rep):
        got = tuple(np.shape(arr))
        if got == tuple(want):
            return True
        fid = "c07_one_row_array_squeezed" if (len(want) == 2 and want[0] == 1 and got == (6,)) else None
        other.append((fid, dict(rep, what=f"{what}: shape {got}, expected {tuple(want)}", observed_shape=list(got))))
        return False

    def add_forward(k, s, rep):
        fam["k2t"].add(emit.pair(dys(k), dys(s)), dict(rep, check="kepler2trs vs model", elements=fl(k), elements_hex=hexes(k), state=fl(s)))

    def add_backward(s, k2, rep):
        r2 = dict(rep, state=fl(s), state_hex=hexes(s), elements_out=fl(k2))
        fam["t2k"].add(emit.pair(dys(s), dys(k2)), dict(r2, check="trs2kepler vs model / principal ranges"))
        fam["tb"].add(emit.pair(dys(s), dys(k2)), dict(r2, check="two-body relations on the returned elements"))

    def add_anom(e, E, M, f, rep):
        fam["anom"].add(emit.pair(emit.dy(e), emit.dy(E), emit.dy(M), emit.dy(f)),
                        dict(rep, check="Kepler's equation / true anomaly / half-angle", e=float(e), E=float(E), M=float(M), f=float(f)))

    def single(k, rep, raw, idx, tag):
        """one element set through kepler2trs -> trs2kepler -> kepler2trs (+ .M / .f), all oracles"""
        try:
            p = PosVel(fresh(k), system="kepler")
            s = out(transformation.kepler2trs(p)) if raw else out(p.trs)
            if not shape_check("kepler2trs of a single state", s, (6,), rep):
                return
            add_forward(k, s, rep)
            t = PosVel(fresh(s), system="trs")
            if raw:
                k2 = out(transformation.trs2kepler(t))
                kk = PosVel(fresh(k2), system="kepler")
            else:
                kk = t.kepler
                k2 = out(kk)
            if not shape_check("trs2kepler of a single state", k2, (6,), rep):
                return
            add_backward(s, k2, rep)
            s2 = out(transformation.kepler2trs(kk)) if raw else out(kk.trs)
            if shape_check("state -> elements -> state", s2, (6,), rep):
                fam["rt"].add(emit.pair(dys(s), dys(s2)), dict(rep, check="state round trip < 1e-8", state=fl(s), state_hex=hexes(s), back=fl(s2)))
            fam["rte"].add(emit.pair(dys(k), dys(k2)), dict(rep, check="elements round trip", elements=fl(k), elements_hex=hexes(k), back=fl(k2)))
            add_anom(k2[1], k2[5], float(kk.M), float(kk.f), dict(rep, elements=fl(k2)))
            if idx % 2 == 0:
                add_anom(k[1], k[5], float(p.M), float(p.f), dict(rep, elements=fl(k)))
        except Exception as e:   # an exception on a valid orbit is outside the model
            crash(dict(rep, elements=fl(k)), e)
            return
        ctx.case((tag, tuple(hexes(k))), nontrivial=True, sample=dict(elements=fl(k), state=fl(s), back=fl(k2)) if (tag == "A" and idx < 2) else None)

    def array_case(rows, rep, j):
        """(n, 6) elements -> (n, 6) states -> (n, 6) elements; row by row the same oracles"""
        n = len(rows)
        ks = np.array(rows)
        try:
            p = PosVel(fresh(ks), system="kepler")
            ss = out(p.trs)
            Ms, fs = out(p.M), out(p.f)
            shape_check("kepler2trs of an (n,6) array", ss, (n, 6), dict(rep, elements=[fl(r) for r in rows]))
            ss2d = ss.reshape(n, 6) if ss.size == n * 6 else None
            if ss2d is None:
                return
            for i in range(n):
                add_forward(ks[i], ss2d[i], dict(rep, row=i))
            if Ms.size == n and fs.size == n:
                for i in range(n):
                    add_anom(ks[i][1], ks[i][5], Ms.ravel()[i], fs.ravel()[i], dict(rep, row=i, elements=fl(ks[i])))
            else:
                other.append((None, dict(rep, what=f".M/.f of an ({n},6) array have shapes {Ms.shape}/{fs.shape}")))
            t = PosVel(fresh(ss2d), system="trs")
            kk = t.kepler
            k2 = out(kk)
            shape_check("trs2kepler of an (n,6) array", k2, (n, 6), dict(rep, states=[fl(r) for r in ss2d]))
            if k2.size != n * 6:
                return
            k2 = k2.reshape(n, 6)
            s2 = out(kk.trs)
            shape_check("(n,6) state -> elements -> state", s2, (n, 6), dict(rep, states=[fl(r) for r in ss2d]))
            for i in range(n):
                add_backward(ss2d[i], k2[i], dict(rep, row=i))
                fam["rte"].add(emit.pair(dys(ks[i]), dys(k2[i])), dict(rep, row=i, check="elements round trip", elements=fl(ks[i]), back=fl(k2[i])))
                if s2.size == n * 6:
                    fam["rt"].add(emit.pair(dys(ss2d[i]), dys(s2.reshape(n, 6)[i])),
                                  dict(rep, row=i, check="state round trip < 1e-8", state=fl(ss2d[i]), back=fl(s2.reshape(n, 6)[i])))
        except Exception as e:
            crash(dict(rep, elements=[fl(r) for r in rows]), e)
            return
        ctx.case(("C", tuple(tuple(hexes(r)) for r in rows)), nontrivial=True,
                 sample=dict(n=n, elements=[fl(r) for r in rows][:2]) if j == 1 else None)

    HOW1 = "PosVel(k, system='kepler').trs -> PosVel(s, system='trs').kepler -> .trs, .M, .f"
    HOWN = "PosVel(ks, system='kepler').trs / .M / .f, PosVel(ss, system='trs').kepler, .kepler.trs"

    # ---- A. single states from elements: every octant combination of (Omega, omega, E)
    n_single = 512 if q else 512 * 6
    for idx in range(n_single):
        k, oc = gen_elements(rng, idx)
        ctx.count(f"octants:Omega{oc[0]}")
        ctx.count(f"octants:omega{oc[1]}")
        ctx.count(f"octants:E{oc[2]}")
        ctx.count("e<0.03" if k[1] < 0.03 else "e>0.9" if k[1] > 0.9 else "e:mid")
        ctx.count("retrograde" if k[2] > PI / 2 else "prograde")
        raw = (idx % 4 == 3)        # every fourth case through the bare functions instead of the attributes
        rep = dict(kind="single", via="transformation.kepler2trs/trs2kepler" if raw else "PosVel attributes", octants=list(oc), how=HOW1)
        single(k, rep, raw, idx, "A")

    # ---- D. directed boundary inputs (corpus, the same on every run and tier): every angle next to the edges of its principal
    #      range and to the wrap points of trs2kepler (omega = u - f across 0 / 2 pi, Omega / E / f / u across +-pi), at distances
    #      1e-3 ... 1e-10, and the edges of the e / i / a domain; single states and the same rows as arrays
    directed = directed_elements()
    for idx, (k, what) in enumerate(directed):
        ctx.count("directed:" + what.split(" ")[0])
        rep = dict(kind="directed", boundary=what, via="PosVel attributes" if idx % 3 else "transformation.kepler2trs/trs2kepler", how=HOW1)
        single(k, rep, idx % 3 == 0, idx, "D")
    for j in range(0, len(directed), 8):
        rows = [k for k, _ in directed[j:j + 8]]
        ctx.count(f"array:n={len(rows)}")
        array_case(rows, dict(kind="directed-array", n=len(rows), boundary=[w for _, w in directed[j:j + 8]], how=HOWN), -1)

    # ---- B. states built directly (not images of kepler2trs): state -> elements -> state
    n_state = 80 if q else 1000
    for idx in range(n_state):
        s = gen_state(rng, gm)
        rep = dict(kind="state", how="PosVel(s, system='trs').kepler, .kepler.trs")
        try:
            t = PosVel(fresh(s), system="trs")
            kk = t.kepler
            k2 = out(kk)
            if not shape_check("trs2kepler of a single state", k2, (6,), rep):
                continue
            add_backward(s, k2, rep)
            s2 = out(kk.trs)
            if shape_check("state -> elements -> state", s2, (6,), rep):
                fam["rt"].add(emit.pair(dys(s), dys(s2)), dict(rep, check="state round trip < 1e-8", state=fl(s), state_hex=hexes(s), back=fl(s2)))
            add_anom(k2[1], k2[5], float(kk.M), float(kk.f), dict(rep, elements=fl(k2)))
        except Exception as e:
            crash(dict(rep, state=fl(s)), e)
            continue
        ctx.count("state:retrograde" if k2[2] > PI / 2 else "state:prograde")
        ctx.case(("B", tuple(hexes(s))), nontrivial=True)

    # ---- C. arrays: (n, 6) elements -> (n, 6) states -> (n, 6) elements; row by row the same oracles; n = 1 included
    n_arr = 32 if q else 240
    base = rng.randrange(512)
    for j in range(n_arr):
        n = 1 if j % 8 == 0 else rng.choice([2, 3, 4, 5, 8, 16])
        rows = [gen_elements(rng, base + j * 16 + i)[0] for i in range(n)]
        ctx.count(f"array:n={n}")
        array_case(rows, dict(kind="array", n=n, how=HOWN), j)

    # ---- E. every source of constant.txt that defines GM: the conversions run inside constant.use_source(name) and are
    #      compared with the model instantiated with THAT source's GM (regenerated table Gen/C07_Const.GM_sources); the round
    #      trip shows that both directions read the same GM
    n_src = 4 if q else 24
    for si, name in enumerate(gm_sources()):
        with constant.use_source(name):
            g_here = float(constant.GM)
            fam["const_src"].add(emit.pair(emit.z(si), emit.dy(g_here)),
                                 dict(kind="const_src", source=name, GM=g_here, how=f"constant.GM inside constant.use_source({name!r})"))
            for j in range(n_src + 1):
                is_arr = (j == n_src)
                rows = [gen_elements(rng, rng.randrange(512))[0] for _ in range(3 if is_arr else 1)]
                raw = (j % 2 == 1) and not is_arr
                rep = dict(kind="source", source=name, GM=g_here, array=is_arr,
                           via="transformation.kepler2trs/trs2kepler" if raw else "PosVel attributes",
                           how=f"with constant.use_source({name!r}): PosVel(k, system='kepler').trs -> PosVel(s, system='trs').kepler -> .trs")
                ctx.count(f"source:{name}")
                try:
                    ks = np.array(rows) if is_arr else rows[0]
                    p = PosVel(fresh(ks), system="kepler")
                    ss = out(transformation.kepler2trs(p)) if raw else out(p.trs)
                    t = PosVel(fresh(ss), system="trs")
                    kk = PosVel(out(transformation.trs2kepler(t)), system="kepler") if raw else t.kepler
                    k2s = out(kk)
                    s2s = out(transformation.kepler2trs(kk)) if raw else out(kk.trs)
                    want = (len(rows), 6) if is_arr else (6,)
                    if not (shape_check("kepler2trs under use_source", ss, want, rep) and shape_check("trs2kepler under use_source", k2s, want, rep)
                            and shape_check("round trip under use_source", s2s, want, rep)):
                        continue
                    for i, k in enumerate(rows):
                        s_, k2, s2 = ss.reshape(-1, 6)[i], k2s.reshape(-1, 6)[i], s2s.reshape(-1, 6)[i]
                        r2 = dict(rep, row=i, elements=fl(k), elements_hex=hexes(k), state=fl(s_), elements_out=fl(k2), back=fl(s2))
                        fam["k2t_src"].add(emit.pair(emit.z(si), dys(k), dys(s_)), dict(r2, check=f"kepler2trs vs model with GM of {name}"))
                        fam["t2k_src"].add(emit.pair(emit.z(si), dys(s_), dys(k2)), dict(r2, check=f"trs2kepler vs model with GM of {name}"))
                        fam["tb_src"].add(emit.pair(emit.z(si), dys(s_), dys(k2)), dict(r2, check=f"two-body relations with GM of {name}"))
                        fam["rt"].add(emit.pair(dys(s_), dys(s2)), dict(r2, check=f"state round trip < 1e-8 inside use_source({name!r}) (both directions must read the same GM)"))
                        fam["rte"].add(emit.pair(dys(k), dys(k2)), dict(r2, check="elements round trip"))
                except Exception as e:
                    crash(dict(rep, elements=[fl(r) for r in rows]), e)
                    continue
                ctx.case(("E", name, tuple(tuple(hexes(r)) for r in rows)), nontrivial=True)

    # ---------------------------------------------------------------- evaluate in Coq and decide
    # all families in one parallel batch (shards of every family side by side)
    shards, owner = [], []
    for name, c in fam.items():
        for sh in emit.shard_terms(c.fn, c.terms, c.size):
            shards.append(sh)
            owner.append(name)
    all_vs = ctx.coq_cases(shards, REQ)
    for name, c in fam.items():
        vs = [v for v, o in zip(all_vs, owner) if o == name]
        flat = emit.flatten_verdicts(vs, len(c.terms))
        ctx.count(f"cases:{name}", len(c.terms))
        if flat is None:
            ctx.violation({"broken": f"correspondence family {name} ({c.fn}) did not evaluate in Coq", "errors": ctx.last_coq_errors[:2]},
                          what="correspondence (model evaluation) failed", found=False)
            continue
        for v, rep in zip(flat, c.meta):
            if v != 0:
                ctx.violation(dict(rep, check_fn=c.fn, verdict=v,
                                   rerun="/venv/bin/python /verif/run_check.py C07 replay <this file>"),
                              what=f"{c.fn}: {rep.get('check', rep.get('kind'))} fails on midgard's output")
    for fid, rep in other:
        if fid:
            ctx.count("finding:" + fid)
            ctx.finding(fid, rep["what"], rep)
        else:
            ctx.violation(rep, what=rep["what"])

    if not ok and not ctx.violations:
        # the oracles of families tb / rt / anom are stated on the observables themselves; they found nothing
        ctx.obligations_broken(lambda: None)
    ctx.trusted += [
        "Coq 8.16.1 kernel, coqc, vm_compute (no native_compute)",
        "Coq-Interval 4.x (I.sin/cos/atan/sqrt/div correctness lemmas are proved in Coq; BigZ/primitive integers)",
        "hand-written model coq/theories/Model/C07_Kepler.v (validated against midgard by this run's correspondence; staged "
        "expressions proved equal to the model: model_exprs_ok)",
        "harness/drivers/c07.py (generators, call of the implementation, term emission)",
    ]
    ctx.assume += [
        "theorems are over the real numbers; floating-point rounding is covered by the correspondence only "
        "(implementation vs model 1e-10 relative, 1e-12 floor on e, angles 1e-10 rad modulo one turn; round trip 1e-8)",
        "domain: 0.001 <= e <= 0.95, 0.01 <= i <= pi-0.01, 6600 km <= a <= 60000 km, angles in [0, 2 pi)",
    ]
    return ctx.finish(
        level="proof",
        rule=("elements cycling through all 8^3 octant combinations of (Omega, omega, E) with boundary values (octant edges, "
              "e = 0.001/0.95, i = 0.01/pi-0.01/pi/2, a = 6600/60000 km), single states through the PosVel attributes and "
              "through the bare functions, states built directly from random position/velocity inside the domain, (n,6) "
              "arrays with n in {1,2,3,4,5,8,16}; distinct_nontrivial = distinct input element sets / states / arrays"),
    )


# ----------------------------------------------------------------------------- replay
def replay(ctx, path):
    """re-run the conversion of a replay file on the current tree and evaluate every oracle for it"""
    from midgard.data.position import PosVel
    rep = json.load(open(path))
    print(json.dumps({k: rep[k] for k in rep if k not in ("traceback",)}, indent=1))
    terms = []
    if "elements_hex" in rep:
        k = np.array([float.fromhex(h) for h in rep["elements_hex"]])
        p = PosVel(fresh(k), system="kepler")
        s = out(p.trs)
        print("kepler2trs ->", fl(s))
        terms.append(("check_k2t", emit.pair(dys(k), dys(s))))
        terms.append(("check_anomaly", emit.pair(emit.dy(k[1]), emit.dy(k[5]), emit.dy(float(p.M)), emit.dy(float(p.f)))))
    elif "state_hex" in rep:
        s = np.array([float.fromhex(h) for h in rep["state_hex"]])
    else:
        print("no single-state input in this replay file; re-run: VERIF_SEED=%s /venv/bin/python run_check.py C07 %s"
              % (rep.get("seed"), rep.get("tier", "quick")))
        return 0
    kk = PosVel(fresh(s), system="trs").kepler
    k2 = out(kk)
    s2 = out(kk.trs)
    print("trs2kepler ->", fl(k2), " M, f =", float(kk.M), float(kk.f))
    print("back       ->", fl(s2))
    terms += [("check_t2k", emit.pair(dys(s), dys(k2))), ("check_twobody", emit.pair(dys(s), dys(k2))),
              ("check_roundtrip", emit.pair(dys(s), dys(s2))),
              ("check_anomaly", emit.pair(emit.dy(k2[1]), emit.dy(k2[5]), emit.dy(float(kk.M)), emit.dy(float(kk.f))))]
    bad = 0
    for fn, term in terms:
        vs = ctx.coq_cases([f"[{fn} {term}]"], REQ)
        print(f"{fn}: verdict {vs[0]}")
        bad += int(vs[0] != [0])
    return 1 if bad else 0
