"""C02 - every time format represents the same instant and survives a round trip (DESIGN 4.2).

Proof obligations: coq/theories/Props/C02.v (model Model/C02_Formats.v, lemmas Proofs/C02_Formats.v).
Regenerated from the source on every run: Gen/C02_Tables.v (unit constants, format epochs, strftime
patterns, registered formats, the TAI-UTC rows used for the length of a UTC year).
Correspondence: real `Time(val, fmt=..., scale=...)` objects for every (scale, format) pair; the comparison
with the model is evaluated inside Coq on exact doubles."""
from __future__ import annotations

import json
import os
from datetime import datetime, timedelta
from fractions import Fraction

import numpy as np

from harness import core, emit

META = {
    "property_id": "C02",
    "level": "proof",
    "design_ref": "DESIGN.md 4.2",
    "technique": "Coq proof (exact Z/Q model of the 13 time formats, calendar proved for all days) + regenerated constants/patterns/TAI-UTC rows + vm_compute correspondence with midgard.data.time.Time on exact doubles",
    "level_text": (
        "Theorems in Coq 8.16 over an executable exact model of the time formats: civil calendar round trip for every "
        "day number and every valid date (no range bound), second-of-day and datetime<->microsecond round trips, GPS "
        "week/seconds (no bound on the week), exact round trips of mjd / gps seconds / Julian year / decimal year over Q, "
        "parse(render)=truncation-to-grid for the six text formats, half-integer/[0,1)/sum invariant of the jd split for "
        "all rationals, agreement of all formats within their resolution, one round-trip statement for all 13 formats "
        "(format_roundtrip_all), element-wise (pointwise) semantics of the array forms and scalar/length-1/length-n identity "
        "on the model, and the binary64 model of the jd split proved equal to the exact split outside the last 40 us of a "
        "day.  Constants, strftime patterns, the format "
        "registry and the TAI-UTC rows are regenerated from the source on every run and compared with the specification "
        "by theorems.  The model is tied to the code by a correspondence check on real Time objects (every scale/format "
        "pair, scalar/list/ndarray, one- and two-part input) evaluated inside Coq on the exact doubles."),
    "level_note": (
        "Trusted: Coq kernel + vm_compute; the hand-written model (validated by correspondence, not derived); binary64 "
        "arithmetic of the implementation is covered by stated tolerances (1 ns two-part, 100 us single float, 1 us "
        "datetime/text), not modelled, except the jd_int/jd_frac expression which is also modelled with correctly rounded "
        "binary64 (rn53) to attribute the rounded-sum defect; timedelta(days=x) rounding is modelled as 'nearest "
        "microsecond, either neighbour within 2^-10 us of a tie'; CPython strptime/strftime are trusted to implement the "
        "directives; leap seconds enter only through the length of a UTC year (decimalyear)."),
}

THEOREMS = [
    "civil_roundtrip", "civil_roundtrip_valid", "sod_roundtrip", "datetime_roundtrip", "jd_split_invariant",
    "jd_split_on_grid", "gps_ws_roundtrip", "gps_ws_roundtrip_inv", "format_roundtrip_numeric",
    "format_roundtrip_decimalyear", "text_parse_render_generic", "text_format_parse_render", "text_within_resolution",
    "formats_agree", "split_spec_is_exact", "gen_constants_match_spec", "gen_patterns_match_spec",
    "gen_formats_match_spec", "gen_utc_year_not_shorter", "c02_rounded_sum_refuted", "c02_rounded_sum_agrees_outside",
    "format_roundtrip_all", "pointwise", "shape_identity",
]

REQ = "From Verif Require Import Lib.Dyadic Model.C02_Formats Gen.C02_Tables."

SPEC_FORMATS = ["jd", "mjd", "datetime", "gps_ws", "gps_seconds", "jyear", "decimalyear", "yydddsssss",
                "yyyydddsssss", "isot", "iso", "yday", "date"]
COQ_FMT = dict(jd="Fjd", mjd="Fmjd", datetime="Fdatetime", gps_ws="Fgps_ws", gps_seconds="Fgps_seconds",
               jyear="Fjyear", decimalyear="Fdecimalyear", yydddsssss="Fyy", yyyydddsssss="Fyyyy", isot="Fisot",
               iso="Fiso", yday="Fyday", date="Fdate")
COQ_SCALE = dict(utc="Sutc", tai="Stai", tcg="Stcg", gps="Sgps", tt="Stt")
TEXT = ("yydddsssss", "yyyydddsssss", "isot", "iso", "yday", "date")
GPS_ONLY = ("gps_ws", "gps_seconds")
T0 = datetime(2000, 1, 1)
US_DAY = 86400 * 10 ** 6
JD2000 = Fraction(4903089, 2)
JD1980 = Fraction(4888489, 2)
U_MIN = (datetime(1900, 1, 1) - T0).days * US_DAY
U_MAX = (datetime(2101, 1, 1) - T0).days * US_DAY - 1
U_GPS0 = (datetime(1980, 1, 6) - T0).days * US_DAY


# ----------------------------------------------------------------------------- regeneration
def _q(x):
    return emit.q(Fraction(x))


def regen(ctx):
    """Gen/C02_Tables.v from the live objects of the tree under test."""
    from midgard.data import _time
    from midgard.math.unit import Unit
    F = _time._FORMATS["TimeFormat"]
    lines = ["From Coq Require Import ZArith QArith List String.", "From Verif Require Import Lib.Dyadic.",
             "Import ListNotations.", "Open Scope Z_scope.", ""]

    def const(name, val):
        lines.append(f"Definition {name} : Q := {_q(val)}.")

    def fconst(name, val):
        lines.append(f"Definition {name} : dy := {emit.dy(val)}.")

    const("gen_day2seconds", Unit.day2seconds)
    const("gen_day2second", Unit.day2second)
    const("gen_week2days", Unit.week2days)
    const("gen_julian_year2day", Unit.julian_year2day)
    fconst("gen_second2day", Unit.second2day)
    fconst("gen_day2julian_year", Unit.day2julian_year)
    const("gen_fmt_day2seconds", _time.TimeFormat.day2seconds)
    const("gen_fmt_week2days", _time.TimeFormat.week2days)
    const("gen_mjd0", F["mjd"]._mjd0)
    const("gen_dt_jd2000", F["datetime"]._jd2000)
    d = F["datetime"]._dt2000
    lines.append("Definition gen_dt2000 : list Z := " + emit.lst(emit.z(x) for x in (d.year, d.month, d.day, d.hour, d.minute, d.second, d.microsecond)) + ".")
    const("gen_gpsws_epoch", F["gps_ws"]._jd19800106)
    const("gen_gpssec_epoch", F["gps_seconds"]._jd19800106)
    const("gen_jyear_jd2000", F["jyear"]._jd2000)
    const("gen_jyear_j2000", F["jyear"]._j2000)
    lines.append("Definition gen_wsfields : list string := " + emit.lst(emit.s(x) for x in F["gps_ws"].WeekSec._fields) + ".")
    lines.append("Definition gen_formats : list string := " + emit.lst(emit.s(x) for x in F) + ".")
    pats = [(k, F[k]._dt_fmt) for k in ("isot", "iso", "yday", "date") if k in F]
    lines.append("Definition gen_strftime : list (string * string) := " + emit.lst(emit.pair(emit.s(k), emit.s(v)) for k, v in pats) + ".")
    # the TAI-UTC rows, read from the text file (exact decimals), in file order
    import importlib.resources as ir
    rows = []
    for ln in ir.files("midgard.data").joinpath("_taiutc.txt").read_text().splitlines():
        ln = ln.strip()
        if not ln or ln.startswith("#"):
            continue
        a = ln.split()
        rows.append("(" + ", ".join(_q(Fraction(x)) for x in a[:5]) + ")")
    lines.append("Definition gen_taiutc : list (Q * Q * Q * Q * Q) :=\n  " + emit.lst(rows).replace("; ", ";\n   ") + ".")
    ctx.regen("C02_Tables", "\n".join(lines) + "\n")


# ----------------------------------------------------------------------------- values
def dt_of(u):
    return T0 + timedelta(microseconds=u)


def us_of(dt):
    d = dt - T0
    return (d.days * 86400 + d.seconds) * 10 ** 6 + d.microseconds


def jd_exact(u):
    return JD2000 + Fraction(u, US_DAY)


def dt_term(d):
    return f"(Dt {emit.z(d.year)} {emit.z(d.month)} {emit.z(d.day)} {emit.z(d.hour)} {emit.z(d.minute)} {emit.z(d.second)} {emit.z(d.microsecond)})"


def text_of(fmt, d):
    """Own rendering (inputs only; the expected strings come from the Coq model)."""
    doy = d.timetuple().tm_yday
    sod = d.hour * 3600 + d.minute * 60 + d.second
    if fmt == "isot":
        return f"{d.year:04d}-{d.month:02d}-{d.day:02d}T{d.hour:02d}:{d.minute:02d}:{d.second:02d}.{d.microsecond:06d}"
    if fmt == "iso":
        return f"{d.year:04d}-{d.month:02d}-{d.day:02d} {d.hour:02d}:{d.minute:02d}:{d.second:02d}.{d.microsecond:06d}"
    if fmt == "yday":
        return f"{d.year:04d}:{doy:03d}:{d.hour:02d}:{d.minute:02d}:{d.second:02d}.{d.microsecond:06d}"
    if fmt == "date":
        return f"{d.year:04d}-{d.month:02d}-{d.day:02d}"
    if fmt == "yydddsssss":
        return f"{d.year % 100:02d}:{doy:03d}:{sod:05d}"
    if fmt == "yyyydddsssss":
        return f"{d.year:04d}:{doy:03d}:{sod:05d}"
    raise ValueError(fmt)


def value_term(fmt, v, v2=None):
    """One element of a format value -> Coq `value`."""
    if fmt == "datetime":
        if v2 is not None:
            du = (v2.days * 86400 + v2.seconds) * 10 ** 6 + v2.microseconds
            return f"(VDt2 {dt_term(v)} {emit.z(du)})"
        return f"(VDt {dt_term(v)})"
    if fmt in TEXT:
        return f"(VStr {emit.s(str(v))})"
    if fmt == "gps_ws" and isinstance(v, tuple):
        return f"(VWs {emit.dy(v[0])} {emit.dy(v[1])} {emit.dy(v[2])})"
    if v2 is not None:
        return f"(VNum2 {emit.dy(v)} {emit.dy(v2)})"
    return f"(VNum {emit.dy(v)})"


def jsonable(fmt, v, v2=None):
    def one(x):
        if isinstance(x, datetime):
            return x.isoformat()
        if isinstance(x, timedelta):
            return f"timedelta(microseconds={(x.days * 86400 + x.seconds) * 10**6 + x.microseconds})"
        if isinstance(x, tuple):
            return [one(y) for y in x]
        if isinstance(x, (float, np.floating)):
            return float(x).hex() + " = " + repr(float(x))
        if isinstance(x, (int, np.integer)):
            return int(x)
        return str(x)
    return one(v) if v2 is None else [one(v), one(v2)]


def elems(fmt, val):
    """Accessor value (scalar or array, any container) -> list of per-element Python values."""
    if fmt == "gps_ws":
        w, s, d = (np.atleast_1d(np.asarray(x, dtype=float)).ravel() for x in (val.week, val.seconds, val.day))
        return [(float(a), float(b), float(c)) for a, b, c in zip(w, s, d)]
    a = np.atleast_1d(np.asarray(val)).ravel()
    if fmt == "datetime":
        return list(a)
    if fmt in TEXT:
        return [str(x) for x in a]
    return [float(x) for x in a]


def flt(x):
    return [float(v) for v in np.atleast_1d(np.asarray(x, dtype=float)).ravel()]


# ----------------------------------------------------------------------------- generators
def edge_epochs():
    """Fixed edge epochs (microseconds since 2000-01-01): midnight / noon +-1us, 10/20 us before midnight,
    year ends, Feb 28/29, Mar 1 in leap and non-leap years, strptime pivot years, GPS week roll-overs."""
    out = []
    def around(dt, offs=(0, -1, 1)):
        for o in offs:
            out.append(us_of(dt) + o)
    for y in (1900, 1968, 1969, 1972, 1980, 1999, 2000, 2016, 2017, 2020, 2068, 2069, 2100):
        around(datetime(y, 1, 1))
        around(datetime(y, 12, 31, 23, 59, 59, 999999), (0,))
        around(datetime(y, 2, 28, 12), (0, -1, 1))
        around(datetime(y, 3, 1), (0, -1, 1, -10, -20, -23))
        around(datetime(y, 7, 1, 12), (0,))
    return [u for u in out if U_MIN <= u <= U_MAX]


def gps_edge_epochs():
    """GPS week roll-overs (weeks 0, 1, 1023/1024, 2047/2048, 2094): the week start first, then +-1 us, +-10 us, +-1 s, noon."""
    gps0 = datetime(1980, 1, 6)
    out = []
    for o in (0, -1, 1, -10, 10 ** 6, -10 ** 6, 43200 * 10 ** 6, -23):
        for w in (0, 1024, 2048, 1023, 2047, 1, 2094):
            u = us_of(gps0 + timedelta(days=7 * w)) + o
            if U_GPS0 <= u <= U_MAX:
                out.append(u)
    return out


def rand_epoch(rng, lo=U_MIN, hi=U_MAX):
    day = rng.randrange(lo // US_DAY, hi // US_DAY + 1)
    k = rng.random()
    if k < 0.25:
        tod = rng.randrange(86400) * 10 ** 6
    elif k < 0.4:
        tod = rng.randrange(86400000) * 1000
    elif k < 0.5:
        tod = rng.choice([0, 1, 10, US_DAY - 1, US_DAY - 10, US_DAY - 15, US_DAY // 2, US_DAY // 2 - 1, US_DAY // 2 + 1,
                          US_DAY - 10 ** 6, 43200 * 10 ** 6 + 500000])
    else:
        tod = rng.randrange(US_DAY)
    return min(max(day * US_DAY + tod, lo), hi)


KINDS = dict(datetime=["one", "two-part"], jd=["one", "day+frac", "noon+frac", "float+rest", "arbitrary"],
             mjd=["one", "day+frac", "noon+frac", "float+rest", "arbitrary"], gps_ws=["two-part", "weeksec"],
             decimalyear=["random", "epoch"])


def make_input(rng, fmt, kind, us_list):
    """Input values in format `fmt` denoting (about) the epochs `us_list`, formed in the way `kind` says.
    Returns (vals, vals2 | None)."""
    jds = [jd_exact(u) for u in us_list]
    if fmt == "datetime":
        if kind == "two-part":
            dus = [rng.choice([1, 5 * 10 ** 6, 86399999999, rng.randrange(1, US_DAY)]) for _ in us_list]
            return [dt_of(u - du) for u, du in zip(us_list, dus)], [timedelta(microseconds=du) for du in dus]
        return [dt_of(u) for u in us_list], None
    if fmt in TEXT:
        return [text_of(fmt, dt_of(u)) for u in us_list], None
    if fmt in ("jd", "mjd"):
        off = Fraction(0) if fmt == "jd" else Fraction(4800001, 2)
        vals, vals2 = [], []
        for j in jds:
            x = j - off
            if kind == "one":
                vals.append(float(x)); vals2 = None
            elif kind == "day+frac":
                base = Fraction((x - Fraction(1, 2)).__floor__()) + Fraction(1, 2) if fmt == "jd" else Fraction(x.__floor__())
                vals.append(float(base)); vals2.append(float(x - base))
            elif kind == "noon+frac":
                base = Fraction(x.__floor__()) if fmt == "jd" else Fraction((x - Fraction(1, 2)).__floor__()) + Fraction(1, 2)
                vals.append(float(base)); vals2.append(float(x - base))
            elif kind == "float+rest":
                a = float(x); vals.append(a); vals2.append(float(x - Fraction(a)))
            else:
                a = float(x) + rng.choice([-1.0, 0.25, 0.75, 3.0]) * rng.random(); vals.append(a); vals2.append(float(x - Fraction(a)))
        return vals, vals2
    if fmt == "gps_ws":
        vals, vals2 = [], []
        for j in jds:
            d = j - JD1980
            w = (d / 7).__floor__()
            sec = float((d - 7 * w) * 86400)
            if kind == "weeksec":
                vals.append((float(w), sec, float(int(sec // 86400))))
            else:
                vals.append(float(w)); vals2.append(sec)
        return vals, (vals2 if kind != "weeksec" else None)
    if fmt == "gps_seconds":
        return [float((j - JD1980) * 86400) for j in jds], None
    if fmt == "jyear":
        return [float(2000 + (j - Fraction(2451545)) / Fraction(1461, 4)) for j in jds], None
    if fmt == "decimalyear":
        if kind == "random":
            return [float(dt_of(u).year + rng.random()) for u in us_list], None
        out = []
        for u in us_list:
            d = dt_of(u)
            start = us_of(datetime(d.year, 1, 1))
            out.append(float(d.year + Fraction(u - start, US_DAY) / 366))
        return out, None
    raise ValueError(fmt)


class Obs:
    """Everything observed on one Time object, per element."""

    def __init__(self, t, scale, formats):
        self.jd1, self.jd2 = flt(t.jd1), flt(t.jd2)
        self.n = len(self.jd1)
        self.fmt = {}
        self.err = {}
        for f in formats:
            if f in GPS_ONLY and scale != "gps":
                continue
            try:
                self.fmt[f] = elems(f, getattr(t, f))
            except Exception as e:  # classified by the caller
                self.err[f] = f"{type(e).__name__}: {e}"
        self.split = [flt(getattr(t, k)) for k in ("jd_int", "jd_frac", "mjd_int", "mjd_frac")]


def build(Time, fmt, scale, shape, vals, vals2, WS):
    """Construct Time from element list `vals` (and `vals2`) in container `shape`."""
    def wrap(xs):
        if shape == "scalar":
            x = xs[0]
            return x
        if shape == "list":
            return list(xs)
        if fmt == "datetime" or isinstance(xs[0], timedelta):
            a = np.empty(len(xs), dtype=object)
            for i, x in enumerate(xs):
                a[i] = x
            return a
        return np.array(xs)
    if fmt == "gps_ws" and vals2 is None:        # WeekSec tuples
        if shape == "scalar":
            v = WS(*[np.float64(c) for c in vals[0]])
        elif shape == "list":
            v = WS(*[list(c) for c in zip(*vals)])
        else:
            v = WS(*[np.array(c) for c in zip(*vals)])
        return Time(v, scale=scale, fmt=fmt)
    if vals2 is None:
        return Time(wrap(vals), scale=scale, fmt=fmt)
    return Time(wrap(vals), val2=wrap(vals2), scale=scale, fmt=fmt)


# ----------------------------------------------------------------------------- the run
def run(ctx):
    try:
        regen(ctx)
        regen_err = None
    except Exception as e:
        regen_err = f"{type(e).__name__}: {e}"
        ctx.log("regeneration failed: " + regen_err)
    ok = ctx.prove(THEOREMS)

    from midgard.data.time import Time
    from midgard.data import _time
    WS = _time._FORMATS["TimeFormat"]["gps_ws"].WeekSec if "gps_ws" in _time._FORMATS["TimeFormat"] else None
    rng = ctx.rng
    formats = [f for f in Time.FORMATS if f in COQ_FMT]
    if sorted(Time.FORMATS) != sorted(SPEC_FORMATS):
        ctx.violation({"registered_formats": list(Time.FORMATS), "specified": SPEC_FORMATS,
                       "how": "from midgard.data.time import Time; Time.FORMATS"},
                      what="the set of registered time formats differs from the 13 formats of the property")
    scales = [s for s in Time.SCALES if s in COQ_SCALE]

    n_batches = 120 if ctx.quick() else 1500
    casesA, metaA = [], []      # to_jds
    casesB, metaB = [], []      # from_jds
    casesC, metaC = [], []      # split
    casesD, metaD = [], []      # round trip (property oracle)
    casesE, metaE = [], []      # shapes
    casesF, metaF = [], []      # text with arbitrary fraction digits
    direct = []                 # (finding id | None, what, replay)

    edges = edge_epochs()
    rng.shuffle(edges)
    edge_pos = 0
    gps_edges = gps_edge_epochs()
    gps_pos = 0

    def how(fmt, scale, shape, val, val2=None):
        return (f"Time({val!r}, " + (f"val2={val2!r}, " if val2 is not None else "") + f"scale={scale!r}, fmt={fmt!r})   [{shape}]")

    combos = [(f, k) for f in formats for k in KINDS.get(f, ["one"])]
    for b in range(n_batches):
        f_in, kind = combos[b % len(combos)]
        scale = scales[(b // len(combos) + b) % len(scales)]
        if f_in in GPS_ONLY:
            if "gps" not in scales:
                continue
            scale = "gps"
        valid = [f for f in formats if scale == "gps" or f not in GPS_ONLY]
        n = rng.choice([1, 2, 3, 4, 6])
        lo = U_GPS0 if (scale == "gps" and (f_in in GPS_ONLY or rng.random() < 0.7)) else U_MIN
        us_list = []
        for _ in range(n):
            if scale == "gps" and rng.random() < 0.3:
                us_list.append(gps_edges[gps_pos % len(gps_edges)])
                gps_pos += 1
            elif rng.random() < 0.45:
                for _try in range(len(edges)):
                    u = edges[edge_pos % len(edges)]
                    edge_pos += 1
                    if u >= lo:
                        break
                else:
                    u = rand_epoch(rng, lo)
                us_list.append(u)
            else:
                us_list.append(rand_epoch(rng, lo))
        vals, vals2 = make_input(rng, f_in, kind, us_list)
        shape_n = rng.choice(["list", "array"]) if f_in != "jyear" else "array"
        ctx.count(f"in:{f_in}:{kind}")
        ctx.count(f"scale:{scale}")
        ctx.count(f"n:{n}")
        rep0 = dict(scale=scale, fmt=f_in, input_kind=kind, shape=shape_n,
                    values=[jsonable(f_in, v, (vals2[i] if vals2 else None)) for i, v in enumerate(vals)])
        try:
            t = build(Time, f_in, scale, shape_n, vals, vals2, WS)
            ob = Obs(t, scale, formats)
        except Exception as e:
            direct.append((None, f"construction of a valid {f_in} {shape_n} raised {type(e).__name__}: {e}",
                           dict(rep0, how=how(f_in, scale, shape_n, vals, vals2), raised=f"{type(e).__name__}: {e}")))
            continue
        if ob.n != n:
            direct.append((None, "number of elements changed", dict(rep0, observed_len=ob.n)))
            continue

        for i in range(n):
            v2 = vals2[i] if vals2 else None
            vt = value_term(f_in, vals[i], v2)
            rep = dict(kind="to_jds", scale=scale, fmt=f_in, input_kind=kind, shape=shape_n, index=i,
                       value=jsonable(f_in, vals[i], v2), jd1=float(ob.jd1[i]).hex(), jd2=float(ob.jd2[i]).hex(),
                       how=how(f_in, scale, "element %d of the %s" % (i, shape_n), vals[i], v2))
            casesA.append(emit.pair(COQ_SCALE[scale], COQ_FMT[f_in], vt, emit.dy(ob.jd1[i]), emit.dy(ob.jd2[i])))
            metaA.append(rep)
            ctx.case(("A", scale, f_in, repr(vals[i]), repr(v2)), nontrivial=True, sample=rep if len(metaA) % 97 == 1 else None)
            # C. split
            sp = [ob.split[k][i] for k in range(4)]
            casesC.append(emit.pair(emit.dy(ob.jd1[i]), emit.dy(ob.jd2[i]), *[emit.dy(x) for x in sp]))
            metaC.append(dict(kind="split", scale=scale, fmt=f_in, value=jsonable(f_in, vals[i], v2), jd1=float(ob.jd1[i]).hex(),
                              jd2=float(ob.jd2[i]).hex(), jd_int=repr(sp[0]), jd_frac=repr(sp[1]), mjd_int=repr(sp[2]), mjd_frac=repr(sp[3]),
                              how=how(f_in, scale, "scalar", vals[i], v2) + " .jd_int/.jd_frac/.mjd_int/.mjd_frac"))
            ctx.case(("C", ob.jd1[i], ob.jd2[i]), nontrivial=True)

        T_exact = [Fraction(a) + Fraction(c) for a, c in zip(ob.jd1, ob.jd2)]
        for f_out in valid:
            if f_out in ob.err:
                before_gps = any(T < JD1980 for T in T_exact)
                if f_out in GPS_ONLY and before_gps and ob.err[f_out].startswith("ValueError"):
                    ctx.count("gps-before-1980-refused")
                    continue
                direct.append((None, f"reading .{f_out} raised {ob.err[f_out]}",
                               dict(rep0, accessor=f_out, how=how(f_in, scale, shape_n, vals, vals2) + f".{f_out}")))
                continue
            outs = ob.fmt[f_out]
            if len(outs) != n:
                direct.append((None, f".{f_out} has {len(outs)} elements for {n} epochs", dict(rep0, accessor=f_out)))
                continue
            for i in range(n):
                vt = value_term(f_out, outs[i])
                rep = dict(kind="from_jds", scale=scale, fmt_in=f_in, value_in=jsonable(f_in, vals[i], vals2[i] if vals2 else None),
                           jd1=float(ob.jd1[i]).hex(), jd2=float(ob.jd2[i]).hex(), accessor=f_out, observed=jsonable(f_out, outs[i]),
                           how=how(f_in, scale, "scalar", vals[i], vals2[i] if vals2 else None) + f".{f_out}")
                casesB.append(emit.pair(COQ_SCALE[scale], COQ_FMT[f_out], emit.dy(ob.jd1[i]), emit.dy(ob.jd2[i]), vt))
                metaB.append(rep)
                ctx.case(("B", scale, f_out, ob.jd1[i], ob.jd2[i]), nontrivial=True, sample=rep if len(metaB) % 997 == 1 else None)
            # round trip through f_out: a new Time from the value that was read
            try:
                t2 = build(Time, f_out, scale, "array" if f_out != "gps_ws" else "array", outs, None, WS)
                k1, k2 = flt(t2.jd1), flt(t2.jd2)
            except Exception as e:
                direct.append((None, f"Time(<value of .{f_out}>, fmt={f_out!r}) raised {type(e).__name__}: {e}",
                               dict(rep0, accessor=f_out, read_back=[jsonable(f_out, o) for o in outs])))
                continue
            for i in range(n):
                rep = dict(kind="roundtrip", scale=scale, fmt=f_out, value=jsonable(f_out, outs[i]), from_jd1=float(ob.jd1[i]).hex(),
                           from_jd2=float(ob.jd2[i]).hex(), back_jd1=float(k1[i]).hex(), back_jd2=float(k2[i]).hex(),
                           how=f"t = {how(f_in, scale, 'scalar', vals[i], vals2[i] if vals2 else None)}; Time(t.{f_out}, scale={scale!r}, fmt={f_out!r})")
                casesA.append(emit.pair(COQ_SCALE[scale], COQ_FMT[f_out], value_term(f_out, outs[i]), emit.dy(k1[i]), emit.dy(k2[i])))
                metaA.append(dict(rep, kind="to_jds(read-back value)"))
                ctx.case(("A2", scale, f_out, repr(outs[i])), nontrivial=True)
                uq = (T_exact[i] - JD2000) * US_DAY
                in_window = (-40000 * US_DAY < uq < 40000 * US_DAY and
                             1969 <= dt_of(uq.__floor__()).year <= 2068 and 1969 <= dt_of(uq.__floor__() + 1).year <= 2068)
                if f_out == "yydddsssss" and not in_window:
                    ctx.count("yy-outside-pivot-window(no round trip claimed)")
                    continue
                casesD.append(emit.pair(COQ_FMT[f_out], emit.dy(ob.jd1[i]), emit.dy(ob.jd2[i]), emit.dy(k1[i]), emit.dy(k2[i])))
                metaD.append(rep)
                ctx.case(("D", scale, f_out, ob.jd1[i], ob.jd2[i]), nontrivial=True)

        # E. scalar and length-1 forms of every element: same doubles, same strings
        for i in range(n):
            v2 = [vals2[i]] if vals2 else None
            for shape in ("scalar", "list", "array"):
                if shape == shape_n and n == 1:
                    continue
                label = f"{f_in}:{shape}"
                try:
                    ts = build(Time, f_in, scale, shape, [vals[i]], v2, WS)
                    os_ = Obs(ts, scale, formats)
                except Exception as e:
                    fid = None
                    if f_in in ("yydddsssss", "yyyydddsssss") and shape == "scalar":
                        fid = "c02_scalar_yds_raises"
                    elif f_in == "jyear" and shape == "list":
                        fid = "c02_jyear_list_raises"
                    direct.append((fid, f"{shape} input of format {f_in} raised {type(e).__name__}: {e} (the {shape_n} form works)",
                                   dict(kind="shape", scale=scale, fmt=f_in, shape=shape, value=jsonable(f_in, vals[i], vals2[i] if vals2 else None),
                                        raised=f"{type(e).__name__}: {e}", how=how(f_in, scale, shape, vals[i] if shape == "scalar" else [vals[i]], (v2[0] if shape == "scalar" else v2) if v2 else None))))
                    ctx.count(f"shape-raised:{label}")
                    continue
                ctx.count(f"shape:{shape}")
                a = [ob.jd1[i], ob.jd2[i]] + [ob.split[k][i] for k in range(4)]
                bb = [os_.jd1[0], os_.jd2[0]] + [os_.split[k][0] for k in range(4)]
                strs_equal = True
                for f_out in valid:
                    if f_out in ob.err or f_out in os_.err:
                        # a batch with one epoch before 1980 refuses the gps formats as a whole: not a shape difference
                        gps_refusal = f_out in GPS_ONLY and any(T < JD1980 for T in T_exact)
                        if (f_out in ob.err) != (f_out in os_.err) and not gps_refusal:
                            strs_equal = False
                        continue
                    x, y = ob.fmt[f_out][i], os_.fmt[f_out][0]
                    if f_out == "gps_ws":
                        a += list(x); bb += list(y)
                    elif f_out in TEXT or f_out == "datetime":
                        if x != y:
                            strs_equal = False
                    else:
                        a.append(x); bb.append(y)
                rep = dict(kind="shape", scale=scale, fmt=f_in, shape=shape, other_shape=shape_n, value=jsonable(f_in, vals[i], vals2[i] if vals2 else None),
                           observed_this=[float(x).hex() for x in bb], observed_other=[float(x).hex() for x in a],
                           how=how(f_in, scale, shape, vals[i] if shape == "scalar" else [vals[i]], (v2[0] if shape == "scalar" else v2) if v2 else None))
                if not strs_equal:
                    fid = "c02_scalar_datetime_val2_twice" if (f_in == "datetime" and shape == "scalar" and vals2) else None
                    direct.append((fid, f"text/datetime accessors differ between the {shape} and the {shape_n} form", rep))
                casesE.append(emit.pair(emit.lst(emit.dy(x) for x in a), emit.lst(emit.dy(x) for x in bb)))
                metaE.append(rep)
                ctx.case(("E", scale, f_in, shape, repr(vals[i])), nontrivial=True)
                # scalar: read every format back and build a new scalar Time from it
                if shape == "scalar" and rng.random() < 0.5:
                    for f_out in valid:
                        if f_out in os_.err or f_out in ob.err:
                            continue
                        val = os_.fmt[f_out][0]
                        try:
                            ts2 = build(Time, f_out, scale, "scalar", [val], None, WS)
                            ta2 = build(Time, f_out, scale, "list", [val], None, WS)
                        except Exception as e:
                            fid = "c02_scalar_yds_raises" if f_out in ("yydddsssss", "yyyydddsssss") else ("c02_jyear_list_raises" if f_out == "jyear" else None)
                            direct.append((fid, f"Time(t.{f_out}, fmt={f_out!r}) raised {type(e).__name__}: {e} for a scalar Time",
                                           dict(kind="scalar-readback", scale=scale, fmt=f_out, value=jsonable(f_out, val), raised=f"{type(e).__name__}: {e}",
                                                how=f"t = {how(f_in, scale, 'scalar', vals[i], vals2[i] if vals2 else None)}; Time(t.{f_out}, scale={scale!r}, fmt={f_out!r})")))
                            continue
                        casesE.append(emit.pair(emit.lst([emit.dy(x) for x in flt(ts2.jd1) + flt(ts2.jd2)]),
                                                emit.lst([emit.dy(x) for x in flt(ta2.jd1) + flt(ta2.jd2)])))
                        metaE.append(dict(kind="scalar-readback", scale=scale, fmt=f_out, value=jsonable(f_out, val),
                                          how=f"Time(v, scale={scale!r}, fmt={f_out!r}) vs Time([v], ...)"))
                        ctx.case(("E2", scale, f_out, repr(val)), nontrivial=True)

    # ---- G. cross-scale histories: two Time objects with bit-identical jd1/jd2 in two scales; whatever was read
    #         from the first (formats, scale conversions) must not influence what the second one returns
    n_hist = 24 if ctx.quick() else 300
    leap_years = [1981, 1985, 1990, 1992, 1997, 2005, 2008, 2012, 2015, 2016]   # years with a leap second (utc year longer than gps year)
    pairs = [(a, c) for a in scales for c in scales if a != c]
    for k in range(n_hist):
        sa, sb = pairs[k % len(pairs)] if k >= 6 else [("gps", "utc"), ("utc", "gps"), ("tai", "utc"), ("gps", "tt"), ("utc", "tai"), ("tcg", "gps")][k]
        if sa not in scales or sb not in scales:
            continue
        m = rng.choice([1, 1, 2, 3])
        us_list = []
        for _ in range(m):
            y = rng.choice(leap_years) if rng.random() < 0.7 else rng.randrange(1981, 2100)
            u0 = us_of(datetime(y, 1, 1))
            us_list.append(u0 + rng.randrange(150, 365) * US_DAY + rng.choice([0, US_DAY // 4, rng.randrange(US_DAY)]))
        shape = "scalar" if m == 1 and rng.random() < 0.6 else rng.choice(["list", "array"])
        mk = rng.choice(["jd", "datetime", "mjd"])
        kind = "day+frac" if mk != "datetime" else "one"
        vals, vals2 = make_input(rng, mk, kind, us_list)
        order = k % 2                                    # 0: read first object completely, 1: interleaved per format
        ctx.count(f"history:{sa}->{sb}:{shape}:order{order}")
        try:
            ta = build(Time, mk, sa, shape, vals, vals2, WS)
            tb = build(Time, mk, sb, shape, vals, vals2, WS)
            if flt(ta.jd1) != flt(tb.jd1) or flt(ta.jd2) != flt(tb.jd2):
                ctx.count("history:jd-not-identical")
                continue
            got = {}
            def read(t, f):
                try:
                    return ("ok", elems(f, getattr(t, f)))
                except ValueError as e:
                    return ("ValueError", str(e))
            if order == 0:
                for f in formats:
                    read(ta, f)
                for sc in scales:
                    getattr(ta, sc)
                for f in formats:
                    got[f] = read(tb, f)
            else:
                for f in formats:
                    read(ta, f)
                    got[f] = read(tb, f)
                    getattr(ta, sb)
            j1, j2 = flt(tb.jd1), flt(tb.jd2)
        except Exception as e:
            direct.append((None, f"cross-scale history raised {type(e).__name__}: {e}",
                           dict(kind="history", scales=[sa, sb], fmt=mk, shape=shape, values=[jsonable(mk, v, vals2[i] if vals2 else None) for i, v in enumerate(vals)])))
            continue
        hw = (f"a = Time(v, scale={sa!r}, fmt={mk!r}); b = Time(v, scale={sb!r}, fmt={mk!r}) with v = {vals!r}" + (f", val2 = {vals2!r}" if vals2 else "") +
              f"  [{shape}]; read every format (and scale) of a, then b.<fmt>")
        for f in formats:
            st, outs = got[f]
            rep = dict(kind="history", scales=[sa, sb], fmt_in=mk, shape=shape, accessor=f, order=order, how=hw,
                       observed=(outs if st != "ok" else [jsonable(f, o) for o in outs]))
            if f in GPS_ONLY and sb != "gps":
                if st == "ok":
                    direct.append((None, f".{f} of a {sb} Time returned a value after the same numbers were read as {sa} (the format is only valid for gps)", rep))
                continue
            if st != "ok":
                direct.append((None, f".{f} of the second object raised ValueError: {outs}", rep))
                continue
            if len(outs) != len(j1):
                direct.append((None, f".{f} of the second object has {len(outs)} elements for {len(j1)} epochs", rep))
                continue
            for i in range(len(j1)):
                casesB.append(emit.pair(COQ_SCALE[sb], COQ_FMT[f], emit.dy(j1[i]), emit.dy(j2[i]), value_term(f, outs[i])))
                metaB.append(dict(rep, jd1=float(j1[i]).hex(), jd2=float(j2[i]).hex(), observed=jsonable(f, outs[i])))
                ctx.case(("G", sa, sb, f, j1[i], j2[i], order), nontrivial=True)

    # ---- F. text input with 0..9 fraction digits (TimeStr._str2dt)
    n_frac = 150 if ctx.quick() else 1500
    for k in range(n_frac):
        f = rng.choice(["isot", "iso", "yday"])
        scale = rng.choice(scales)
        u = rand_epoch(rng) // 10 ** 6 * 10 ** 6
        d = dt_of(u)
        nd = rng.choice([0, 1, 2, 3, 5, 6, 7, 8, 9])
        if nd == 0:
            digits = ""
        elif rng.random() < 0.25:
            digits = ("9" * nd if rng.random() < 0.5 else "9" * (nd - 1) + rng.choice("4567"))
        else:
            digits = "".join(rng.choice("0123456789") for _ in range(nd))
        main = text_of(f, d)[:-7]
        s = main + ("." + digits if digits else "")
        shape = rng.choice(["scalar", "list"])
        ctx.count(f"frac-digits:{nd}")
        try:
            t = Time(s if shape == "scalar" else [s], scale=scale, fmt=f)
            j1, j2 = flt(t.jd1)[0], flt(t.jd2)[0]
        except Exception as e:
            direct.append((None, f"text {s!r} ({f}) raised {type(e).__name__}: {e}", dict(kind="text-fraction", fmt=f, text=s, shape=shape)))
            continue
        num = int(digits) if digits else 0
        casesF.append(emit.pair(COQ_FMT[f], emit.s(main + ".000000"), emit.z(num), str(10 ** len(digits)) + "%positive", emit.dy(j1), emit.dy(j2)))
        metaF.append(dict(kind="text-fraction", fmt=f, scale=scale, text=s, shape=shape, jd1=float(j1).hex(), jd2=float(j2).hex(),
                          read_back=str(np.atleast_1d(getattr(t, f))[0]), how=how(f, scale, shape, s)))
        ctx.case(("F", f, s), nontrivial=True)

    # ---------------------------------------------------------------- evaluate in Coq
    def ev(fn, cases, size=300):
        return emit.flatten_verdicts(ctx.coq_cases(emit.shard_terms(fn, cases, size), REQ), len(cases))
    ctx.log(f"cases: A={len(casesA)} B={len(casesB)} C={len(casesC)} D={len(casesD)} E={len(casesE)} F={len(casesF)}")
    flatA = ev("(check_to_jds gen_taiutc)", casesA)
    errsA = list(ctx.last_coq_errors)
    flatB = ev("(check_from_jds gen_taiutc)", casesB)
    errsB = list(ctx.last_coq_errors)
    flatC = ev("check_split", casesC, 400)
    flatD = ev("check_roundtrip", casesD, 500)
    flatE = ev("check_same", casesE, 300)
    flatF = ev("check_text_frac", casesF, 200)

    K_SPLIT = ("c02_split_rounded_sum", "jd_int/jd_frac (and the gps week/second/day) take the day from the rounded float sum jd1+jd2: "
               "within ~20 us before midnight jd_int is the next day and jd_frac is negative (outside [0,1))")
    names = dict(A="to_jds", B="from_jds", C="split", D="roundtrip", E="shape", F="text-fraction")
    for name, flat, meta, errs in (("A", flatA, metaA, errsA), ("B", flatB, metaB, errsB), ("C", flatC, metaC, []),
                                   ("D", flatD, metaD, []), ("E", flatE, metaE, []), ("F", flatF, metaF, [])):
        if flat is None:
            ctx.violation({"broken": f"correspondence shard {name} ({names[name]}) did not evaluate in Coq", "errors": (errs or ctx.last_coq_errors)[:2]},
                          what="correspondence (model evaluation) failed", found=False)
            continue
        for v, rep in zip(flat, meta):
            if v == 0:
                continue
            ctx.count(f"verdict:{name}:{v}")
            if v == 2 and name in ("B", "C"):
                ctx.finding(K_SPLIT[0], K_SPLIT[1], rep)
            elif v == 3 and name == "A":
                ctx.finding("c02_scalar_datetime_val2_twice",
                            "scalar Time(datetime, val2=timedelta, fmt='datetime') adds val2 twice (the list form adds it once)", rep)
            elif v == 4 and name == "F":
                ctx.finding("c02_text_fraction_carry_lost",
                            "TimeStr._str2dt: a text fraction that rounds up to 1.000000 at 6 digits is replaced by .000000 (one second lost)", rep)
            elif name == "E" and rep.get("fmt") == "datetime" and rep.get("shape") == "scalar" and isinstance(rep.get("value"), list):
                ctx.finding("c02_scalar_datetime_val2_twice",
                            "scalar Time(datetime, val2=timedelta, fmt='datetime') adds val2 twice (the list form adds it once)", rep)
            elif name == "D" and _near_midnight(rep):
                # consequence of the rounded-sum day: not a separate class
                ctx.finding(K_SPLIT[0], K_SPLIT[1], rep)
            else:
                ctx.violation(rep, what=f"midgard differs from the model ({names[name]}: {rep.get('kind')}, verdict {v})")
    for fid, what, rep in direct:
        if fid:
            known_what = {"c02_scalar_yds_raises": "scalar (string) input of yydddsssss / yyyydddsssss raises: TimeYyDddSssss._to_jds iterates over the characters and its scalar branch lacks `return`",
                          "c02_jyear_list_raises": "list input of format jyear raises TypeError (list - int); ndarray and scalar work",
                          "c02_scalar_datetime_val2_twice": "scalar Time(datetime, val2=timedelta, fmt='datetime') adds val2 twice (the list form adds it once)"}[fid]
            ctx.finding(fid, known_what, rep)
        else:
            ctx.violation(rep, what=what)
    if regen_err:
        ctx.violation({"broken": "Gen/C02_Tables.v could not be regenerated from the source", "error": regen_err},
                      what="regeneration failed: " + regen_err, found=False)

    if not ok and not ctx.violations:
        ctx.obligations_broken(lambda: search_oracle(Time, rng))
    ctx.trusted += [
        "Coq 8.16.1 kernel, coqc, vm_compute (no native_compute)",
        "hand-written model coq/theories/Model/C02_Formats.v (validated against midgard.data.time.Time by this run's correspondence)",
        "harness/drivers/c02.py (generators, reflection of constants/patterns/TAI-UTC rows into Gen/C02_Tables.v, calls of the implementation, term emission)",
        "CPython datetime/timedelta/strptime/strftime (used by the implementation; datetime +- timedelta and .timetuple().tm_yday also used to form inputs)",
    ]
    ctx.assume += [
        "epochs 1900-01-01 .. 2100-12-31; gps_ws / gps_seconds only on scale gps and from 1980-01-06",
        "yy:ddd:sssss round trip claimed only for years 1969..2068 (two-digit year, strptime pivot)",
        "decimalyear on utc uses the year length of the code (calendar days + leap seconds of that year / 86400; first TAI-UTC row before 1961)",
        "tolerances: two-part and grid forms 1 ns, single-float forms 100 us, datetime/ISO text 1 us, :sssss 1 s, date 1 day (property text)",
    ]
    return ctx.finish(
        level="proof",
        rule=("batches of 1..6 epochs (45% from the edge list: midnight/noon +-1us, 10/20/23 us before midnight, year ends, Feb 28/29/Mar 1 of "
              "1900/2000/2100 and others, strptime pivot years, GPS weeks 0/1/1023/1024/2047/2048/2094 +-; rest random day x "
              "{whole s, ms, us, special times}) x scale x input format (13) x input kind (one float, day+frac, noon+frac, float+rest, "
              "arbitrary split, datetime+timedelta, WeekSec) x list/ndarray; per element: A construction, B every accessor, C split, "
              "D read-back round trip through every format, E scalar / length-1 forms element-wise, F text with 0..9 fraction digits, "
              "G cross-scale histories (two Times with bit-identical jd1/jd2 in two scales, formats/scales of the first read before the second, "
              "two read orders; gps-only formats must still be refused). "
              "distinct_nontrivial = distinct (check kind, scale, format, value) tuples"),
    )


def _near_midnight(rep):
    """Round-trip miss explained by the rounded-sum day (gps week/seconds read within 25 us before midnight)."""
    try:
        T = Fraction(float.fromhex(rep["from_jd1"])) + Fraction(float.fromhex(rep["from_jd2"]))
    except Exception:
        return False
    fr = (T - Fraction(1, 2)) % 1
    return rep.get("fmt") == "gps_ws" and fr > 1 - Fraction(25, 86400 * 10 ** 6)


def search_oracle(Time, rng):
    """Property oracle on the implementation only (used when a proof obligation no longer checks):
    read every format of a Time and construct a new Time from it; compare the instants in exact arithmetic."""
    res = dict(jd=100e-6, mjd=100e-6, datetime=1e-6, gps_ws=1e-9, gps_seconds=100e-6, jyear=100e-6, decimalyear=100e-6,
               yydddsssss=1 + 1e-6, yyyydddsssss=1 + 1e-6, isot=1e-6, iso=1e-6, yday=1e-6, date=86400 + 1e-6)
    for u in edge_epochs() + gps_edge_epochs() + [rand_epoch(rng) for _ in range(300)]:
        for scale in ("utc", "gps"):
            if scale == "gps" and u < U_GPS0:
                continue
            t = Time(dt_of(u), scale=scale, fmt="datetime")
            T = Fraction(float(t.jd1)) + Fraction(float(t.jd2))
            if abs(T - jd_exact(u)) * 86400 > Fraction(1, 10 ** 9):
                return dict(what="Time(datetime).jd1+jd2 is not the instant of the datetime", epoch=dt_of(u).isoformat(), scale=scale)
            for f in Time.FORMATS:
                if f in GPS_ONLY and scale != "gps":
                    continue
                if f == "yydddsssss" and not 1969 <= dt_of(u).year <= 2068:
                    continue
                try:
                    v = getattr(t, f)
                    t2 = Time([v] if isinstance(v, str) else v, scale=scale, fmt=f)
                    T2 = Fraction(float(np.ravel(t2.jd1)[0])) + Fraction(float(np.ravel(t2.jd2)[0]))
                except Exception as e:
                    return dict(what=f"round trip through {f} raised {type(e).__name__}: {e}", epoch=dt_of(u).isoformat(), scale=scale, fmt=f)
                if abs(T2 - T) * 86400 > Fraction(res.get(f, 1e-4)).limit_denominator(10 ** 12):
                    return dict(what=f"round trip through {f} moves the instant by {float((T2 - T) * 86400)} s", epoch=dt_of(u).isoformat(),
                                scale=scale, fmt=f, value=str(v),
                                how=f"t = Time({dt_of(u)!r}, scale={scale!r}, fmt='datetime'); Time(t.{f}, scale={scale!r}, fmt={f!r})")
    return None


def replay(ctx, path):
    rep = json.load(open(path))
    print(json.dumps(rep, indent=1))
    print("re-run: VERIF_SEED=%s /venv/bin/python run_check.py C02 %s" % (rep.get("seed"), rep.get("tier", "quick")))
    if rep.get("how"):
        print("python: from midgard.data.time import Time; from datetime import datetime, timedelta; import numpy as np;", rep["how"])
    return 0
