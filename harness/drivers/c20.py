"""C20 - numeric helpers satisfy their defining identities (DESIGN 4.20).

Five sub-areas, each with theorems (coq/theories/Props/C20.v) and a correspondence with the code that is
evaluated inside Coq (vm_compute):

  units  midgard.math.unit.Unit (pint)            model Model/C20_Units.v  + Gen/C20_UnitTxt.v (unit.txt)
  dms    Unit.deg_to_dms/dms_to_deg/rad_to_dms/.. model Model/C20_Dms.v
  lag    midgard.math.interpolation.lagrange      model Model/C20_Lagrange.v (exact rational evaluation)
         + the laws on the SciPy-backed interpolators (no model of SciPy: partial)
  dop    midgard.gnss.compute_dops.compute_dops   model Model/C20_Dop.v (coq-interval for cos/sin)
  plate  midgard.math.plate_motion.PlateMotion    model Model/C20_Plate.v + Gen/C20_Plates.v (pole tables)
"""
from __future__ import annotations

import json
import math
import os
import re
from fractions import Fraction

import numpy as np

from harness import core, emit

META = {
    "property_id": "C20",
    "level": "proof",
    "design_ref": "DESIGN.md 4.20",
    "technique": ("Coq proofs (field/ring algebra over R and Q, induction over sample lists, polynomial root counting) on hand "
                  "models + tables regenerated from unit.txt / plate_motion_models + vm_compute correspondence with midgard "
                  "(exact rational evaluation, coq-interval enclosures for pi, cos, sin)"),
    "level_text": (
        "Theorems in Coq 8.16: unit factors val(a)/val(b) are reciprocal and transitive for all 49 units of the table "
        "(angles as rational multiples of pi); deg/min/sec decomposition round-trips for every rational angle, negative "
        "angles below one degree included (degree API over Q, radian API over R), and is the unique well-formed decomposition; the Lagrange interpolator as coded "
        "(argsort, argmin window, clamping, rescaling) reproduces the samples, is linear in the data, invariant under "
        "reordering of the samples, column-wise for n-d data, independent of the mean/std rescaling and reproduces every "
        "polynomial of degree < window; the piecewise-linear interpolator (interp1d linear) reproduces nodes and straight lines, is linear, "
        "permutation invariant and column-wise; GDOP^2 = PDOP^2 + TDOP^2 and PDOP^2 = HDOP^2 + VDOP^2 for every geometry, DOPs "
        "invariant under reordering and under a common azimuth rotation, four-satellite case (H^T H)^-1 = H^-1 H^-T; plate velocity omega x r "
        "perpendicular to r and omega, Euler pole spherical/cartesian round trip.  Each model is tied to the code on every run: unit.txt and the pole tables are regenerated into Coq, and "
        "all unit pairs/triples, angles in [-360,360], random sample sets / windows / 1-d and n-d data, satellite "
        "geometries and all plates x positions are run on midgard and compared with the models inside Coq."),
    "level_note": (
        "Partial: the SciPy-backed interpolators cubic, interpolated_univariate_spline and barycentric (linear is modelled) have no Coq "
        "model - only the laws (nodes, linearity, permutation where accepted, n-d = column-wise, storage type) are checked on the "
        "implementation.  DMS: degree API over Q, radian API over R (not executable; checked through a bracket of pi). "
        "DOP model rows are midpoints of (at most) 2^-80-wide coq-interval enclosures of cos/sin (comparison tolerance 1e-9 relative, "
        "widened by the condition estimate). Trusted: Coq kernel + vm_compute, coq-interval, the hand-written models "
        "(validated by the correspondence, not derived), pint's parsing of unit names in the regeneration of unit.txt."),
}

THEOREMS = [
    "unit_reciprocal", "unit_transitive", "unit_factor_symbolic", "unit_check_sound", "unit_txt_consistent",
    "dms_roundtrip", "dms_components_in_range", "dms_small_negative", "dms_unique", "dms_sign_of_value_refuted",
    "dms_roundtrip_rad", "dms_rad_components_in_range", "dms_rad_small_negative",
    "lagrange_nodes", "lagrange_linear_in_y", "lagrange_perm_invariant", "lagrange_reproduces_poly", "lagrange_ndim",
    "scaling_irrelevant",
    "linear_nodes", "linear_linear_in_y", "linear_perm_invariant", "linear_ndim", "linear_reproduces_affine", "linear_extrapolate_defined",
    "dop_pythagoras", "dop_pythagoras_geometry", "dop_perm_invariant", "dop_azimuth_invariant",
    "dop_square_case", "dop_square_wrong_product_refuted",
    "velocity_perp_position", "velocity_perp_pole", "velocity_perp_real", "spherical_cartesian_roundtrip",
]

REQ = ("From Verif Require Import Lib.Dyadic Model.C20_Units Model.C20_Dms Model.C20_Lagrange Model.C20_Linear Model.C20_Dop Model.C20_Plate.\n"
       "Open Scope string_scope.")

# names must equal the table of Model/C20_Units.v (a name unknown there gives verdict 3 = violation)
UNITS = {
    "length": ["meter", "kilometer", "decimeter", "centimeter", "millimeter", "micrometer", "nanometer", "angstrom", "inch",
               "foot", "yard", "mile", "nautical_mile", "Megameter", "astronomical_unit", "light_year"],
    "time": ["second", "millisecond", "microsecond", "nanosecond", "picosecond", "minute", "hour", "day", "week",
             "fortnight", "year", "julian_year", "century", "megasecond"],
    "angle": ["radian", "degree", "arcminute", "arcsecond", "milliarcsecond", "mas", "microarcsecond", "turn",
              "revolution", "grade"],
    "angrate": ["radian / second", "radian per year", "degree per year", "milliarcsecond per year", "masD", "degree per day"],
    "dimless": ["unit", "percent", "ppb"],
}
# spellings used inside the library -> canonical name of the table
ALIASES = [("m", "meter"), ("km", "kilometer"), ("meters", "meter"), ("inches", "inch"), ("deg", "degree"), ("degrees", "degree"),
           ("rad", "radian"), ("radians", "radian"), ("sec", "second"), ("secs", "second"), ("seconds", "second"), ("s", "second"),
           ("days", "day"), ("nanosecs", "nanosecond"), ("minutes", "minute"), ("hours", "hour"), ("weeks", "week"),
           ("milliarcsec", "milliarcsecond"), ("mm", "millimeter"), ("Mm", "Megameter"), ("ms", "millisecond"), ("Ms", "megasecond")]
# names that differ in letter case only, requested right after each other (a case-folding memo would confuse them)
CASE_PAIRS = [("Mm", "Megameter", "mm", "millimeter", "m", "meter"), ("Ms", "megasecond", "ms", "millisecond", "s", "second")]


# ============================================================================= regeneration
def _canon(tok):
    from midgard.math.unit import Unit
    return Unit._ureg.get_name(tok)


def parse_unit_txt(path):
    """unit.txt -> [(name, Fraction coefficient, [(canonical referenced unit, +-1)])]; fail-closed on unknown syntax."""
    defs = []
    for raw in open(path, encoding="utf8"):
        line = raw.split("#", 1)[0].strip()
        if not line:
            continue
        if line.startswith("@"):
            raise ValueError(f"unit.txt: directive not understood by the translator: {line!r}")
        parts = [p.strip() for p in line.split("=")]
        if len(parts) < 2:
            raise ValueError(f"unit.txt: not a definition: {line!r}")
        name, expr = parts[0], parts[1]
        coef, refs, sign = Fraction(1), [], 1
        toks = expr.replace("*", " * ").replace("/", " / ").split()
        expect_operand = True
        for tok in toks:
            if tok in ("*",):
                sign, expect_operand = 1, True
            elif tok in ("/", "per"):
                sign, expect_operand = -1, True
            elif tok == "[]":
                expect_operand = False
            elif re.fullmatch(r"[-+]?\d+(\.\d*)?([eE][-+]?\d+)?", tok):
                coef = coef * Fraction(tok) if sign > 0 else coef / Fraction(tok)
                sign, expect_operand = 1, False
            elif re.fullmatch(r"[A-Za-z_][A-Za-z_0-9]*", tok):
                refs.append((_canon(tok), sign))
                sign, expect_operand = 1, False
            else:
                raise ValueError(f"unit.txt: token {tok!r} not understood in {line!r}")
        if expect_operand and toks:
            raise ValueError(f"unit.txt: dangling operator in {line!r}")
        defs.append((name, coef, refs))
    return defs


def regen(ctx):
    defs = parse_unit_txt(os.path.join(core.REPO, "midgard", "math", "unit.txt"))
    body = ";\n".join(
        " " + emit.pair(emit.s(n), emit.q(c), emit.lst(emit.pair(emit.s(r), emit.zs(e)) for r, e in refs)) for n, c, refs in defs)
    ctx.regen("C20_UnitTxt",
              "From Coq Require Import ZArith QArith List String.\nImport ListNotations.\n"
              "Definition unit_txt : list (string * Q * list (string * Z)) := [\n" + body + "\n].\n")
    from midgard.collections import plate_motion_models as pmm
    rows = []
    for mname in sorted(pmm.models()):
        model = pmm.get(mname)
        for plate in model.plates:
            pole = model.poles[plate]
            w = [Fraction(repr(float(getattr(pole, k)))) for k in ("wx", "wy", "wz")]
            rows.append(" " + emit.pair(emit.s(mname), emit.s(plate), emit.s(str(pole.unit)),
                                        emit.pair(*(emit.q(v) for v in w))))
    ctx.regen("C20_Plates",
              "From Coq Require Import ZArith QArith List String.\nImport ListNotations.\n"
              "Definition plate_poles : list (string * string * string * (Q * Q * Q)) := [\n" + ";\n".join(rows) + "\n].\n")
    return defs


# ============================================================================= helpers
def dys(xs):
    return emit.lst(emit.dy(float(v)) for v in xs)


def fl(v):
    return float(v)


def coq_cases_retry(ctx, shards):
    """ctx.coq_cases; a shard whose coqc process was killed from outside (memory pressure of a shared machine:
    coqc prints just 'Killed') is evaluated once more, alone.  Any other failure is kept as a failure."""
    vs = ctx.coq_cases(shards, REQ)
    errors = list(ctx.last_coq_errors)
    for i, v in enumerate(vs):
        if v is None:
            err = next((o for p, o in errors if p.endswith(f"cases_{i:04d}.v")), "")
            if err.strip() in ("Killed", "") or "Killed" in err[-200:]:
                ctx.notes.append(f"shard {i} killed by the OS, evaluated again")
                again = ctx.coq_cases([shards[i]], REQ)
                vs[i] = again[0]
                if again[0] is None:
                    errors += ctx.last_coq_errors
    ctx.last_coq_errors = [e for e in errors] if any(v is None for v in vs) else []
    return vs


class Cases:
    """cases of one check function: term + replay info; evaluated in shards."""

    def __init__(self, fn, size):
        self.fn, self.size, self.terms, self.meta = fn, size, [], []

    def add(self, term, rep):
        self.terms.append(term)
        self.meta.append(rep)

    def run(self, ctx):
        shards = emit.shard_terms(self.fn, self.terms, self.size)
        vs = coq_cases_retry(ctx, shards)
        return emit.flatten_verdicts(vs, len(self.terms))


# ============================================================================= units
def unit_call(a, b):
    from midgard.math.unit import Unit
    return float(Unit(a, b))


def units_cases(ctx, fact, same, mism):
    from midgard.math.unit import Unit
    shards = []
    meta = []
    for dim, names in UNITS.items():
        mat = []
        for a in names:
            row = []
            for b in names:
                try:
                    v = unit_call(a, b)
                except Exception as e:
                    mism.append(dict(kind="unit", a=a, b=b, observed=f"{type(e).__name__}: {e}", how=f"Unit({a!r}, {b!r})"))
                    v = float("nan")
                row.append(v)
                fact.add(emit.pair(emit.s(a), emit.s(b), emit.dy(v)),
                         dict(kind="unit_factor", a=a, b=b, observed=repr(v), how=f"Unit({a!r}, {b!r})"))
                ctx.case(("unit", a, b), nontrivial=(a != b), sample=dict(a=a, b=b, factor=repr(v)) if (a, b) == ("degree", "milliarcsecond") else None)
                if re.fullmatch(r"[A-Za-z_]+", a) and re.fullmatch(r"[A-Za-z_]+", b):
                    try:
                        v2 = float(getattr(Unit, f"{a}2{b}"))
                    except Exception as e:
                        mism.append(dict(kind="unit", a=a, b=b, observed=f"{type(e).__name__}: {e}", how=f"Unit.{a}2{b}"))
                        continue
                    fact.add(emit.pair(emit.s(a), emit.s(b), emit.dy(v2)),
                             dict(kind="unit_factor", a=a, b=b, observed=repr(v2), how=f"Unit.{a}2{b}"))
                    ctx.case(("unit-attr", a, b), nontrivial=False)
            mat.append(row)
        ctx.count(f"units:{dim}:{len(names)}")
        shards.append("check_identities " + emit.lst(dys(r) for r in mat))
        meta.append((dim, names, mat))
    for alias, canon in ALIASES:
        dim = next(d for d, ns in UNITS.items() if canon in ns)
        for other in UNITS[dim][:4]:
            for a, b, ca, cb in ((alias, other, canon, other), (other, alias, other, canon)):
                try:
                    v = unit_call(a, b)
                except Exception as e:
                    mism.append(dict(kind="unit", a=a, b=b, observed=f"{type(e).__name__}: {e}", how=f"Unit({a!r}, {b!r})"))
                    continue
                fact.add(emit.pair(emit.s(ca), emit.s(cb), emit.dy(v)),
                         dict(kind="unit_factor", a=a, b=b, observed=repr(v), how=f"Unit({a!r}, {b!r})  [alias of {ca}/{cb}]"))
                ctx.case(("unit-alias", a, b), nontrivial=False)
        ctx.count("units:alias")
    # ---- history independence: every request of this process is repeated in another order (first the case-only
    # different names right after each other, then everything backwards); the factor must not depend on what was
    # requested before: compared with the model again and bit-for-bit with the first answer.
    first = []                                         # (a, b, canonical a, canonical b, value)
    for big, cbig, small, csmall, base, cbase in CASE_PAIRS:
        for a, ca in ((big, cbig), (small, csmall), (small, csmall), (big, cbig)):
            for x, y, cx, cy in ((a, base, ca, cbase), (base, a, cbase, ca)):
                try:
                    v = unit_call(x, y)
                except Exception as e:
                    mism.append(dict(kind="unit", a=x, b=y, observed=f"{type(e).__name__}: {e}", how=f"Unit({x!r}, {y!r})"))
                    continue
                first.append((x, y, cx, cy, v))
                fact.add(emit.pair(emit.s(cx), emit.s(cy), emit.dy(v)),
                         dict(kind="unit_factor", a=x, b=y, observed=repr(v), how=f"Unit({x!r}, {y!r}) requested right after its case-twin [= {cx}/{cy}]"))
                ctx.case(("unit-case", x, y, len(first)), nontrivial=True)
    for dim, names, mat in meta:
        for i, a in enumerate(names):
            for j, b in enumerate(names):
                first.append((a, b, a, b, mat[i][j]))
    order = list(range(len(first)))
    order.reverse()
    k = ctx.rng.randrange(1, len(order))
    order = order[k:] + order[:k]                      # backwards, rotated
    for idx in order:
        x, y, cx, cy, v1 = first[idx]
        try:
            v2 = unit_call(x, y)
        except Exception as e:
            mism.append(dict(kind="unit", a=x, b=y, observed=f"{type(e).__name__}: {e}", how=f"Unit({x!r}, {y!r}) (second request)"))
            continue
        rep = dict(kind="unit_repeat", a=x, b=y, first=repr(v1), second=repr(v2),
                   how=f"Unit({x!r}, {y!r}) requested a second time in the same process, after the other units in reverse order")
        same.add(emit.pair(emit.dy(v1), emit.dy(v2)), rep)
        fact.add(emit.pair(emit.s(cx), emit.s(cy), emit.dy(v2)), dict(rep, kind="unit_factor", observed=repr(v2)))
        ctx.case(("unit-repeat", x, y, idx), nontrivial=False)
    ctx.count("units:repeated-requests", len(order))
    vs = coq_cases_retry(ctx, shards)
    return vs, meta


# ============================================================================= dms
def gen_angles(rng, n):
    xs = [0.0, -0.0, 360.0, -360.0, 1.0, -1.0, math.nextafter(1.0, 0.0), -math.nextafter(1.0, 0.0), 5e-324, -5e-324,
          1e-300, -1e-300, -0.3333263527777778, 59.91453333333334, -12.582441388888888, 30.0, -30.0, 0.5, -0.5,
          -1.0 / 60, -1.0 / 3600, 1.0 / 60, 359.99999999999994, -359.99999999999994, 180.0, -180.0, 90.0, -0.9999999999999999]
    for _ in range(n):
        r = rng.random()
        if r < 0.3:
            xs.append(rng.uniform(-360.0, 360.0))
        elif r < 0.55:
            xs.append(-rng.random())                                   # (-1, 0)
        elif r < 0.65:
            xs.append(-rng.random() * 10 ** -rng.randrange(1, 12))       # tiny negative
        elif r < 0.8:
            d, m, s = rng.randrange(0, 360), rng.randrange(0, 60), rng.randrange(0, 60)
            xs.append(rng.choice([-1, 1]) * (d + m / 60 + s / 3600))   # on (or next to) cell boundaries
        elif r < 0.9:
            xs.append(float(rng.randrange(-360, 361)))
        else:
            xs.append(rng.choice([-1, 1]) * rng.randrange(0, 360 * 1024) / 1024.0)
    return xs


def dms_corpus(ctx, cs, mism, quick):
    """Directed corpus, independent of the seed, run before the random stream: "written-down" angles in [-360, 360] -
    whole arcminutes k/60, whole arcseconds k/3600, hundredths and tenths of a degree, d + m/60 - positive and negative,
    whole arrays and scalars, degree and radian API.  Such angles sit within an ulp of a (deg, min) cell boundary, where
    floor(minutes) and the seconds remainder must still belong to the same cell (13' 59.99999" or 14' 0.0", never 14' 59.99999")."""
    from midgard.math.unit import Unit
    deg2rad = math.pi / 180.0
    st = (29, 9973, 97, 13) if quick else (2, 211, 5, 1)
    groups = [
        ("arcmin", [k / 60.0 for k in range(-21600, 21601, st[0])]),
        ("arcsec", [k / 3600.0 for k in range(-1296000, 1296001, st[1])]),
        ("hundredth", [k / 100.0 for k in range(-36000, 36001, st[2])]),
        ("tenth", [k / 10.0 for k in range(-3600, 3601, st[3])]),
        ("deg+min/60", [sg * (d + m / 60.0) for sg in (1, -1) for d in ((0, 29, 359) if quick else (0, 1, 29, 59, 180, 359)) for m in range(60)]),
    ]

    def add(api, x, d, m, s, bk, how, label):
        rep = dict(kind="dms", api=api, x=repr(x), x_hex=float(x).hex(), dms=[repr(d), repr(m), repr(s)], back=repr(bk), how=how, corpus=label)
        cs.add(emit.pair(emit.z(api), emit.dy(x), emit.pair(emit.dy(d), emit.dy(m), emit.dy(s)), emit.dy(bk)), rep)
        ctx.case(("dms-corpus", api, float(x).hex(), how), nontrivial=True)

    for label, xs in groups:
        for api in (0, 1):
            arr = np.array(xs) if api == 0 else np.array(xs) * deg2rad
            if api == 1 and label not in ("arcmin", "deg+min/60"):
                arr = arr[::4]
            fwd, back = (Unit.deg_to_dms, Unit.dms_to_deg) if api == 0 else (Unit.rad_to_dms, Unit.dms_to_rad)
            name = "deg" if api == 0 else "rad"
            how = f"Unit.dms_to_{name}(*Unit.{name}_to_dms(np.array(angles)))  [{label} corpus, whole array]"
            try:
                d, m, s = fwd(arr)
                bk = back(d, m, s)
                for i in range(len(arr)):
                    add(api, float(arr[i]), float(d[i]), float(m[i]), float(s[i]), float(bk[i]), how, label)
            except Exception as e:
                mism.append(dict(kind="dms", api=api, x=f"{label} corpus ({len(arr)} angles)", observed=f"{type(e).__name__}: {e}", how=how))
            # the same through scalar calls, every 17th angle
            hows = f"Unit.dms_to_{name}(*Unit.{name}_to_dms(x))  [{label} corpus, scalar]"
            for x in arr[::17]:
                x = float(x)
                try:
                    d, m, s = fwd(x)
                    add(api, x, float(d), float(m), float(s), float(back(d, m, s)), hows, label)
                except Exception as e:
                    mism.append(dict(kind="dms", api=api, x=repr(x), observed=f"{type(e).__name__}: {e}", how=hows))
            ctx.count(f"dms:corpus:{label}:{name}", len(arr))


def dms_cases(ctx, cs, mism, n):
    from midgard.math.unit import Unit
    rng = ctx.rng
    angles = gen_angles(rng, n)
    deg2rad = math.pi / 180.0

    def one(api, x, via_array):
        fwd, back = (Unit.deg_to_dms, Unit.dms_to_deg) if api == 0 else (Unit.rad_to_dms, Unit.dms_to_rad)
        how = ("Unit.dms_to_deg(*Unit.deg_to_dms(x))" if api == 0 else "Unit.dms_to_rad(*Unit.rad_to_dms(x))") + (" on np.array([x])" if via_array else "")
        try:
            if via_array:
                d, m, s = fwd(np.array([x]))
                bk = back(d, m, s)
                d, m, s, bk = float(d[0]), float(m[0]), float(s[0]), float(bk[0])
            else:
                d, m, s = fwd(x)
                bk = float(back(d, m, s))
                d, m, s = float(d), float(m), float(s)
        except Exception as e:
            mism.append(dict(kind="dms", api=api, x=repr(x), observed=f"{type(e).__name__}: {e}", how=how))
            return
        rep = dict(kind="dms", api=api, x=repr(x), x_hex=float(x).hex(), dms=[repr(d), repr(m), repr(s)], back=repr(bk), how=how)
        cs.add(emit.pair(emit.z(api), emit.dy(x), emit.pair(emit.dy(d), emit.dy(m), emit.dy(s)), emit.dy(bk)), rep)
        small_neg = -1.0 < x < 0.0 if api == 0 else -deg2rad < x < 0.0
        ctx.case(("dms", api, float(x).hex(), via_array), nontrivial=True, sample=rep if small_neg and len(cs.terms) % 50 == 7 else None)
        ctx.count("dms:" + ("deg" if api == 0 else "rad") + (":(-1deg,0)" if small_neg else ":zero" if x == 0 else ":other"))

    for i, x in enumerate(angles):
        one(0, x, via_array=(i % 3 == 0))
        one(1, x * deg2rad, via_array=(i % 3 == 1))


def hms_cases(ctx, cs, mism, n):
    from midgard.math.unit import Unit
    rng = ctx.rng
    for i in range(n):
        h, m = rng.randrange(0, 24), rng.randrange(0, 60)
        s = rng.choice([0.0, 59.999999, rng.uniform(0, 60)])
        try:
            r = float(Unit.hms_to_rad(float(h), m, s))
        except Exception as e:
            mism.append(dict(kind="hms", h=h, m=m, s=repr(s), observed=f"{type(e).__name__}: {e}", how="Unit.hms_to_rad(h, m, s)"))
            continue
        cs.add(emit.pair(emit.dy(h), emit.dy(m), emit.dy(s), emit.dy(r)),
               dict(kind="hms", h=h, m=m, s=repr(s), observed=repr(r), how="Unit.hms_to_rad(float(h), m, s)"))
        ctx.case(("hms", h, m, float(s).hex()), nontrivial=True)
    ctx.count("hms", n)


# ============================================================================= interpolation
def gen_samples(rng, style=None):
    """strictly increasing abscissae with random spacing, exactly representable differences."""
    style = style or rng.choice(["int", "int", "int", "unit"])
    if style == "int":
        n = rng.choice([3, 4, 5, 7, 10, 12, 13, 20, 33, 60, rng.randrange(3, 61)])
        lo, hi = rng.choice([(1, 10), (1, 100), (5, 500), (900, 901), (1, 2)])
        x0 = rng.choice([0, 0, -50, 1000, 10 ** 6, -10 ** 5, rng.randrange(-10 ** 6, 10 ** 6)])
        xs = [float(x0)]
        for _ in range(n - 1):
            xs.append(xs[-1] + float(rng.randrange(lo, hi + 1)))
        grid = 16.0
    else:
        n = rng.randrange(3, 9)
        vals = sorted({1.0 + rng.random() * 0.999 for _ in range(n)})
        while len(vals) < 3:
            vals = sorted(set(vals) | {1.0 + rng.random() * 0.999})
        xs, grid = vals, None
    return style, xs, grid


def gen_xnew(rng, xs, grid, k):
    out = [xs[0], xs[-1], rng.choice(xs)]
    i = rng.randrange(0, len(xs) - 1)
    out.append((xs[i] + xs[i + 1]) / 2)                      # exact tie between two nodes when representable
    for _ in range(k):
        if grid:
            span = int((xs[-1] - xs[0]) * grid)
            out.append(xs[0] + rng.randrange(0, span + 1) / grid)
        else:
            out.append(min(max(rng.uniform(xs[0], xs[-1]), xs[0]), xs[-1]))
    # window selection at the ends of the range
    out.append(xs[0] + (xs[1] - xs[0]) / 4)
    out.append(xs[-1] - (xs[-1] - xs[-2]) / 4)
    rng.shuffle(out)
    return out[: k + 3]


def gen_y(rng, xs, shape_tail):
    n = len(xs)
    kind = rng.choice(["rand", "rand", "poly", "smooth"])
    cols = int(np.prod(shape_tail)) if shape_tail else 1
    ys = np.zeros((n, cols))
    xa = np.array(xs)
    u = (xa - xa.mean()) / (xa.std() or 1.0)
    for c in range(cols):
        if kind == "rand":
            ys[:, c] = [rng.gauss(0, 1) * rng.choice([1, 1e3, 1e-3]) for _ in range(n)]
        elif kind == "poly":
            co = [rng.randrange(-5, 6) for _ in range(rng.randrange(1, 4))]
            ys[:, c] = sum(k * u ** i for i, k in enumerate(co))
        else:
            ys[:, c] = np.sin(u * rng.uniform(0.5, 3)) + rng.uniform(-1, 1)
    return kind, ys.reshape((n,) + tuple(shape_tail)) if shape_tail else ys[:, 0]


def lag_observe(x, y, xnew, xdtype="float64", ydtype="float64", **kw):
    from midgard.math import interpolation
    try:
        r = interpolation.interpolate(np.array(x, dtype=float).astype(xdtype), np.array(y, dtype=float).astype(ydtype), np.array(xnew, dtype=float), kind="lagrange", **kw)
    except ValueError as e:
        return None, f"ValueError: {e}"
    return np.asarray(r, dtype=float), None


def lag_term(w, srt, bnd, ncols, x, yrows, t, res):
    pts = emit.lst(emit.pair(emit.dy(xi), dys(row)) for xi, row in zip(x, yrows))
    r = "None" if res is None else "(Some " + dys(res) + ")"
    return emit.pair(emit.pair(emit.nat(w), emit.b(srt), emit.b(bnd)), emit.nat(ncols), pts, emit.dy(t), r)


def lagrange_corpus(ctx, cs):
    """earlier failures first: 3-d y whose second axis equals the window and the number of x_new in one window
    (np.matmul broadcasts r.T @ y_wd as a stack of matrices: silently wrong values, otherwise ValueError)."""
    rng = ctx.rng
    x = [float(k) for k in range(11)]
    y = np.array([[[rng.gauss(0, 1) for _ in range(2)] for _ in range(3)] for _ in range(11)])
    xnew = [4.625, 4.875, 5.25]
    res, err = lag_observe(x, y, xnew, window=3)
    for k, t in enumerate(xnew):
        row = None if res is None else np.asarray(res[k], dtype=float).reshape(6)
        rep = dict(kind="lagrange", x=[repr(v) for v in x], y=y.tolist(), y_ndim=3, x_new=repr(t), all_x_new=xnew, options=dict(window=3), mode="corpus-3d",
                   observed=(err if res is None else row.tolist()),
                   how="interpolation.interpolate(np.array(x), np.array(y), np.array(all_x_new), kind='lagrange', window=3)[k]")
        cs.add(lag_term(3, False, True, 6, x, y.reshape(11, 6), t, row), rep)
        ctx.case(("lag-corpus", k), nontrivial=True)
    ctx.count("lagrange:corpus-3d")


def lagrange_cases(ctx, cs, mism, nsets):
    rng = ctx.rng
    lagrange_corpus(ctx, cs)
    for it in range(nsets):
        style, xs, grid = gen_samples(rng)
        n = len(xs)
        wmax = min(12, n) if style == "int" else min(5, n)
        w = rng.randrange(3, wmax + 1)
        shape_tail = rng.choice([(), (), (2,), (3,), (2, 2)]) if style == "int" else rng.choice([(), (2,)])
        ykind, y = gen_y(rng, xs, shape_tail)
        ncols = int(np.prod(shape_tail)) if shape_tail else 1
        order = list(range(n))
        mode = rng.choice(["sorted", "shuffled", "shuffled", "assume_sorted", "assume_sorted_but_not", "dup", "extrap", "below", "above",
                           "window_too_big", "window_too_small"] if it % 3 == 0 else ["sorted", "shuffled"])
        kw = dict(window=w)
        x_in = list(xs)
        xnew = gen_xnew(rng, xs, grid, 3 if w > 8 else 5)
        if mode in ("shuffled", "assume_sorted_but_not"):
            rng.shuffle(order)
            if order == sorted(order):
                order.reverse()
        if mode in ("assume_sorted", "assume_sorted_but_not"):
            kw["assume_sorted"] = True
        if mode == "dup":
            j = rng.randrange(1, n)
            x_in[j] = x_in[j - 1]
        if mode == "extrap":
            kw["bounds_error"] = False
            xnew = [xs[0] - (xs[1] - xs[0]) / 2, xs[-1] + (xs[-1] - xs[-2]) / 2] + xnew[:2]
        if mode == "below":
            xnew = [xs[0] - (xs[1] - xs[0]) / 2]
        if mode == "above":
            xnew = [xs[-1] + (xs[-1] - xs[-2]) / 2]
        if mode == "window_too_big":
            kw["window"] = w = n + 1
        if mode == "window_too_small":
            kw["window"] = w = 2
        xi = [x_in[k] for k in order]
        yi = np.asarray(y)[order]
        res, err = lag_observe(xi, yi, xnew, **kw)
        yrows = np.asarray(yi, dtype=float).reshape(n, ncols)
        ctx.count(f"lagrange:{style}:{mode}:n{'<=12' if n <= 12 else '>12'}:w{w}:ncols{ncols}")
        for k, t in enumerate(xnew):
            row = None if res is None else np.asarray(res[k], dtype=float).reshape(ncols)
            rep = dict(kind="lagrange", x=[repr(v) for v in xi], y=np.asarray(yi).tolist(), y_ndim=int(np.asarray(yi).ndim), x_new=repr(t), options=kw, mode=mode,
                       observed=(err if res is None else row.tolist()),
                       how="interpolation.interpolate(np.array(x), np.array(y), np.array([x_new]), kind='lagrange', **options)")
            cs.add(lag_term(w, kw.get("assume_sorted", False), kw.get("bounds_error", True), ncols, xi, yrows, t, row), rep)
            ctx.case(("lag", tuple(xi), w, repr(kw), float(t).hex(), yrows.tobytes()), nontrivial=(res is not None),
                     sample=dict(n=n, window=w, mode=mode, x_new=repr(t), ncols=ncols) if it < 2 and k == 0 else None)
            if res is None:
                break       # the call raised as a whole: one case is enough


# ----------------------------------------------------------------------------- linear (exact model)
def linear_cases(ctx, cs, mism, nsets):
    """interpolate(kind='linear') against the exact piecewise-linear model: arbitrary doubles (segment selection uses
    comparisons only), 1-/2-/3-d y, shuffled samples, default / bounds_error=False / fill_value='extrapolate'."""
    from midgard.math import interpolation
    rng = ctx.rng
    for it in range(nsets):
        style = rng.choice(["int", "float", "float"])
        if style == "int":
            _, xs, _ = gen_samples(rng, "int")
        else:
            n = rng.choice([2, 3, 5, 9, 17, rng.randrange(2, 61)])
            xs = sorted({rng.uniform(-1e3, 1e3) * rng.choice([1, 1e-3, 1e3]) for _ in range(n)})
            if len(xs) < 2:
                xs = [0.0, 1.0]
        n = len(xs)
        shape_tail = rng.choice([(), (), (2,), (3,), (2, 2)])
        _, y = gen_y(rng, xs, shape_tail)
        ncols = int(np.prod(shape_tail)) if shape_tail else 1
        order = list(range(n))
        if rng.random() < 0.6:
            rng.shuffle(order)
        xi = [xs[k] for k in order]
        yi = np.asarray(y)[order]
        fc = rng.choice([0, 0, 1, 2])
        kw = {0: {}, 1: dict(bounds_error=False), 2: dict(fill_value="extrapolate")}[fc]
        span = xs[-1] - xs[0]
        inside = [xs[0], xs[-1], rng.choice(xs), (xs[0] + xs[1]) / 2] + [rng.uniform(xs[0], xs[-1]) for _ in range(3)]
        inside = [min(max(t, xs[0]), xs[-1]) for t in inside]
        outside = [xs[0] - span * rng.choice([1e-9, 0.3, 2.0]), xs[-1] + span * rng.choice([1e-9, 0.3, 2.0])]
        outside = [t for t in outside if t < xs[0] or t > xs[-1]]
        calls = [inside] + ([[t] for t in outside] if fc == 0 else [outside + inside[:2]] if outside else [])
        yrows = np.asarray(yi, dtype=float).reshape(n, ncols)
        for xnew in calls:
            try:
                res = np.asarray(interpolation.interpolate(np.array(xi), np.array(yi, dtype=float), np.array(xnew), kind="linear", **kw), dtype=float)
                err = None
            except ValueError as e:
                res, err = None, f"ValueError: {e}"
            except Exception as e:
                mism.append(dict(kind="linear", x=[repr(v) for v in xi], x_new=[repr(v) for v in xnew], options=repr(kw), observed=f"{type(e).__name__}: {e}",
                                 how="interpolate(x, y, x_new, kind='linear', **options)"))
                continue
            for k, t in enumerate(xnew):
                row = None if res is None else np.asarray(res[k], dtype=float).reshape(ncols)
                rep = dict(kind="linear", x=[repr(v) for v in xi], y=np.asarray(yi).tolist(), x_new=repr(t), all_x_new=[repr(v) for v in xnew], options=repr(kw),
                           observed=(err if res is None else row.tolist()),
                           how="interpolation.interpolate(np.array(x), np.array(y), np.array(all_x_new), kind='linear', **options)[k]")
                pts = emit.lst(emit.pair(emit.dy(a), dys(r)) for a, r in zip(xi, yrows))
                cs.add(emit.pair(emit.z(fc), pts, emit.dy(t), "None" if row is None else "(Some " + dys(row) + ")"), rep)
                ctx.case(("linear", tuple(xi), fc, float(t).hex(), yrows.tobytes()), nontrivial=True,
                         sample=dict(n=n, fill=fc, x_new=repr(t), ncols=ncols) if it < 1 and k == 0 else None)
                if res is None:
                    break
        ctx.count(f"linear:{style}:fill{fc}:ncols{ncols}:n{'<=5' if n <= 5 else '>5'}")


SCIPY_KINDS = ["linear", "cubic", "interpolated_univariate_spline", "barycentric_interpolator"]
ACCEPTS_UNSORTED = {"lagrange": True, "linear": True, "cubic": True, "interpolated_univariate_spline": False,
                    "barycentric_interpolator": True}
LAW_REL = Fraction(1, 10 ** 9)


def law_cases(ctx, rows_cs, lin_cs, mism, nsets):
    """nodes / linearity / permutation / n-d = column-wise, on the implementation alone, all five interpolators."""
    from midgard.math import interpolation
    rng = ctx.rng

    def call(kind, x, y, xn, **kw):
        return np.asarray(interpolation.interpolate(np.array(x, dtype=float), np.array(y, dtype=float), np.array(xn, dtype=float), kind=kind, **kw), dtype=float)

    for it in range(nsets):
        kind = (SCIPY_KINDS + ["lagrange"])[it % 5]
        if kind == "barycentric_interpolator":
            n = rng.randrange(3, 9)
            xs = [float(rng.randrange(0, 5))]
            for _ in range(n - 1):
                xs.append(xs[-1] + float(rng.randrange(2, 7)))
        else:
            _, xs, _ = gen_samples(rng, "int")
            n = len(xs)
            if kind in ("cubic", "interpolated_univariate_spline") and n < 4:
                xs.append(xs[-1] + 3.0)
                n += 1
        kw = dict(window=rng.randrange(3, min(12, n) + 1)) if kind == "lagrange" else {}
        y = np.array([rng.gauss(0, 1) for _ in range(n)])
        z = np.array([rng.gauss(0, 1) for _ in range(n)])
        a, b = rng.choice([2.0, -0.5, 3.25]), rng.choice([1.0, -1.5, 0.125])
        xn = sorted(rng.uniform(xs[0], xs[-1]) for _ in range(4)) + [xs[0], xs[-1], xs[n // 2]]
        base = dict(kind_of_interpolator=kind, x=[repr(v) for v in xs], y=y.tolist(), z=z.tolist(), a=a, b=b, x_new=[repr(v) for v in xn], options=kw)
        try:
            scale = float(max(np.max(np.abs(y)), np.max(np.abs(z)), 1.0) * (abs(a) + abs(b)))
            # nodes
            fy_nodes = call(kind, xs, y, xs, **kw)
            rows_cs.add(emit.pair(emit.q(LAW_REL), emit.dy(scale), dys(y), dys(fy_nodes)),
                        dict(base, kind="law_nodes", observed=fy_nodes.tolist(), how=f"interpolate(x, y, x, kind={kind!r}) must return y"))
            # linearity
            fy, fz, fyz = call(kind, xs, y, xn, **kw), call(kind, xs, z, xn, **kw), call(kind, xs, a * y + b * z, xn, **kw)
            lin_cs.add(emit.pair(emit.q(LAW_REL), emit.dy(scale), emit.pair(emit.dy(a), emit.dy(b)), emit.pair(dys(fy), dys(fz), dys(fyz))),
                       dict(base, kind="law_linear", observed=dict(fy=fy.tolist(), fz=fz.tolist(), f_combination=fyz.tolist()),
                            how=f"interpolate(x, a*y + b*z, x_new, kind={kind!r}) must equal a*f(y) + b*f(z)"))
            # n-d = column-wise (2-d and 3-d y)
            Y = np.stack([y, z, a * y + b * z], axis=1)
            fY = call(kind, xs, Y, xn, **kw)
            for c, col in enumerate((fy, fz, fyz)):
                rows_cs.add(emit.pair(emit.q(LAW_REL), emit.dy(scale), dys(col), dys(fY[:, c])),
                            dict(base, kind="law_ndim", column=c, observed=fY[:, c].tolist(),
                                 how=f"interpolate(x, np.stack([y, z, a*y+b*z], axis=1), x_new, kind={kind!r})[:, c] must equal the 1-d result"))
            Y3 = np.stack([Y, -Y], axis=2)
            try:
                fY3 = call(kind, xs, Y3, xn, **kw)
            except ValueError as e:
                fY3 = None
                mism.append(dict(base, kind="law_ndim", y_ndim=3, observed=f"ValueError: {e}",
                                 how=f"interpolate(x, Y3, x_new, kind={kind!r}) with Y3 = np.stack([Y, -Y], axis=2), Y = np.stack([y, z, a*y+b*z], axis=1)"))
            if fY3 is not None:
                rows_cs.add(emit.pair(emit.q(LAW_REL), emit.dy(scale), dys(fz), dys(fY3[:, 1, 0])),
                            dict(base, kind="law_ndim", y_ndim=3, column="[1,0] of 3-d", observed=fY3[:, 1, 0].tolist(),
                                 how=f"3-d y, kind={kind!r}: y_new[:, 1, 0] must equal the 1-d result for z"))
            # permutation of the samples
            perm = list(range(n))
            rng.shuffle(perm)
            if ACCEPTS_UNSORTED[kind]:
                fp = call(kind, [xs[k] for k in perm], y[perm], xn, **kw)
                rows_cs.add(emit.pair(emit.q(LAW_REL), emit.dy(scale), dys(fy), dys(fp)),
                            dict(base, kind="law_perm", perm=perm, observed=fp.tolist(),
                                 how=f"interpolate(x[perm], y[perm], x_new, kind={kind!r}) must equal the unpermuted result"))
                ctx.count(f"law:{kind}:perm")
            else:
                ctx.count(f"law:{kind}:perm-not-accepted")
        except Exception as e:
            mism.append(dict(base, kind="law", observed=f"{type(e).__name__}: {e}", how=f"interpolate(..., kind={kind!r})"))
            continue
        ctx.count(f"law:{kind}")
        ctx.case(("law", kind, tuple(xs), y.tobytes(), z.tobytes()), nontrivial=True)


# ----------------------------------------------------------------------------- storage type of the samples
DTYPES = ["int64", "int32", "float32"]


def dtype_cases(ctx, lag_cs, rows_cs, lin_cs, mism, nsets):
    """The same integer-valued samples stored as int64 / int32 / float32 arrays (x as float64 or as integers):
    values exactly representable in every type, so the exact model and the float64 run are the reference.
    All five interpolators, 1-d and 2-d y, evaluated away from the nodes: Lagrange against the exact model,
    every interpolator against its own float64 run, n-d = column-wise and linearity on the typed data.
    (Python lists are rejected by every interpolator with AttributeError - `.ndim` - and are outside the domain.)"""
    from midgard.math import interpolation
    rng = ctx.rng

    def call(kind, x, y, xn, **kw):
        return np.asarray(interpolation.interpolate(x, y, xn, kind=kind, **kw))

    for it in range(nsets):
        n = rng.randrange(5, 16)
        xs = [rng.randrange(-20, 20)]
        for _ in range(n - 1):
            xs.append(xs[-1] + rng.randrange(1, 6))
        yd = DTYPES[it % 3]
        xd = rng.choice(["float64", "float64", "int64", "int32"])
        x_arr = np.array(xs, dtype=xd)
        x_f = np.array(xs, dtype=float)
        Y = np.array([[rng.randrange(-1000, 1001) for _ in range(3)] for _ in range(n)])
        Z = np.array([[rng.randrange(-1000, 1001) for _ in range(3)] for _ in range(n)])
        a, b = rng.choice([2, -3, 5]), rng.choice([3, -1, 4])
        Yt, Zt = Y.astype(yd), Z.astype(yd)
        scale = float(1000 * (abs(a) + abs(b)))
        xs_all, Y_all, Z_all = xs, Y, Z
        for kind in ["lagrange"] + SCIPY_KINDS:
            m = min(n, 8) if kind == "barycentric_interpolator" else n       # one polynomial through all nodes: keep it well conditioned
            xs, Y, Z = xs_all[:m], Y_all[:m], Z_all[:m]
            x_arr, x_f, Yt, Zt = np.array(xs, dtype=xd), np.array(xs, dtype=float), Y.astype(yd), Z.astype(yd)
            # away from the nodes: odd multiples of 1/16 between the first and the last node
            xn = np.array(sorted(xs[0] + (2 * rng.randrange(0, 8 * (xs[-1] - xs[0])) + 1) / 16.0 for _ in range(4)))
            w = rng.randrange(3, min(6, m) + 1)
            kw = dict(window=w) if kind == "lagrange" else {}
            base = dict(kind_of_interpolator=kind, x=[repr(float(v)) for v in xs], x_dtype=xd, y_dtype=yd, y=Y.tolist(), z=Z.tolist(), a=a, b=b,
                        x_new=[repr(float(v)) for v in xn], options=kw)
            how = f"interpolate(np.array(x, dtype={xd!r}), np.array(y, dtype={yd!r})[...], np.array(x_new), kind={kind!r}, **options)"
            try:
                ref2 = call(kind, x_f, Y.astype(float), xn, **kw)            # float64 run of the same data
                got2 = call(kind, x_arr, Yt, xn, **kw)                      # typed, 2-d
                got1 = [call(kind, x_arr, Yt[:, c], xn, **kw) for c in range(3)]      # typed, 1-d columns
                gz2 = call(kind, x_arr, Zt, xn, **kw)
                gyz2 = call(kind, x_arr, a * Yt + b * Zt, xn, **kw)
            except Exception as e:
                mism.append(dict(base, kind="law_dtype", observed=f"{type(e).__name__}: {e}", how=how))
                continue
            for c in range(3):
                rows_cs.add(emit.pair(emit.q(LAW_REL), emit.dy(scale), dys(ref2[:, c]), dys(got2[:, c])),
                            dict(base, kind="law_dtype", column=c, observed=np.asarray(got2[:, c], dtype=float).tolist(),
                                 expected_float64_run=ref2[:, c].tolist(), how=how + " must equal the float64 run of the same samples (2-d y)"))
                rows_cs.add(emit.pair(emit.q(LAW_REL), emit.dy(scale), dys(ref2[:, c]), dys(got1[c])),
                            dict(base, kind="law_dtype", column=c, observed=np.asarray(got1[c], dtype=float).tolist(),
                                 expected_float64_run=ref2[:, c].tolist(), how=how + "  with y[:, c]: must equal the float64 run of the same samples (1-d y)"))
                rows_cs.add(emit.pair(emit.q(LAW_REL), emit.dy(scale), dys(got1[c]), dys(got2[:, c])),
                            dict(base, kind="law_ndim", column=c, observed=np.asarray(got2[:, c], dtype=float).tolist(),
                                 how=how + ": column c of the 2-d result must equal the 1-d result of column c"))
                lin_cs.add(emit.pair(emit.q(LAW_REL), emit.dy(scale), emit.pair(emit.dy(a), emit.dy(b)), emit.pair(dys(got2[:, c]), dys(gz2[:, c]), dys(gyz2[:, c]))),
                           dict(base, kind="law_linear", column=c, observed=dict(fy=np.asarray(got2[:, c], dtype=float).tolist(), fz=np.asarray(gz2[:, c], dtype=float).tolist(),
                                                                                   f_combination=np.asarray(gyz2[:, c], dtype=float).tolist()),
                                how=how + ": f(a*y + b*z) must equal a*f(y) + b*f(z)"))
            if kind == "lagrange":
                yrows = Y.astype(float)
                for k, t in enumerate(xn[:3]):
                    for ncols, res, yr in ((3, got2[k], yrows), (1, np.array([got1[1][k]]), yrows[:, 1:2])):
                        rep = dict(kind="lagrange", x=[repr(float(v)) for v in xs], y=yr.tolist() if ncols > 1 else yr[:, 0].tolist(), y_ndim=2 if ncols > 1 else 1,
                                   x_dtype=xd, y_dtype=yd, x_new=repr(float(t)), all_x_new=[repr(float(v)) for v in xn], options=kw, mode="dtype",
                                   observed=np.asarray(res, dtype=float).tolist(),
                                   how=f"interpolate(np.array(x, dtype={xd!r}), np.array(y, dtype={yd!r}), np.array(all_x_new), kind='lagrange', **options)[k]")
                        lag_cs.add(lag_term(w, False, True, ncols, [float(v) for v in xs], yr, float(t), np.asarray(res, dtype=float).reshape(ncols)), rep)
                        ctx.case(("lag-dtype", tuple(xs), w, yd, xd, float(t), ncols), nontrivial=True)
            ctx.count(f"dtype:{kind}:y={yd}:x={xd}")
            ctx.case(("dtype", kind, tuple(xs), yd, xd, Y.tobytes()), nontrivial=True,
                     sample=dict(kind=kind, y_dtype=yd, x_dtype=xd, n=m) if it == 0 and kind == "lagrange" else None)
        xs = xs_all
    # lists: outside the domain on the unchanged tree (every interpolator reads `.ndim`); counted, no verdict
    for kind in ["lagrange"] + SCIPY_KINDS:
        try:
            interpolation.interpolate([0, 1, 2, 4], [1, 4, 2, 8], [0.5], kind=kind, **(dict(window=3) if kind == "lagrange" else {}))
            ctx.count(f"dtype:{kind}:python-lists-accepted")
        except AttributeError:
            ctx.count(f"dtype:{kind}:python-lists-rejected(AttributeError)")
        except Exception as e:
            ctx.count(f"dtype:{kind}:python-lists-rejected({type(e).__name__})")


# ============================================================================= DOP
def dop_observe(az, el):
    from midgard.gnss.compute_dops import compute_dops
    r = compute_dops(np.array(az, dtype=float), np.array(el, dtype=float))
    if r[0] is None:
        return None
    return [float(v) for v in r]


DOP_CORPUS = [   # four satellites: H is square, (H^T H)^-1 must not be confused with (H H^T)^-1 (theorem dop_square_case)
    ([0.0, math.pi / 2, math.pi, 0.0], [0.0, 0.0, 0.0, math.pi / 2]),             # the witness of dop_square_wrong_product
    ([0.3, 1.9, 3.7, 5.2], [0.2, 0.9, 0.4, 1.3]),
    ([0.0, 2.0943951023931953, 4.1887902047863905, 1.0], [0.5, 0.5, 0.5, 1.4]),
    ([5.9, 0.1, 3.0, 3.3], [0.15, 1.2, 0.6, 0.35]),
]


def dop_cases(ctx, cs, mism, n):
    rng = ctx.rng

    def one(az, el, style, it):
        k = len(az)
        theta = rng.uniform(-math.pi, math.pi)
        perm = list(range(k))
        rng.shuffle(perm)
        if perm == sorted(perm):
            perm.reverse()
        try:
            d0 = dop_observe(az, el)
            d1 = dop_observe([a + theta for a in az], el)
            d2 = dop_observe([az[i] for i in perm], [el[i] for i in perm])
        except Exception as e:
            mism.append(dict(kind="dop", az=az, el=el, observed=f"{type(e).__name__}: {e}", how="compute_dops(np.array(az), np.array(el))"))
            return
        if d0 is None or d1 is None or d2 is None or any(math.isnan(v) for v in d0 + d1 + d2):
            if style == "corpus":
                mism.append(dict(kind="dop", az=az, el=el, observed=repr((d0, d1, d2)), how="compute_dops on a regular four-satellite geometry returned None/NaN"))
            ctx.count("dop:singular-skipped")
            return
        rep = dict(kind="dop", az=[repr(a) for a in az], el=[repr(e) for e in el], theta=repr(theta), perm=perm,
                   observed=dict(gdop_pdop_tdop_hdop_vdop=d0, rotated=d1, permuted=d2),
                   how="compute_dops(np.array(az), np.array(el)); (az + theta, el); (az[perm], el[perm])")
        five = lambda d: emit.pair(*(emit.dy(v) for v in d))
        cs.add(emit.pair(emit.lst(emit.pair(emit.dy(a), emit.dy(e)) for a, e in zip(az, el)), five(d0), five(d1), five(d2)), rep)
        ctx.count(f"dop:{style}:n{'4' if k == 4 else '5-12' if k <= 12 else '13-40'}")
        ctx.case(("dop", tuple(az), tuple(el)), nontrivial=True, sample=dict(n=k, dops=d0) if it < 1 else None)

    for az, el in DOP_CORPUS:
        one(list(az), list(el), "corpus", 1)
    for it in range(n):
        k = rng.choice([4, 4, 5, 6, 8, 10, 12, 20, 40, rng.randrange(4, 41)])
        style = rng.choice(["sky", "sky", "high", "ring"])
        az = [rng.uniform(0, 2 * math.pi) for _ in range(k)]
        if style == "sky":
            el = [math.asin(rng.uniform(math.sin(math.radians(5)), 1.0)) for _ in range(k)]
        elif style == "high":
            el = [rng.uniform(math.radians(40), math.radians(90)) for _ in range(k)]
        else:
            el = [rng.uniform(math.radians(5), math.radians(25)) for _ in range(k - 1)] + [rng.uniform(math.radians(60), math.radians(90))]
        one(az, el, style, it)


# ============================================================================= plate motion
def plate_cases(ctx, cs, mism, npos):
    from midgard.collections import plate_motion_models as pmm
    from midgard.math.plate_motion import PlateMotion
    rng = ctx.rng
    R = 6371000.0
    for mname in sorted(pmm.models()):
        for plate in pmm.get(mname).plates:
            try:
                pm = PlateMotion(plate=plate, model=mname)
                w = [float(pm.pole.wx), float(pm.pole.wy), float(pm.pole.wz)]
            except Exception as e:
                mism.append(dict(kind="plate", model=mname, plate=plate, observed=f"{type(e).__name__}: {e}", how="PlateMotion(plate, model)"))
                continue
            wn = math.sqrt(sum(c * c for c in w)) or 1.0
            positions = [[2102928.189605, 721619.617278, 5958196.398820], [R, 0.0, 0.0], [0.0, 0.0, -R],
                         [c / wn * R for c in w]]                     # on the rotation axis: velocity ~ 0
            for _ in range(npos):
                v = [rng.gauss(0, 1) for _ in range(3)]
                nv = math.sqrt(sum(c * c for c in v))
                positions.append([c / nv * (R + rng.uniform(-500, 9000)) for c in v])
            for pos in positions:
                try:
                    vel = [float(c) for c in pm.get_velocity(np.array(pos), system="trs")]
                    vel2 = [float(c) for c in pm.get_velocity(list(pos))]
                except Exception as e:
                    mism.append(dict(kind="plate", model=mname, plate=plate, pos=pos, observed=f"{type(e).__name__}: {e}",
                                     how="PlateMotion(plate, model).get_velocity(pos)"))
                    continue
                tr = lambda v3: emit.pair(*(emit.dy(c) for c in v3))
                for vv, how in ((vel, "get_velocity(np.array(pos), system='trs')"), (vel2, "get_velocity(list(pos))")):
                    cs.add(emit.pair(emit.s(mname), emit.s(plate), tr(w), tr(pos), tr(vv)),
                           dict(kind="plate", model=mname, plate=plate, pole_rad_per_year=[repr(c) for c in w], pos=[repr(c) for c in pos],
                                observed=[repr(c) for c in vv], how=f"PlateMotion(plate={plate!r}, model={mname!r}).{how}"))
                    ctx.case(("plate", mname, plate, tuple(pos), how), nontrivial=True,
                             sample=dict(model=mname, plate=plate, pos=pos, vel=vv) if (plate, mname) == ("eura", "itrf2014") and pos[1] == 721619.617278 and "np" in how else None)
            ctx.count(f"plate:{mname}")


def pole_cases(ctx, rows_cs, mism, n):
    """Euler pole spherical <-> cartesian (PlateMotion.to_cartesian / to_spherical / as_*): round trips in both directions
    and |w| = 3.6 * omega (deg/Myr -> mas/yr), decided inside Coq on the doubles (relative 1e-12)."""
    from midgard.collections import plate_motion_models as pmm
    from midgard.math.plate_motion import PlateMotion
    rng = ctx.rng
    rel = Fraction(1, 10 ** 12)
    pm0 = PlateMotion(plate="eura", model="itrf2014")
    sph = [(0.0, 0.0, 1.0), (45.0, 180.0, 0.25), (-89.9, -179.5, 2.0), (89.9, 90.0, 0.1), (10.0, -90.0, 4.5), (-30.0, 179.99999, 0.651)]
    for _ in range(n):
        sph.append((rng.uniform(-89.99, 89.99), rng.uniform(-179.99, 180.0), rng.uniform(0.05, 5.0)))
    for lat, lon, om in sph:
        try:
            cart = [float(c) for c in pm0.to_cartesian(np.array([lat, lon, om]))]
            back = [float(c) for c in pm0.to_spherical(np.array(cart))]
        except Exception as e:
            mism.append(dict(kind="pole", pole=[lat, lon, om], observed=f"{type(e).__name__}: {e}", how="to_spherical(to_cartesian(pole))"))
            continue
        base = dict(pole_lat_lon_omega=[repr(lat), repr(lon), repr(om)], cartesian=[repr(c) for c in cart])
        rows_cs.add(emit.pair(emit.q(rel), emit.dy(180.0), dys([lat, lon]), dys(back[:2])),
                    dict(base, kind="pole_roundtrip", observed=[repr(c) for c in back], how="PlateMotion.to_spherical(to_cartesian([lat, lon, omega])) must return lat, lon"))
        rows_cs.add(emit.pair(emit.q(rel), emit.dy(om), dys([om, 3.6 * om]), dys([back[2], math.sqrt(sum(c * c for c in cart))])),
                    dict(base, kind="pole_roundtrip", observed=[repr(c) for c in back], how="omega is returned and |to_cartesian(pole)| = 3.6 * omega [mas/yr]"))
        ctx.case(("pole", lat, lon, om), nontrivial=True)
    ctx.count("pole:spherical->cartesian->spherical", len(sph))
    k = 0
    for mname in sorted(pmm.models()):
        for plate in pmm.get(mname).plates:
            try:
                pm = PlateMotion(plate=plate, model=mname)
                cart = [float(c) for c in pm.as_cartesian()]
                s3 = pm.as_spherical()
                back = [float(c) for c in pm.to_cartesian(np.array(s3))]
            except Exception as e:
                mism.append(dict(kind="pole", model=mname, plate=plate, observed=f"{type(e).__name__}: {e}", how="to_cartesian(as_spherical())"))
                continue
            scale = math.sqrt(sum(c * c for c in cart))
            rows_cs.add(emit.pair(emit.q(rel), emit.dy(scale), dys(cart), dys(back)),
                        dict(kind="pole_roundtrip", model=mname, plate=plate, as_cartesian=[repr(c) for c in cart], as_spherical=[repr(float(c)) for c in s3],
                             observed=[repr(c) for c in back], how="PlateMotion(plate, model): to_cartesian(as_spherical()) must return as_cartesian()"))
            ctx.case(("pole-plate", mname, plate), nontrivial=True)
            k += 1
    ctx.count("pole:cartesian->spherical->cartesian(all plates)", k)


# ============================================================================= run
EXPLAIN = {
    "unit_repeat": {1: "the same conversion factor requested twice in one process gives two different doubles (result depends on the request history)"},
    "unit_factor": {1: "Unit factor differs from the exact factor val(a)/val(b) by more than 4 ulp", 3: "unit unknown in the model table / dimension mismatch"},
    "dms": {1: "deg/min/sec components malformed or their value differs from the angle", 2: "round trip loses the sign of the angle (sign taken from the numeric value of the degree component)"},
    "hms": {1: "hms_to_rad differs from 15 * (h + m/60 + s/3600) degrees"},
    "lagrange": {1: "lagrange result differs from the exact model by more than 1e-9 * sum|y_i L_i(t)|", 5: "ValueError raised by exactly one of implementation and model"},
    "linear": {1: "linear interpolation differs from the exact piecewise-linear model", 3: "samples outside the domain of the model",
               5: "outcome (ValueError / NaN / value) differs from the model"},
    "pole_roundtrip": {1: "Euler pole spherical <-> cartesian conversion does not round-trip / wrong magnitude"},
    "law_nodes": {1: "interpolator does not reproduce the data at the nodes"},
    "law_ndim": {1: "n-d data is not interpolated column-wise"},
    "law_perm": {1: "result depends on the order of the samples"},
    "law_dtype": {1: "result depends on the storage type of the samples: differs from the float64 run of the same (exactly representable) data"},
    "law_linear": {1: "interpolator is not linear in the data"},
    "dop": {1: "DOP values differ from the model (sqrt of traces of (H^T H)^-1)", 3: "model normal matrix singular / not evaluable", 4: "Pythagorean identity violated on the returned doubles",
            6: "DOPs change when all azimuths are rotated", 7: "DOPs change when the satellites are reordered"},
    "plate": {1: "velocity differs from pole x position", 2: "pole (rad/yr) differs from the table value * mas->rad", 3: "plate/model/unit not in the regenerated table", 4: "velocity not perpendicular to position / pole"},
}


LAG3D = ("lagrange: y with more than two dimensions is combined with `r.T @ y_wd` (np.matmul treats y_wd as a stack of matrices): "
         "ValueError, or silently wrong values when the shapes happen to fit")


def is_lagrange_3d(rep):
    return (rep.get("y_ndim", 1) >= 3 and (rep.get("kind") == "lagrange" or rep.get("kind_of_interpolator") == "lagrange"))


def decide(ctx, cs, flat, name):
    if flat is None:
        ctx.violation({"broken": f"correspondence shard {name} did not evaluate in Coq", "errors": ctx.last_coq_errors[:2]},
                      what=f"correspondence ({name}) failed to evaluate", found=False)
        return
    for v, rep in zip(flat, cs.meta):
        if v == 0:
            continue
        what = EXPLAIN.get(rep.get("kind"), {}).get(v, f"verdict {v}")
        rep = dict(rep, verdict=v, check=cs.fn)
        if rep.get("kind") == "dms" and v == 2:
            ctx.finding("c20_dms_sign_of_value", what, rep)
        elif is_lagrange_3d(rep):
            ctx.count("quirk:lagrange_3d_y")
            ctx.finding("c20_lagrange_3d_y", LAG3D, rep)
        else:
            ctx.violation(rep, what=f"{rep.get('kind')}: {what}")


def run(ctx):
    regen_error = None
    try:
        regen(ctx)
    except Exception as e:
        regen_error = f"{type(e).__name__}: {e}"
        ctx.log("regeneration failed:", regen_error)
    ok = ctx.prove(THEOREMS) if not os.environ.get("VERIF_C20_NOPROOF") else True
    q = ctx.quick()
    mism = []

    only = set(filter(None, os.environ.get("VERIF_C20_ONLY", "").split(",")))     # development aid: run some sub-areas only

    def on(name):
        return not only or name in only

    fact = Cases("check_factor", 400)
    same = Cases("check_same_dy", 1000)
    ident_vs, ident_meta = units_cases(ctx, fact, same, mism) if on("units") else ([], [])
    dms = Cases("check_dms", 400)
    hms = Cases("check_hms", 400)
    if on("dms"):
        dms_corpus(ctx, dms, mism, q)
        dms_cases(ctx, dms, mism, 300 if q else 6000)
        hms_cases(ctx, hms, mism, 40 if q else 400)
    lag = Cases("check_lagrange", 12 if q else 24)
    linm = Cases("check_linear", 60)
    rows = Cases("check_rows", 300)
    lin = Cases("check_lin", 300)
    if on("lag"):
        lagrange_cases(ctx, lag, mism, 110 if q else 1400)
        law_cases(ctx, rows, lin, mism, 100 if q else 1500)
        dtype_cases(ctx, lag, rows, lin, mism, 18 if q else 240)
        linear_cases(ctx, linm, mism, 60 if q else 800)
    dop = Cases("check_dop3", 4 if q else 10)
    if on("dop"):
        dop_cases(ctx, dop, mism, 60 if q else 700)
    plate = Cases("check_plate", 200)
    if on("plate"):
        plate_cases(ctx, plate, mism, 3 if q else 30)
        pole_cases(ctx, rows, mism, 40 if q else 600)

    ctx.log(f"cases: factor={len(fact.terms)} dms={len(dms.terms)} lagrange={len(lag.terms)} laws={len(rows.terms) + len(lin.terms)} "
            f"dop={len(dop.terms)} plate={len(plate.terms)}")
    # statistics only: how many degree-API decompositions are literally the model's (deg, min) cell
    cell_terms = [t for t, m in zip(dms.terms, dms.meta) if m["api"] == 0 and "corpus" not in m]
    if cell_terms:
        cv = emit.flatten_verdicts(coq_cases_retry(ctx, emit.shard_terms("same_cell", cell_terms, 400)), len(cell_terms))
        if cv is not None:
            ctx.count("dms:deg:same-cell-as-model", sum(1 for v in cv if v == 0))
            ctx.count("dms:deg:neighbouring-cell(rounding at a cell boundary)", sum(1 for v in cv if v != 0))
    for cs, name in ((fact, "units"), (same, "units-repeat"), (dms, "dms"), (hms, "hms"), (plate, "plate"), (rows, "laws"), (lin, "laws-linear"), (linm, "linear-model"), (dop, "dop"), (lag, "lagrange")):
        flat = cs.run(ctx)
        ctx.log(f"{name}: {len(cs.terms)} cases evaluated in Coq")
        decide(ctx, cs, flat, name)

    # identities on the doubles: one verdict per ordered pair
    for vs, (dim, names, mat) in zip(ident_vs, ident_meta):
        if vs is None or len(vs) != len(names) ** 2:
            ctx.violation({"broken": f"unit identities ({dim}) did not evaluate in Coq", "errors": ctx.last_coq_errors[:2]},
                          what="correspondence (unit identities) failed to evaluate", found=False)
            continue
        for idx, v in enumerate(vs):
            if v == 0:
                continue
            a, b = names[idx // len(names)], names[idx % len(names)]
            ia, ib = names.index(a), names.index(b)
            rep = dict(kind="unit_identity", a=a, b=b, verdict=v, a2b=repr(mat[ia][ib]), b2a=repr(mat[ib][ia]),
                       how=f"Unit({a!r},{b!r}) * Unit({b!r},{a!r}) == 1 and Unit({a!r},{b!r}) * Unit({b!r}, c) == Unit({a!r}, c) for all c in {names}")
            ctx.violation(rep, what="unit_identity: " + {1: "a2b * b2a differs from 1", 2: "a2b * b2c differs from a2c for some c", 3: "factor not finite"}.get(v, str(v)))
        for a in names:
            for b in names:
                ctx.case(("unit-ident", a, b), nontrivial=(a != b))

    for rep in mism:
        if is_lagrange_3d(rep):
            ctx.count("quirk:lagrange_3d_y")
            ctx.finding("c20_lagrange_3d_y", LAG3D, rep)
        else:
            ctx.violation(rep, what=f"outside the model: {rep.get('kind')} raised {rep.get('observed')}")
    if regen_error:
        ctx.violation({"broken": "regeneration of Gen/C20_*.v failed", "error": regen_error}, what="tables could not be regenerated from the source", found=False)
    if not ok and not ctx.violations:
        # every obligation that depends on the source (unit.txt, pole tables) is also covered by a correspondence
        # check above (Unit factors vs the table, pole vs table); nothing failed there -> no concrete input
        ctx.obligations_broken(lambda: None)

    ctx.trusted += [
        "Coq 8.16.1 kernel, coqc, vm_compute (no native_compute); coq-interval (pi bracket, cos/sin enclosures)",
        "hand-written models coq/theories/Model/C20_{Units,Dms,Lagrange,Dop,Plate}.v (validated against midgard by this run's correspondence)",
        "harness/drivers/c20.py (generators, calls of the implementation, term emission, unit.txt translator; pint resolves alias names in unit.txt)",
    ]
    ctx.assume += [
        "abscissae of the Lagrange correspondence have exactly representable differences (integer grids / [1,2)), so that the argmin of |x - x_new| is decided identically in floating point and in Q",
        "DOP: geometries whose normal matrix midgard accepts (finite condition number); design rows = midpoints of 2^-80 enclosures",
        "SciPy-backed interpolators: laws only, no model",
    ]
    return ctx.finish(
        level="proof",
        rule=("units: all ordered pairs (model, 4 ulp) and triples (identities on the doubles, 2^-50) of 48 units in 5 dimensions, call and "
              "attribute form, aliases; dms: edge list + random angles in [-360,360] (30% in (-1,0)), degree and radian API, scalar and array; "
              "lagrange: random sample sets n=3..60, windows 3..12, 1-d/2-d/3-d y, sorted/shuffled/assume_sorted/duplicates/extrapolation/"
              "out-of-range/bad window, x_new at nodes, midpoints, ends, random; laws for all five interpolators; dop: 4..40 satellites, "
              "three sky distributions, rotation and permutation; plate: all plates of all models x fixed and random positions. "
              "distinct_nontrivial = distinct inputs (a!=b for units)"),
    )


def replay(ctx, path):
    rep = json.load(open(path))
    print(json.dumps(rep, indent=1))
    kind = rep.get("kind")
    try:
        if kind in ("unit_factor", "unit_identity"):
            print("now:", "Unit(a,b) =", repr(unit_call(rep["a"], rep["b"])), " Unit(b,a) =", repr(unit_call(rep["b"], rep["a"])))
            print("model:", ctx.coq_eval(REQ, f"match find_unit units {emit.s(rep['a'])}, find_unit units {emit.s(rep['b'])} with Some a, Some b => Some (factor_sym a b) | _, _ => None end"))
        elif kind == "dms":
            from midgard.math.unit import Unit
            x = float.fromhex(rep["x_hex"])
            fwd, back = (Unit.deg_to_dms, Unit.dms_to_deg) if rep["api"] == 0 else (Unit.rad_to_dms, Unit.dms_to_rad)
            d = fwd(x)
            print("now:", d, "->", repr(back(*d)))
            if rep["api"] == 0:
                print("model to_dms:", ctx.coq_eval(REQ, f"match dy_toQ {emit.dy(x)} with Some q => Some (to_dms q) | None => None end"))
        elif kind == "lagrange":
            xs = [float(v) for v in rep["x"]]
            xn = [float(v) for v in rep.get("all_x_new", [rep["x_new"]])]
            res, err = lag_observe(xs, rep["y"], xn, xdtype=rep.get("x_dtype", "float64"), ydtype=rep.get("y_dtype", "float64"), **rep["options"])
            print("now:", err if res is None else res.tolist())
            yrows = np.asarray(rep["y"], dtype=float).reshape(len(xs), -1)
            o = rep["options"]
            pts = emit.lst(emit.pair(emit.q(Fraction(x)), emit.lst(emit.q(Fraction(float(v))) for v in row)) for x, row in zip(xs, yrows))
            term = (f"match lagrange (mkOpt {emit.b(o.get('assume_sorted', False))} {emit.b(o.get('bounds_error', True))} None) {emit.nat(yrows.shape[1])} "
                    f"{emit.nat(o['window'])} {pts} {emit.q(Fraction(float(rep['x_new'])))} with Some v => Some (List.map Qred v) | None => None end")
            print("model (exact, None = ValueError):", ctx.coq_eval(REQ, term)[:2000])
        elif kind == "dop":
            print("now:", dop_observe([float(a) for a in rep["az"]], [float(e) for e in rep["el"]]))
            sats = emit.lst(emit.pair(emit.dy(float(a)), emit.dy(float(e))) for a, e in zip(rep["az"], rep["el"]))
            print("model (squares g,p,t,h,v,kappa):", ctx.coq_eval(REQ, f"dops2 {sats}")[:1500])
        elif kind == "plate":
            from midgard.math.plate_motion import PlateMotion
            pm = PlateMotion(plate=rep["plate"], model=rep["model"])
            print("now:", pm.get_velocity(np.array([float(c) for c in rep["pos"]])).tolist())
    except Exception as e:
        print("replay of the literal input failed:", type(e).__name__, e)
    print("re-run: VERIF_SEED=%s /venv/bin/python run_check.py C20 %s" % (rep.get("seed"), rep.get("tier", "quick")))
    return 0
