"""C09 - a Dataset stays a rectangular, row-aligned table under any operation sequence (DESIGN 4.9).

Proof obligations: coq/theories/Props/C09.v (model: Model/C09_Dataset.v on Lib/C09_Table.v).
Correspondence: operation sequences (bounded-exhaustive over a 12 letter alphabet + random up to 25
operations) are run on real midgard.data.dataset.Dataset objects; after every operation the whole
observable state (num_obs, every field and nested field, every .other/.time/.ref_pos object, which
objects are shared) is shipped to Coq, where the model runs the same history and compares."""
from __future__ import annotations

import json

import numpy as np

from harness import core, emit

META = {
    "property_id": "C09",
    "level": "proof",
    "design_ref": "DESIGN.md 4.9",
    "technique": "Coq proof (induction over arbitrary operation lists) on a hand model + vm_compute correspondence with midgard.data.dataset.Dataset",
    "level_text": (
        "Theorems in Coq 8.16 over an executable list-of-records model of Dataset (object store with named references, "
        "ghost observation id on every cell): after every operation list (add_<type>, subset by mask / index list, extend, "
        "merge_with+sort_by, difference, del, filter, unique) every object of the store - fields, nested fields, attached "
        ".other/.time/.ref_pos objects - has exactly num_obs rows and row k of every object carries the ghost id of row k; "
        "subset keeps the selected rows in order, extend appends the other rows with fill values / unit factor, the sort is the "
        "unique stable permutation, difference pairs first occurrences of common index tuples, shared objects are transformed once "
        "(memo walk = map over the store).  The model is tied to the code on every run by a correspondence check on real Dataset "
        "objects, compared inside Coq (vm_compute), doubles bit-exact."),
    "level_note": (
        "Trusted: Coq kernel + vm_compute; the hand-written model (Model/C09_Dataset.v) is validated, not derived.  Simplifications: "
        "collections are dotted paths; time fields utc/mjd and time deltas utc/days only; positions in trs only; unit factors integer; "
        "difference only for float/text/bool/sigma fields; text sort keys not modelled; extend requires congruent sharing between the two "
        "datasets; a history ends at the first operation that raises (no claim about the state after an exception); the `time` attribute "
        "of positions is registered by the harness through the public _position.register_attribute (midgard itself registers only `other`)."),
}

THEOREMS = [
    "rect_all_histories", "row_aligned", "collections_in_histories", "empty_collection_leaves_table", "del_keeps_collections",
    "filter_idx_spec", "built_datasets_are_good", "subset_spec", "subset_mask_keeps_order",
    "extend_spec", "merge_sort_spec", "merge_sort_unique", "difference_spec", "difference_rows_paired", "key_cells_leibniz",
    "difference_rect", "shared_reference_once", "walk_terminates_on_reachable", "reachable_stores_are_acyclic",
    "shared_reference_once_extend", "extend_walk_fill", "shared_reference_store_level", "c09_sharing_lost_refuted",
    "c09_subset_sum_refuted", "c09_attr_fill_refuted", "c09_unstable_sort_refuted",
]

REQ = "From Verif Require Import Lib.Dyadic Model.C09_Dataset.\nOpen Scope string_scope.\nOpen Scope list_scope."

KINDS = ["float", "text", "bool", "time", "time_delta", "position", "position_delta", "posvel", "posvel_delta", "sigma"]
KCOQ = {"float": "KFloat", "text": "KText", "bool": "KBool", "time": "KTime", "time_delta": "KTimeDelta",
        "position": "KPos", "position_delta": "KPosDelta", "posvel": "KPosVel", "posvel_delta": "KPosVelDelta",
        "sigma": "KSigma"}
FINDINGS = {
    2: ("c09_subset_int_index_numobs",
        "Dataset.subset with an integer index array sets num_obs = sum(idx) instead of the number of selected rows"),
    3: ("c09_sort_unstable",
        "Dataset.merge_with(sort_by=...) uses numpy's default argsort, which is not stable: rows with equal keys change their relative order"),
    4: ("c09_fill_with_references",
        "extend: append_empty/prepend_empty of a position-like field whose other/time/ref_pos object is not yet in the memo "
        "(empty_from with the wrong argument): exception or a reference with the wrong number of rows"),
    5: ("c09_sharing_lost_on_empty_extend",
        "extend/merge_with with a zero-row dataset: append_empty(0)/prepend_empty(0) return before consulting the memo, so a field "
        "object that was extended through another field's reference is left behind - field and reference are two equal objects afterwards"),
    6: ("c09_nested_prepend_uses_grown_length",
        "Collection._extend pads a nested field that only the other dataset has with len(collection) = length of the collection's first "
        "field, which has already been extended when it came first: the new nested field gets num_obs(other) rows too many"),
    8: ("c09_collection_len_is_first_field",
        "Collection.__len__ is the length of the collection's first field: a nested collection that is empty, or whose first field is "
        "an empty collection, reports 0 rows and _extend takes the other dataset's nested fields over without padding (field shorter "
        "than num_obs)"),
    10: ("c09_time_fill_not_utc",
         "extend pads a time / time_delta field that is missing on one side with an empty value built in utc and converted to the "
         "field's scale: for tai/tt/gps the conversion of datetime.min raises OverflowError (time_delta: UnknownConversionError)"),
    7: ("c09_empty_self_drops_nested_fields",
        "extend onto a zero-row dataset replaces whole collections by the other dataset's: nested fields that only self has vanish "
        "(top-level fields that only self has are kept and padded)"),
}

_registered = False


def setup_midgard():
    """`time` is the attribute Where registers on positions; midgard ships only `other`."""
    global _registered
    from midgard.data import _position
    from midgard.data import position  # noqa: F401  (registers `other` and the systems)
    if not _registered:
        for cls in (_position.PositionArray, _position.PosVelArray):
            if "time" not in _position._ATTRIBUTES.get(cls.__name__, []):
                _position.register_attribute(cls, "time")
        _registered = True


def kwidth(kind, two, w):
    if kind in ("float", "text", "bool"):
        return w if two else 1
    return {"time": 3, "time_delta": 3, "position": 3, "position_delta": 3, "posvel": 6, "posvel_delta": 6, "sigma": 2}[kind]


# ----------------------------------------------------------------------------- values
def salt_of(name):
    return sum(ord(c) * (i + 1) for i, c in enumerate(name)) % 7


# widths of text cells: every dataset has a width profile, so that the two sides of extend / merge_with have
# numpy string dtypes of different widths, straddling the 9/10 and 99/100 character boundaries in both directions
WIDTHS = {
    "narrow": [9, 2, 5, 1, 8, 3],           # max 9 -> '<U9'
    "wide": [10, 25, 11, 2, 17, 10],        # '<U10'..'<U25', with a short cell among them
    "mixed": [1, 2, 9, 10, 11, 25, 3, 9, 10, 5],
    "huge": [99, 100, 5, 100, 99, 12],      # '<U99' / '<U100'
    "w99": [99, 5, 12],                     # exactly '<U99'
    "w100": [100, 3, 7],                    # exactly '<U100'
}
FILLER = "abcdefghijklmnopqrstuvwxyzABCDEFGHIJKLMNOPQRSTUVWXYZ_-" * 2


def text_cell(tag, g, wprof):
    ws = WIDTHS[wprof]
    width = ws[g % len(ws)]
    core_ = f"{tag}{g}"
    if width <= len(core_):
        return core_[-width:]
    return core_ + FILLER[:width - len(core_)]


def row_value(kind, two, w, name, g, keymod=None, wprof="narrow"):
    """The row of observation g in field `name` (python values; all doubles are small dyadics)."""
    s = salt_of(name)
    if kind == "float":
        if keymod:
            return [float(g % keymod)]
        if two:
            return [float(g + s) + 0.5 * j for j in range(w)]
        return [float(g) + s / 4.0]
    if kind == "text":
        if two:
            return [text_cell(name[0], g, wprof), text_cell("q", g + 3, wprof)][:w] + [f"z{j}" for j in range(2, w)]
        return [text_cell(name[0], g, wprof)]
    if kind == "bool":
        return [(g + s) % 2 == 0]
    if kind == "time":
        return [58000.0 + g + s]
    if kind == "time_delta":
        return [g / 4.0 + s]
    if kind in ("position", "position_delta"):
        return [float(g + 100 * s), g + 100 * s + 0.25, g / 8.0]
    if kind in ("posvel", "posvel_delta"):
        return [float(g + 100 * s) + 0.5 * j for j in range(6)]
    if kind == "sigma":
        return [float(g + s), g / 16.0]
    raise ValueError(kind)


def payload_term(kind, row):
    if kind == "text":
        return "(PTxt " + emit.lst(emit.s(x) for x in row) + ")"
    if kind == "bool":
        return "(PBool " + emit.lst(emit.b(x) for x in row) + ")"
    return "(PNum " + emit.lst(emit.dy(x) for x in row) + ")"


def model_rows(kind, rows):
    """What the model holds for a freshly added field: time / time_delta rows are [value; jd1; jd2]."""
    if kind == "time":
        out = []
        for (v,) in rows:
            mjd = float(v)
            jd_int = float(np.floor(mjd))
            out.append([mjd, jd_int + 2400000.0, (mjd - jd_int) + 0.5])
        return out
    if kind == "time_delta":
        out = []
        for (v,) in rows:
            d = float(v)
            out.append([d, float(np.floor(d)), d - float(np.floor(d))])
        return out
    return rows


# ----------------------------------------------------------------------------- schemas
# field descriptor: dict(path, kind, two, w, unit, refs={attr: ("field", path) | ("anon", id, kind)}, keymod)
def fd(path, kind, two=False, w=1, unit=None, refs=None, keymod=None, vname=None):
    """unit of a time / time_delta field = its time scale (carried as the unit tag of the model object);
    vname: the name the cell values are derived from (two fields with one vname hold equal values)"""
    if kind in ("time", "time_delta") and unit is None:
        unit = ("utc",)
    return dict(path=path, kind=kind, two=two, w=w, unit=unit, refs=dict(refs or {}), keymod=keymod, vname=vname)


def base_schema_small():
    return [
        fd("c0.a", "float"),      # a nested field is added first: the collection c0 is the first field of the dataset
        fd("rid", "float"), fd("key", "float", keymod=2), fd("tx", "text"), fd("t2", "text", two=True, w=2),
        fd("time", "time"),
        fd("sat", "position", refs={"time": ("field", "time")}),
        fd("site", "position", refs={"other": ("field", "sat")}),
        fd("dl", "position_delta", refs={"ref_pos": ("field", "site")}),
        fd("grp.g1", "float", unit=("meter",)),
    ]


def random_schema(rng):
    sch = [fd("rid", "float"), fd("key", "float", keymod=rng.choice([2, 3]))]
    if rng.random() < 0.3:
        # the first field of the dataset is a collection (emptied later by Del with some probability)
        sch = [fd("c0.a", rng.choice(["float", "text"]))] + ([fd("c0.b", "float")] if rng.random() < 0.3 else []) + sch
    opt = []
    opt.append(fd("f1", "float", unit=rng.choice([None, ("meter",), ("second",)])))
    opt.append(fd("f2", "float", two=True, w=rng.choice([2, 3]), unit=None))
    opt.append(fd("fu", "float", two=True, w=2, unit=("meter", "second")))
    opt.append(fd("tx", "text"))
    opt.append(fd("t2", "text", two=True, w=2))
    opt.append(fd("bo", "bool"))
    opt.append(fd("time", "time"))
    opt.append(fd("td", "time_delta"))
    opt.append(fd("sg", "sigma", unit=rng.choice([None, ("meter",)])))
    opt.append(fd("grp.g1", "float", unit=("meter",)))
    opt.append(fd("grp.gt", "text"))
    opt.append(fd("grp.sub.h", "float"))
    chosen = [f for f in opt if rng.random() < 0.6]
    if rng.random() < 0.35:
        # time fields in other scales than utc (never referenced by positions), two of them for equal-epoch cases
        sc = rng.choice(["gps", "tai", "tt", "utc"])
        chosen.append(fd("t_g", "time", unit=(sc,), vname="tg"))
        chosen.append(fd("grp.t_h", "time", unit=(rng.choice([sc, "utc", "gps"]),), vname="th"))
    names = {f["path"] for f in chosen}
    anon_p = 0.12
    if rng.random() < 0.8:
        r = {}
        if "time" in names and rng.random() < 0.7:
            r["time"] = ("field", "time")
        elif rng.random() < anon_p:
            r["time"] = ("anon", "t0", "time")
        chosen.append(fd("sat", "position", refs=r))
        r = {}
        if rng.random() < 0.8:
            r["other"] = ("field", "sat")
        elif rng.random() < anon_p * 2:
            r["other"] = ("anon", "p0", "position")
        if "time" in names and rng.random() < 0.5:
            r["time"] = ("field", "time")
        chosen.append(fd("site", "position", refs=r))
        if rng.random() < 0.7:
            chosen.append(fd("dl", "position_delta", refs={"ref_pos": ("field", "site") if rng.random() < 0.85 else ("anon", "p1", "position")}))
        if rng.random() < 0.3:
            chosen.append(fd("grp.gp", "position", refs={"other": ("field", "sat")}))
    if rng.random() < 0.6:
        chosen.append(fd("pv", "posvel"))
        if rng.random() < 0.6:
            chosen.append(fd("pv2", "posvel", refs={"other": ("field", "pv")}))
        if rng.random() < 0.7:
            chosen.append(fd("pvd", "posvel_delta", refs={"ref_pos": ("field", "pv") if rng.random() < 0.85 else ("anon", "v1", "posvel")}))
    return sch + chosen


# ----------------------------------------------------------------------------- real objects
def np_value(kind, two, w, rows, n):
    if kind == "float":
        a = np.array(rows, dtype=float).reshape((n, w) if two else (n,))
        return a
    if kind == "text":
        if two:
            return np.array(rows, dtype=str).reshape((n, w)) if n else np.zeros((0, w), dtype=str)
        return np.array([r[0] for r in rows], dtype=str) if n else np.zeros((0,), dtype=str)
    if kind == "bool":
        return np.array([r[0] for r in rows], dtype=bool)
    if kind in ("time", "time_delta"):
        return np.array([r[0] for r in rows], dtype=float)
    if kind == "sigma":
        return np.array([r[0] for r in rows], dtype=float), np.array([r[1] for r in rows], dtype=float)
    return np.array(rows, dtype=float).reshape((n, kwidth(kind, two, w)))


def make_anon(kind, rows, n):
    from midgard.data.position import Position, PosVel
    from midgard.data.time import Time
    if kind == "time":
        return Time(np_value(kind, False, 1, rows, n), scale="utc", fmt="mjd")
    if kind == "position":
        return Position(np_value(kind, False, 1, rows, n), system="trs")
    if kind == "posvel":
        return PosVel(np_value(kind, False, 1, rows, n), system="trs")
    raise ValueError(kind)


class Real:
    """A real Dataset + the Coq terms of the operations that built it + its schema."""

    def __init__(self, n, base, wprof="narrow", first_collection=None):
        from midgard.data import dataset
        self.wprof = wprof
        self.ds = dataset.Dataset(num_obs=n)
        self.gids = list(range(base, base + n))
        self.terms = [f"New {emit.nat(n)} {emit.zs(base)}"]
        self.pylog = [f"ds = Dataset(num_obs={n})   # observations {base}..{base + n - 1}"]
        if first_collection:
            # an empty collection as the very first field of the dataset (Collection.__len__ looks at the first field)
            self.ds.add_collection(first_collection)
            self.terms.append(f"AddColl {emit.s(first_collection)}")
            self.pylog.append(f"ds.add_collection({first_collection!r})")
        self.schema = {}
        self.anon = {}          # anon id -> (first field path, attr)

    def add(self, f, gids=None):
        gids = self.gids if gids is None else gids
        n = len(gids)
        kind, two, w, path = f["kind"], f["two"], f["w"], f["path"]
        rows = [row_value(kind, two, w, f.get("vname") or path, g, f.get("keymod"), self.wprof) for g in gids]
        kw = {}
        ref_terms = []
        for attr, tgt in f["refs"].items():
            if tgt[0] == "field":
                kw[attr] = self.ds[tgt[1]]
                ref_terms.append(emit.pair(emit.s(attr), f"TField {emit.s(tgt[1])}"))
            else:
                _, aid, akind = tgt
                if aid in self.anon:
                    p0, a0 = self.anon[aid]
                    kw[attr] = getattr(self.ds[p0], a0)
                    ref_terms.append(emit.pair(emit.s(attr), f"TSame {emit.s(p0)} {emit.s(a0)}"))
                else:
                    arows = [row_value(akind, False, 1, "anon" + aid, g) for g in gids]
                    kw[attr] = make_anon(akind, arows, n)
                    self.anon[aid] = (path, attr)
                    ref_terms.append(emit.pair(emit.s(attr), f"TNew {KCOQ[akind]} " + emit.lst(
                        payload_term(akind, r) for r in model_rows(akind, arows))))
        val = np_value(kind, two, w, rows, n)
        add = getattr(self.ds, "add_" + kind)
        if kind == "float":
            add(path, val=val, unit=f["unit"])
        elif kind == "text":
            add(path, val=val)
        elif kind == "bool":
            add(path, val=val)
        elif kind == "time":
            add(path, val=val, scale=f["unit"][0], fmt="mjd")
        elif kind == "time_delta":
            add(path, val=val, scale=f["unit"][0], fmt="days")
        elif kind == "sigma":
            add(path, val=val[0], sigma=val[1], unit=f["unit"])
        else:
            add(path, val=val, system="trs", **kw)
        unit = "None" if f["unit"] is None else "(Some " + emit.lst(emit.s(u) for u in f["unit"]) + ")"
        head = f"Add {emit.s(path)} {KCOQ[kind]} {emit.b(two)} {emit.nat(w)} {unit} "
        tail = " " + emit.lst(ref_terms)
        if not hasattr(self, "parts"):
            self.parts = {}
        self.parts[path] = (len(self.terms), head, tail)
        self.terms.append(head + emit.lst(payload_term(kind, r) for r in model_rows(kind, rows)) + tail)
        self.pylog.append(f"ds.add_{kind}({path!r}, rows for observations {gids[:3]}{'...' if n > 3 else ''}, unit={f['unit']}, refs={f['refs']})")
        self.schema[path] = f


def build_real(schema, n, base, wprof="narrow", first_collection=None):
    r = Real(n, base, wprof, first_collection)
    for f in schema:
        r.add(f)
    return r


def build_term(real, self_schema=None, n1=0):
    """The other dataset as the model sees it.  A time field whose scale differs from the scale of the same field of
    self (which has rows) is appended in self's scale: the rows are given as converted by the implementation's public
    conversion `other.<field>.<scale>` - whether scale conversions are right is not C09's business (C01), where the
    converted rows end up is."""
    terms = list(real.terms)
    for p, f in real.schema.items():
        g = (self_schema or {}).get(p)
        if f["kind"] == "time" and g and g["kind"] == "time" and n1 > 0 and g["unit"] != f["unit"] and p in getattr(real, "parts", {}):
            i, head, tail = real.parts[p]
            conv = getattr(real.ds[p], g["unit"][0])
            terms[i] = head + emit.lst(payload_term("time", r) for r in obj_rows("time", conv)) + tail
    return "(build " + emit.lst(terms) + ")"


# ----------------------------------------------------------------------------- observation
def leaf_fields(coll, prefix=""):
    out = []
    for name, field in coll._fields.items():
        if field.__class__.__name__ == "CollectionField":
            out.extend(leaf_fields(field.data, prefix + name + "."))
        else:
            out.append((prefix + name, field))
    return out


def collections_of(coll, prefix=""):
    """[(path, len(collection))] of all (nested) collections, sorted by path"""
    out = []
    for name, field in coll._fields.items():
        if field.__class__.__name__ == "CollectionField":
            out.append((prefix + name, len(field.data)))
            out.extend(collections_of(field.data, prefix + name + "."))
    return sorted(out)


def obj_kind(o):
    from midgard.data._time import TimeArray, TimeDeltaArray
    from midgard.data.sigma import SigmaArray
    if isinstance(o, TimeArray):
        return "time"
    if isinstance(o, TimeDeltaArray):
        return "time_delta"
    if isinstance(o, SigmaArray):
        return "sigma"
    cn = getattr(o, "cls_name", None)
    if cn:
        return {"PositionArray": "position", "PosVelArray": "posvel", "PositionDeltaArray": "position_delta",
                "PosVelDeltaArray": "posvel_delta"}[cn]
    if o.dtype.kind == "f":
        return "float"
    if o.dtype.kind == "U":
        return "text"
    if o.dtype.kind == "b":
        return "bool"
    raise TypeError(f"unknown object {type(o)} {o.dtype}")


def obj_rows(kind, o):
    a = np.asarray(o)
    n = a.shape[0] if a.ndim else 0
    if kind in ("time", "time_delta"):
        jd1, jd2 = np.asarray(o.jd1).reshape(-1), np.asarray(o.jd2).reshape(-1)
        if not (len(jd1) == len(jd2) == n):
            raise ValueError(f"jd1/jd2 have {len(jd1)}/{len(jd2)} rows, values {n}")
        return [[float(a[k]), float(jd1[k]), float(jd2[k])] for k in range(n)]
    if kind == "sigma":
        sg = np.asarray(o.sigma).reshape(-1)
        if len(sg) != n:
            raise ValueError(f"sigma has {len(sg)} rows, values {n}")
        return [[float(a[k]), float(sg[k])] for k in range(n)]
    if a.ndim == 1:
        return [[a[k].item()] for k in range(n)]
    return [list(a[k].tolist()) for k in range(n)]


def obj_refs(kind, o):
    refs = []
    names = []
    if kind in ("position", "posvel", "position_delta", "posvel_delta"):
        names = list(o._attributes())
    if kind in ("position_delta", "posvel_delta"):
        names = names + ["ref_pos"]
    for a in names:
        v = getattr(o, a, None)
        if v is not None:
            refs.append((a, v))
    return refs


def snapshot(ds):
    """-> (obs term, python summary). Objects are numbered by identity in visiting order."""
    ids = {}
    objs = []
    flds = []
    keep = []

    def visit(o, unit):
        if id(o) in ids:
            return ids[id(o)]
        num = len(ids)
        ids[id(o)] = num
        keep.append(o)
        kind = obj_kind(o)
        if kind in ("time", "time_delta"):
            unit = (str(o.scale),)           # the time scale is the unit tag of a time object
        a = np.asarray(o)
        two = kind in ("float", "text", "bool") and a.ndim == 2
        w = a.shape[1] if two else 1
        rows = obj_rows(kind, o)
        slot = [num, kind, two, kwidth(kind, two, w), unit, rows, None]
        objs.append(slot)
        slot[6] = [(attr, visit(v, None)) for attr, v in obj_refs(kind, o)]
        return num

    for path, field in sorted(leaf_fields(ds), key=lambda x: x[0]):
        unit = None
        if field.__class__.__name__ in ("FloatField", "SigmaField") and field._unit is not None:
            unit = tuple(field._unit)
        num = visit(field.data, unit)
        flds.append((path, num, int(field.num_obs)))
    term = ("(OState " + emit.nat(int(ds.num_obs)) + " " + emit.lst(
        emit.pair(emit.s(p), emit.nat(o), emit.nat(fn)) for p, o, fn in flds) + " " + emit.lst(
        emit.pair(emit.nat(num), "(mkO " + " ".join([
            KCOQ[kind], emit.b(two), emit.nat(w),
            "None" if unit is None else "(Some " + emit.lst(emit.s(u) for u in unit) + ")",
            emit.lst(payload_term(kind, r) for r in rows),
            emit.lst(emit.pair(emit.s(a), emit.nat(t)) for a, t in refs)]) + ")")
        for num, kind, two, w, unit, rows, refs in objs) + " "
            + emit.lst(emit.pair(emit.s(c), emit.nat(n)) for c, n in collections_of(ds)) + ")")
    summary = {"num_obs": int(ds.num_obs),
               "fields": {p: {"rows": len(objs[o][5]), "field.num_obs": fn,
                              "refs": {a: len(objs[t][5]) for a, t in objs[o][6]}} for p, o, fn in flds}}
    return term, summary


def rect_oracle(summary):
    """The property stated directly on observables: everything has num_obs rows."""
    n = summary["num_obs"]
    bad = []
    for p, f in summary["fields"].items():
        if f["rows"] != n or f["field.num_obs"] != n:
            bad.append(f"{p}: {f['rows']} rows / field.num_obs {f['field.num_obs']} vs num_obs {n}")
        for a, k in f["refs"].items():
            if k != n:
                bad.append(f"{p}.{a}: {k} rows vs num_obs {n}")
    return bad


# ----------------------------------------------------------------------------- a running history
class History:
    def __init__(self, ctx, label):
        self.ctx = ctx
        self.label = label
        self.steps = []       # (op term, obs term)
        self.log = []         # python-readable
        self.summaries = []
        self.real = None
        self.dead = False
        self.next_base = 1000
        self.fresh = 0
        self.nderived = 0
        self.flags = {}       # step index -> collections of self whose len() differs from num_obs before an extend

    # -- building the start dataset (not observed step by step)
    def start(self, schema, n, base=0, wprof="narrow", first_collection=None):
        self.real = build_real(schema, n, base, wprof, first_collection)
        for t in self.real.terms:
            self.steps.append((t, "OSkip"))
        self.log.extend(self.real.pylog)
        self.observe_last()

    def observe_last(self):
        t, summ = snapshot(self.real.ds)
        op, _ = self.steps[-1]
        self.steps[-1] = (op, t)
        self.summaries.append(dict(summ, step=len(self.steps) - 1))

    def alloc(self, n):
        b = self.next_base
        self.next_base += max(n, 1) + 3
        return b

    def do(self, term, py, fn, result="state"):
        """Run one operation on the real dataset; record observation."""
        if self.dead:
            return
        self.log.append(py)
        try:
            out = fn()
        except Exception as e:  # the history ends at the first exception
            self.steps.append((term, "ORaise"))
            self.log.append(f"   -> raised {type(e).__name__}: {str(e)[:150]}")
            self.summaries.append({"raised": f"{type(e).__name__}: {str(e)[:150]}", "step": len(self.steps) - 1})
            self.dead = True
            return
        try:
            if result == "state":
                self.steps.append((term, "OSkip"))
                self.observe_last()
            elif result == "mask":
                self.steps.append((term, "(OMask " + emit.lst(emit.b(bool(x)) for x in out) + ")"))
                self.summaries.append({"mask": [bool(x) for x in out], "step": len(self.steps) - 1})
            else:
                kind = result[1]
                vals = [[x.item()] for x in np.asarray(out)]
                self.steps.append((term, "(OVals " + emit.lst(payload_term(kind, r) for r in vals) + ")"))
                self.summaries.append({"values": [v[0] for v in vals], "step": len(self.steps) - 1})
        except Exception as e:  # the state cannot even be read (e.g. jd1 shorter than the values)
            self.steps[-1] = (term, "ORaise") if self.steps and self.steps[-1][0] == term else (term, "ORaise")
            self.log.append(f"   -> state unreadable {type(e).__name__}: {str(e)[:150]}")
            self.summaries.append({"unreadable": f"{type(e).__name__}: {str(e)[:150]}", "step": len(self.steps) - 1})
            self.dead = True

    @property
    def n(self):
        return int(self.summaries[-1].get("num_obs", 0)) if self.summaries and "num_obs" in self.summaries[-1] else len(self.real.gids)

    def rows(self):
        """actual number of rows (of rid) - equals num_obs unless a finding has occurred"""
        try:
            return len(self.real.ds.rid)
        except Exception:
            return int(self.real.ds.num_obs)

    # -- operations
    def subset_mask(self, mask):
        self.do("SubsetMask " + emit.lst(emit.b(x) for x in mask), f"ds.subset(np.array({[bool(x) for x in mask]}, dtype=bool))",
                lambda: self.real.ds.subset(np.array(mask, dtype=bool)))

    def subset_idx(self, ix):
        self.do("SubsetIdx " + emit.lst(emit.nat(i) for i in ix), f"ds.subset(np.array({list(ix)}, dtype=int))",
                lambda: self.real.ds.subset(np.array(ix, dtype=int)))

    def add(self, f):
        gids = self.current_gids()
        before = len(self.real.terms)
        term = term_of_add(f, gids, self.real.anon, self.real.wprof)
        self.do(term, f"ds.add_{f['kind']}({f['path']!r}, ..., unit={f['unit']}, refs={f['refs']})",
                lambda: self.real.add(f, gids))
        del self.real.terms[before:]

    def current_gids(self):
        try:
            return [int(x) for x in np.asarray(self.real.ds.rid)]
        except Exception:
            return list(range(int(self.real.ds.num_obs)))

    def collections_with_wrong_len(self):
        """Paths of the (nested) collections whose Collection.__len__ - the length of their first field - is not
        num_obs: empty collections, and collections whose first field is an empty collection."""
        out = []

        def walk(coll, prefix):
            for name, field in coll._fields.items():
                if field.__class__.__name__ == "CollectionField":
                    try:
                        n = len(field.data)
                    except Exception:
                        n = -1
                    if n != int(self.real.ds.num_obs):
                        out.append(prefix + name)
                    walk(field.data, prefix + name + ".")
        try:
            walk(self.real.ds, "")
        except Exception:
            pass
        return out

    def add_collection(self, path):
        self.do("AddColl " + emit.s(path), f"ds.add_collection({path!r})", lambda: self.real.ds.add_collection(path))

    def extend(self, other):
        self.flags[len(self.steps)] = self.collections_with_wrong_len()
        was_empty = self.rows() == 0
        self.do("Extend " + build_term(other, self.real.schema, self.rows()), "ds.extend(other)   # other:\n      " + "\n      ".join(other.pylog),
                lambda: self.real.ds.extend(other.ds))
        self.absorb(other, was_empty)

    def merge(self, others, sort_by):
        self.flags[len(self.steps)] = self.collections_with_wrong_len()
        was_empty = self.rows() == 0
        s = "None" if sort_by is None else f"(Some {emit.s(sort_by)})"
        cur, n_cur, oterms = {p: dict(f) for p, f in self.real.schema.items()}, self.rows(), []
        for o in others:
            oterms.append(build_term(o, cur, n_cur))
            for p, f in o.schema.items():
                if p not in cur or n_cur == 0:
                    cur[p] = dict(f)
            n_cur += len(o.gids)
        self.do("Merge " + emit.lst(oterms) + " " + s,
                f"ds.merge_with(*others, sort_by={sort_by!r})   # others:\n      "
                + "\n      ".join(l for o in others for l in o.pylog),
                lambda: self.real.ds.merge_with(*[o.ds for o in others], sort_by=sort_by))
        for o in others:
            self.absorb(o, was_empty)
            was_empty = was_empty and len(o.gids) == 0

    def absorb(self, other, was_empty=False):
        for p, f in other.schema.items():
            if was_empty and p in self.real.schema:
                # len(self) == 0: the other field (and its unit) is taken over
                self.real.schema[p] = dict(self.real.schema[p], unit=f["unit"], two=f["two"], w=f["w"], kind=f["kind"])
            if p not in self.real.schema:
                g = dict(f)
                g["refs"] = {a: (t if t[0] == "field" else ("anon", "x%d%s" % (self.fresh, t[1]), t[2])) for a, t in f["refs"].items()}
                self.real.schema[p] = g
        self.fresh += 1

    def difference(self, other, index_by):
        def fn():
            self.real.ds = self.real.ds.difference(other.ds, index_by=", ".join(index_by) if index_by else None)
        self.do("Difference " + build_term(other) + " " + emit.lst(emit.s(p) for p in index_by),
                f"ds = ds.difference(other, index_by={', '.join(index_by) if index_by else None!r})   # other:\n      "
                + "\n      ".join(other.pylog), fn)
        keep = {}
        for p, f in self.real.schema.items():
            if f["kind"] == "float" and (p in other.schema or p in index_by):
                keep[p] = dict(f, refs={})
            elif p in index_by:
                keep[p] = dict(f, refs={})
        self.real.schema = keep

    def delete(self, path):
        def fn():
            # `del ds["a.b.c"]` only supports one level of nesting: walk to the innermost collection
            parts = path.split(".")
            container = self.real.ds
            for p in parts[:-1]:
                container = getattr(container, p)
            if parts[-1] not in container._fields:
                del self.real.ds[path]          # raises AttributeError as `del ds[path]` does
            delattr(container, parts[-1])
        self.do("Del " + emit.s(path), f"del ds[{path!r}]   (delattr on the innermost collection)", fn)
        self.real.schema.pop(path, None)
        for f in self.real.schema.values():
            for a, t in list(f["refs"].items()):
                if t == ("field", path):
                    f["refs"][a] = ("anon", "d" + path, {"time": "time"}.get(a, "posvel" if f["kind"].startswith("posvel") else "position"))

    def filter(self, conds):
        self.do("Filter " + emit.lst(emit.pair(emit.s(p), payload_term(k, [v])) for p, k, v in conds),
                f"ds.filter(**{ {p: v for p, k, v in conds} })",
                lambda: self.real.ds.filter(**{p: v for p, k, v in conds}), result="mask")

    def filter_idx(self, keep, conds):
        """ds.filter(idx=keep, ...) with a boolean ndarray the caller goes on using: observe the answer AND the
        caller's array after the call"""
        before = [bool(x) for x in keep]
        if self.dead:
            return
        term = ("FilterIdx " + emit.lst(emit.b(x) for x in before) + " "
                + emit.lst(emit.pair(emit.s(p), payload_term(k, [v])) for p, k, v in conds))
        self.log.append(f"keep = np.array({before}); ds.filter(idx=keep, **{ {p: v for p, k, v in conds} })")
        try:
            out = self.real.ds.filter(idx=keep, **{p: v for p, k, v in conds})
        except Exception as e:
            self.steps.append((term, "ORaise"))
            self.log.append(f"   -> raised {type(e).__name__}: {str(e)[:150]}")
            self.summaries.append({"raised": f"{type(e).__name__}: {str(e)[:150]}", "step": len(self.steps) - 1})
            self.dead = True
            return
        after = [bool(x) for x in keep]
        self.steps.append((term, "(OMask2 " + emit.lst(emit.b(bool(x)) for x in out) + " " + emit.lst(emit.b(x) for x in after) + ")"))
        self.summaries.append({"mask": [bool(x) for x in out], "caller_mask_before": before, "caller_mask_after": after,
                               "step": len(self.steps) - 1})

    def subset_mask_array(self, keep, intended):
        """ds.subset(keep) with the caller's own array object; the model subsets with the values the caller put in"""
        self.do("SubsetMask " + emit.lst(emit.b(x) for x in intended),
                f"ds.subset(keep)   # keep was set to {[bool(x) for x in intended]}", lambda: self.real.ds.subset(keep))

    def unique(self, path, kind):
        self.do("Unique " + emit.s(path), f"ds.unique({path!r})", lambda: self.real.ds.unique(path), result=("vals", kind))

    # -- a dataset that can be extended onto the current one (congruent sharing)
    def derive_other(self, rng, n, drop_p=0.0, extra=None, unit_flip=0.0, wprof=None):
        if wprof is None:
            # by default the other side alternates between the opposite and the own width class, so that both
            # "self narrow, other wide" and "self already widened, other narrow" occur in one history
            opposite = {"narrow": "wide", "wide": "narrow", "mixed": "wide", "huge": "narrow"}.get(self.real.wprof, "narrow")
            own = {"narrow": "narrow", "wide": "wide", "mixed": "narrow", "huge": "huge"}.get(self.real.wprof, "wide")
            wprof = opposite if self.nderived % 2 == 0 else own
        self.nderived += 1
        base = self.alloc(n)
        keep = [p for p in self.real.schema if p in ("rid", "key") or rng.random() >= drop_p]
        sch = []
        for p in self.real.schema:
            if p not in keep:
                continue
            f = dict(self.real.schema[p])
            refs = {}
            for a, t in f["refs"].items():
                if t[0] == "field" and t[1] not in keep:
                    tk = self.real.schema[t[1]]["kind"] if t[1] in self.real.schema else "position"
                    refs[a] = ("anon", "f" + t[1], tk)
                else:
                    refs[a] = t
            f["refs"] = refs
            if f["unit"] is not None and rng.random() < unit_flip:
                f["unit"] = tuple({"meter": "kilometer", "second": "minute"}.get(u, u) for u in f["unit"])
            if p in ("t_g", "grp.t_h"):
                # the other side may keep these epochs in another scale, and may hold the same epochs in both fields
                if n and self.nderived % 3 != 2:
                    f["unit"] = ({"gps": "utc", "utc": "tai", "tai": "tt", "tt": "gps"}[f["unit"][0]],)
                if self.nderived % 2 == 0:
                    f["vname"] = "same"
            sch.append(f)
        # referenced fields must be added before the fields that refer to them
        order = []
        names = {f["path"] for f in sch}
        pending = list(sch)
        while pending:
            progressed = False
            for f in list(pending):
                deps = [t[1] for t in f["refs"].values() if t[0] == "field"]
                if all(d in {o["path"] for o in order} or d not in names for d in deps):
                    order.append(f)
                    pending.remove(f)
                    progressed = True
            if not progressed:
                order.extend(pending)
                break
        for e in (extra or []):
            if e["path"] not in names:
                order.append(e)
        return build_real(order, n, base, wprof)


def term_of_add(f, gids, anon, wprof="narrow"):
    kind, two, w, path = f["kind"], f["two"], f["w"], f["path"]
    rows = [row_value(kind, two, w, f.get("vname") or path, g, f.get("keymod"), wprof) for g in gids]
    ref_terms = []
    for attr, tgt in f["refs"].items():
        if tgt[0] == "field":
            ref_terms.append(emit.pair(emit.s(attr), f"TField {emit.s(tgt[1])}"))
        else:
            _, aid, akind = tgt
            if aid in anon:
                p0, a0 = anon[aid]
                ref_terms.append(emit.pair(emit.s(attr), f"TSame {emit.s(p0)} {emit.s(a0)}"))
            else:
                arows = [row_value(akind, False, 1, "anon" + aid, g) for g in gids]
                ref_terms.append(emit.pair(emit.s(attr), f"TNew {KCOQ[akind]} " + emit.lst(
                    payload_term(akind, r) for r in model_rows(akind, arows))))
    unit = "None" if f["unit"] is None else "(Some " + emit.lst(emit.s(u) for u in f["unit"]) + ")"
    return (f"Add {emit.s(path)} {KCOQ[kind]} {emit.b(two)} {emit.nat(w)} {unit} "
            + emit.lst(payload_term(kind, r) for r in model_rows(kind, rows)) + " " + emit.lst(ref_terms))


# ----------------------------------------------------------------------------- alphabet (bounded-exhaustive part)
LETTERS = "acdeghijk"   # b (empty mask), f (extend with an empty dataset), l (queries) are left to the random histories


def apply_letter(h, letter, step, rng):
    n = h.rows()
    sch = h.real.schema
    if letter == "a":
        h.subset_mask([k % 2 == 0 for k in range(n)])
    elif letter == "b":
        h.subset_mask([False] * n)
    elif letter == "c":
        h.subset_idx([n - 1, 0, 0] if n else [])
    elif letter == "d":
        h.extend(h.derive_other(rng, 2))
    elif letter == "e":
        drop = [p for p in ("tx", "site", "grp.g1") if p in sch]
        h.extend(derive_fixed(h, drop, 2, extra=[fd(f"x{step}", "float", unit=("second",))]))
    elif letter == "f":
        h.extend(h.derive_other(rng, 0))
    elif letter == "g":
        h.merge([h.derive_other(rng, 2)], "key")
    elif letter == "h":
        h.add(fd(f"a{step}", "float", two=True, w=2))
    elif letter == "i":
        h.add(fd(f"p{step}", "position", refs={"other": ("field", "sat")} if "sat" in sch and sch["sat"]["kind"] == "position" else {}))
    elif letter == "j":
        cand = [p for p in ("c0.a", "tx", "dl", "grp.g1", "site", "time") if p in sch]   # c0.a first: empties collection c0
        h.delete(cand[0] if cand else "nonexistent")
    elif letter == "k":
        # difference against a dataset with the same simple fields, paired on the key column
        drop = [p for p in sch if sch[p]["kind"] not in ("float", "text")]
        h.difference(derive_fixed(h, drop, 2), ["key"])
    elif letter == "l":
        if step % 2 == 0:
            h.filter([("key", "float", 1.0)])
        else:
            h.unique("key", "float")


def derive_fixed(h, drop, n, extra=None, wprof=None):
    class R:
        def __init__(self):
            self.q = []

        def random(self):
            return self.q.pop(0)
    r = R()
    for p in h.real.schema:
        if p in ("rid", "key"):
            continue
        r.q.append(0.0 if p in drop else 1.0)
    r.q.extend([1.0] * 50)
    return h.derive_other(r, n, drop_p=0.5, extra=extra, wprof=wprof)


# ----------------------------------------------------------------------------- random histories
def random_history(ctx, rng, label, max_ops, big=False):
    h = History(ctx, label)
    n = rng.choice([0, 1, 2, 3, 3, 4, 5, 6, 8]) if not big else rng.choice([17, 24, 33, 64])
    profiles = ["narrow", "wide", "mixed", "mixed", "huge"] if not big else ["narrow", "wide", "mixed"]
    h.start(random_schema(rng), n, wprof=rng.choice(profiles[:4]),
            first_collection="e0" if rng.random() < 0.1 else None)
    counts_profile = lambda p: ctx.count("text_width_profile:" + p)
    counts_profile("self:" + h.real.wprof)
    nops = rng.randrange(1, max_ops + 1)
    for step in range(nops):
        if h.dead:
            break
        n = h.rows()
        sch = h.real.schema
        r = rng.random()
        if r < 0.16:
            h.subset_mask([rng.random() < rng.choice([0.2, 0.5, 0.8]) for _ in range(n)])
            ctx.count("op:subset_mask")
        elif r < 0.20:
            k = rng.randrange(0, n + 2) if n else 0
            h.subset_idx([rng.randrange(n) for _ in range(k)] if n else [])
            ctx.count("op:subset_idx")
        elif r < 0.24:
            # edge stream: wrong mask length / index out of range
            if rng.random() < 0.5:
                h.subset_mask([True] * (n + 1))
            else:
                h.subset_idx([n + 2])
            ctx.count("op:subset_invalid")
        elif r < 0.44:
            m = rng.choice([0, 1, 2, 3, 5]) if not big else rng.choice([5, 20])
            wp = rng.choice(profiles) if rng.random() < 0.6 else None
            counts_profile("other:" + str(wp or "alternate"))
            other = h.derive_other(rng, m, wprof=wp, drop_p=rng.choice([0.0, 0.0, 0.15, 0.4]),
                                   extra=[fd(f"x{step}", rng.choice(["float", "text", "bool", "time_delta", "sigma"]))] if rng.random() < 0.3 else None,
                                   unit_flip=rng.choice([0.0, 0.5]))
            h.extend(other)
            ctx.count("op:extend")
        elif r < 0.58:
            k = rng.choice([1, 1, 2])
            others = []
            for _ in range(k):
                m = rng.choice([0, 1, 2, 4]) if not big else rng.choice([8, 20])
                others.append(h.derive_other(rng, m, drop_p=rng.choice([0.0, 0.0, 0.2]),
                                             wprof=rng.choice(profiles) if rng.random() < 0.6 else None))
                # the next one must be congruent with what self will be: refresh the schema view
                for p, f in others[-1].schema.items():
                    h.real.schema.setdefault(p, f)
            sort_by = rng.choice(["key", "rid", "rid", "time" if "time" in sch and sch["time"]["kind"] == "time" else "rid", None])
            h.merge(others, sort_by)
            ctx.count("op:merge" + ("_sorted" if sort_by else ""))
        elif r < 0.66 and rng.random() < 0.12:
            h.add_collection(rng.choice(["", "grp.", "new."]) + f"e{step}")
            ctx.count("op:add_collection")
        elif r < 0.66:
            kind = rng.choice(KINDS)
            path = rng.choice(["", "", "grp.", "new."]) + f"n{step}"
            refs = {}
            if kind in ("position", "posvel"):
                tgt = [p for p, f in sch.items() if f["kind"] == kind]
                if tgt and rng.random() < 0.7:
                    refs["other"] = ("field", rng.choice(tgt))
                # only utc time fields are attached to positions: the rows of a referenced time object are paired through
                # the reference, and the harness gives scale-converted rows to the model for fields of the same name only
                tt = [p for p, f in sch.items() if f["kind"] == "time" and f["unit"] == ("utc",)]
                if tt and rng.random() < 0.5:
                    refs["time"] = ("field", rng.choice(tt))
            if kind in ("position_delta", "posvel_delta"):
                base_kind = "position" if kind == "position_delta" else "posvel"
                tgt = [p for p, f in sch.items() if f["kind"] == base_kind]
                refs["ref_pos"] = ("field", rng.choice(tgt)) if tgt and rng.random() < 0.8 else ("anon", f"r{step}", base_kind)
            two = kind in ("float", "text") and rng.random() < 0.3
            unit = rng.choice([None, ("meter",)]) if kind in ("float", "sigma") and not two else None
            h.add(fd(path, kind, two=two, w=2 if two else 1, unit=unit, refs=refs))
            ctx.count("op:add_" + kind)
        elif r < 0.72:
            # collections may be emptied: the empty collection stays behind in the implementation (the model
            # has no such thing: it holds no rows), and, when it is the first field, decides Collection.__len__
            cand = [p for p in sch if p not in ("rid", "key")]
            nested_first = [p for p in cand if p.startswith("c0.")]
            if nested_first and rng.random() < 0.5:
                cand = nested_first
            h.delete(rng.choice(cand) if cand and rng.random() < 0.9 else "nonexistent")
            ctx.count("op:del")
        elif r < 0.80 and rng.random() < 0.3:
            # filter(idx=mask, ...) with an ndarray mask the caller keeps using (a second filter, then subset)
            keep = np.array([rng.random() < 0.7 for _ in range(n)], dtype=bool)
            intended = [bool(x) for x in keep]
            vals = np.asarray(h.real.ds["key"]).tolist()
            h.filter_idx(keep, [("key", "float", float(rng.choice(vals)) if vals else 0.0)])
            if rng.random() < 0.5:
                h.filter_idx(keep, [("rid", "float", float(rng.choice(np.asarray(h.real.ds["rid"]).tolist())) if n else 0.0)])
            if rng.random() < 0.6 and not h.dead:
                h.subset_mask_array(keep, intended)
            ctx.count("op:filter_idx")
        elif r < 0.80:
            flt = [p for p, f in sch.items() if f["kind"] == "float" and not f["two"] and "." not in p]
            if rng.random() < 0.5 and flt:
                p = rng.choice(flt)
                vals = np.asarray(h.real.ds[p]).tolist()
                v = rng.choice(vals) if vals and rng.random() < 0.8 else 12345.0
                h.filter([(p, "float", float(v))])
            elif "tx" in sch and sch["tx"]["kind"] == "text":
                vals = np.asarray(h.real.ds["tx"]).tolist()
                h.filter([("tx", "text", rng.choice(vals) if vals else "none")])
            else:
                h.filter([("key", "float", 1.0)])
            ctx.count("op:filter")
        elif r < 0.86:
            p = rng.choice([q for q, f in sch.items() if f["kind"] in ("float", "text") and not f["two"] and "." not in q])
            h.unique(p, sch[p]["kind"])
            ctx.count("op:unique")
        else:
            drop = [p for p in sch if sch[p]["kind"] not in ("float", "text", "bool", "sigma")]
            if rng.random() < 0.3:
                drop += [p for p in sch if p not in ("rid", "key") and rng.random() < 0.3]
            m = rng.choice([1, 2, 3, n]) if rng.random() < 0.8 else 0
            # drop the non-simple fields of self first (difference is only modelled for simple fields)
            for p in [p for p in list(sch) if sch[p]["kind"] not in ("float", "text", "bool", "sigma")]:
                if not h.dead:
                    h.delete(p)
            if h.dead:
                break
            index_by = rng.choice([["key"], ["rid"], ["key", "tx"] if "tx" in h.real.schema and h.real.schema["tx"]["kind"] == "text" and not h.real.schema["tx"]["two"] else ["key"], []])
            if index_by == []:
                m = h.rows() if rng.random() < 0.8 else m
            other = derive_fixed(h, [p for p in drop if p in h.real.schema], m)
            if index_by == ["rid"] and m and h.rows():
                # share some observations: rebuild `other` on the current observation ids
                gids = h.current_gids()
                pick = sorted(set(rng.choice(gids) for _ in range(m)))
                other = Real(len(pick), 0)
                other.gids = pick
                other.terms = [f"New {emit.nat(len(pick))} {emit.zs(0)}"]
                other.ds.__init__(num_obs=len(pick))
                for p, f in h.real.schema.items():
                    if p in drop:
                        continue
                    f2 = dict(f, refs={})
                    rows = [row_value(f2["kind"], f2["two"], f2["w"], p + ("" if p in ("rid", "key") else "#"), g, f2.get("keymod")) for g in pick]
                    _add_rows(other, f2, rows)
            h.difference(other, index_by)
            ctx.count("op:difference")
    return h


def _add_rows(real, f, rows):
    """add a field with explicit rows (used for `other` datasets that share observations with self)"""
    kind, two, w, path = f["kind"], f["two"], f["w"], f["path"]
    n = len(rows)
    val = np_value(kind, two, w, rows, n)
    add = getattr(real.ds, "add_" + kind)
    if kind == "float":
        add(path, val=val, unit=f["unit"])
    elif kind == "sigma":
        add(path, val=val[0], sigma=val[1], unit=f["unit"])
    else:
        add(path, val=val)
    unit = "None" if f["unit"] is None else "(Some " + emit.lst(emit.s(u) for u in f["unit"]) + ")"
    real.terms.append(f"Add {emit.s(path)} {KCOQ[kind]} {emit.b(two)} {emit.nat(w)} {unit} "
                      + emit.lst(payload_term(kind, r) for r in rows) + " []")
    real.pylog.append(f"other.add_{kind}({path!r}, {rows[:3]}...)")
    real.schema[path] = f


# ----------------------------------------------------------------------------- the run
def shard_of(histories):
    return "List.map check_seq " + emit.lst(emit.lst(emit.pair(o, b) for o, b in h.steps) for h in histories)


def make_history(spec):
    """Worker (forked): run one history on midgard, return plain data."""
    import random as _r
    import contextlib
    import io
    counts = {}
    with contextlib.redirect_stdout(io.StringIO()):      # midgard prints "todo: check empty_from argument"
        return _make_history(spec, counts)


CORPUS = ["subset_index", "unstable_sort", "nested_pad", "fill_unattached", "empty_self_nested", "empty_other_sharing",
          "text_narrow_then_wide", "text_wide_then_narrow", "text_99_100", "text_100_99", "text_u99_u100", "text_u100_u99",
          "text_merge_widths", "empty_self_toplevel", "first_collection_emptied", "first_collection_never_filled",
          "nested_first_collection_emptied", "empty_collection_gets_field", "time_only_in_other", "per_column_units",
          "filter_idx_reused_mask", "time_scales_equal_epochs", "time_scale_merge", "time_not_utc_padded"]


def corpus_history(name):
    """Minimal witnesses of the defects found while building (they run first on every run)."""
    rk = [fd("rid", "float"), fd("key", "float", keymod=3)]
    h = History(None, "corpus:" + name)
    if name == "subset_index":
        h.start(rk + [fd("tx", "text")], 5)
        h.subset_idx([3, 0, 4])
    elif name == "unstable_sort":
        h.start(rk + [fd("tx", "text")], 4)
        h.merge([build_real(rk + [fd("tx", "text")], 4, 4)], "key")      # keys 0,1,2,0,1,2,0,1
    elif name == "nested_pad":
        h.start(rk + [fd("grp.g1", "float")], 1)
        h.extend(build_real(rk + [fd("grp.g1", "float"), fd("grp.gt", "text")], 3, 100))
    elif name == "fill_unattached":
        h.start(rk + [fd("site", "position", refs={"other": ("anon", "p0", "position")})], 2)
        h.extend(build_real(rk, 3, 100))
    elif name == "empty_self_nested":
        h.start(rk + [fd("grp.g1", "float"), fd("grp.gt", "text")], 0)
        h.extend(build_real(rk + [fd("grp.g1", "float")], 1, 100))
    elif name in ("first_collection_emptied", "first_collection_never_filled"):
        # the first field of the dataset is a collection that holds no fields (any more); every later operation
        # still works from num_obs = number of rows
        tail = rk + [fd("tx", "text"), fd("sat", "position")]
        if name == "first_collection_emptied":
            h.start([fd("c0.a", "float"), fd("c0.b", "text")] + tail, 5)
            h.delete("c0.a")
            h.delete("c0.b")
        else:
            h.start(tail, 5, first_collection="c0")
        h.subset_mask([True, False, True, True, False])
        h.subset_idx([2, 0])
        h.add(fd("n1", "bool"))
        h.filter([("key", "float", 0.0)])
        h.extend(build_real(rk + [fd("tx", "text")], 1, 100, "wide"))
        h.merge([build_real(rk + [fd("tx", "text"), fd("c0.a", "float")], 2, 200)], "rid")
        h.subset_mask([False, True, True, True, False])
    elif name == "nested_first_collection_emptied":
        h.start(rk + [fd("grp.sub.h", "float"), fd("grp.n3", "time_delta")], 2)
        h.delete("grp.sub.h")
        h.subset_mask([True, True])
        h.extend(build_real(rk + [fd("grp.n3", "time_delta")], 4, 100))
    elif name == "empty_collection_gets_field":
        h.start(rk + [fd("grp.g1", "float")], 2)
        h.delete("grp.g1")
        h.extend(build_real(rk + [fd("grp.g1", "float")], 3, 100))
    elif name == "filter_idx_reused_mask":
        # keep = ds.filter(a=..); ds.filter(idx=keep, b=..); ds.filter(idx=keep, c=..); ds.subset(keep)
        h.start(rk + [fd("tx", "text"), fd("bo", "bool"), fd("f1", "float")], 6)
        keep = np.asarray(h.real.ds.filter(key=0.0)).copy()
        h.filter([("key", "float", 0.0)])
        intended = [bool(x) for x in keep]
        h.filter_idx(keep, [("f1", "float", float(np.asarray(h.real.ds.f1)[3]))])
        h.filter_idx(keep, [("tx", "text", str(np.asarray(h.real.ds.tx)[0])), ("key", "float", 0.0)])
        h.filter_idx(keep, [])
        h.subset_mask_array(keep, intended)
        keep2 = np.array([True, False])
        h.filter_idx(keep2, [("rid", "float", 12345.0)])
        h.subset_mask_array(keep2, [True, False])
    elif name in ("time_scales_equal_epochs", "time_scale_merge"):
        # self keeps its epochs in gps / tt, other in utc / tai; two DIFFERENT time fields of other hold equal epochs
        # (sent / received with zero travel time) while the fields of self differ
        ssch = rk + [fd("sent", "time", unit=("gps",), vname="tsent"), fd("grp.received", "time", unit=("gps",), vname="trecv"),
                     fd("mid", "time", unit=("tt",), vname="recv")]      # three different value series (salts 3, 2, 0)
        osch = rk + [fd("sent", "time", unit=("utc",), vname="same"), fd("grp.received", "time", unit=("utc",), vname="same"),
                     fd("mid", "time", unit=("tai",), vname="same")]
        h.start(ssch, 3)
        if name == "time_scales_equal_epochs":
            h.extend(build_real(osch, 2, 100))
            h.extend(build_real(ssch, 2, 200))
            h.subset_idx([6, 0, 3, 4])
        else:
            h.merge([build_real(osch, 2, 100), build_real(osch, 1, 200)], "sent")
            h.subset_mask([True, False, True, True, False, True])
    elif name == "time_not_utc_padded":
        # a time field in another scale than utc is missing on the other side: padded with empty values
        h.start(rk + [fd("tg", "time", unit=("gps",))], 2)
        h.extend(build_real(rk, 2, 100))
    elif name == "time_only_in_other":
        # time / time_delta fields (and a position's time) that only the other dataset has: prepend_empty inserts at
        # row 0; value, jd1 and jd2 of every row must stay together
        h.start(rk + [fd("tx", "text")], 3)
        osch = rk + [fd("time", "time"), fd("td", "time_delta"), fd("sat", "position", refs={"time": ("field", "time")})]
        h.extend(build_real(osch, 2, 100))
        h.merge([build_real(osch + [fd("grp.t", "time")], 2, 200)], "time")
        h.subset_idx([1, 6, 3, 0])
    elif name == "per_column_units":
        # 2-d float with one unit per column; the other side differs in the first, the second, both columns
        h.start(rk + [fd("fu", "float", two=True, w=2, unit=("meter", "second"))], 2)
        h.extend(build_real(rk + [fd("fu", "float", two=True, w=2, unit=("meter", "minute"))], 2, 100))
        h.extend(build_real(rk + [fd("fu", "float", two=True, w=2, unit=("kilometer", "second"))], 2, 200))
        h.merge([build_real(rk + [fd("fu", "float", two=True, w=2, unit=("kilometer", "hour"))], 1, 300)], "rid")
    elif name == "empty_self_toplevel":
        # a dataset emptied by subset keeps its fields; fields only self has are padded when it is extended
        h.start(rk + [fd("tx", "text"), fd("f1", "float", unit=("meter",)), fd("sat", "position")], 3)
        h.subset_mask([False, False, False])
        h.extend(build_real(rk + [fd("f1", "float", unit=("meter",))], 2, 100))
        h.merge([build_real(rk + [fd("tx", "text")], 2, 200, "wide")], "rid")
    elif name.startswith("text_"):
        # string dtypes of different widths on the two sides (U9 / U10.., U99 / U100), 1-d and 2-d, both directions
        tsch = rk + [fd("tx", "text"), fd("t2", "text", two=True, w=2), fd("grp.gt", "text")]
        first, second = {"text_narrow_then_wide": ("narrow", "wide"), "text_wide_then_narrow": ("wide", "narrow"),
                         "text_99_100": ("huge", "narrow"), "text_100_99": ("narrow", "huge"),
                         "text_u99_u100": ("w99", "w100"), "text_u100_u99": ("w100", "w99"),
                         "text_merge_widths": ("mixed", "wide")}[name]
        h.start(tsch, 3, wprof=first)
        if name == "text_merge_widths":
            h.merge([build_real(tsch, 3, 100, second), build_real(tsch, 2, 200, "narrow")], "rid")
            h.subset_mask([True, False, True, True, False, True, True, True])
            h.filter([("tx", "text", str(np.asarray(h.real.ds.tx)[1]))])
        else:
            h.extend(build_real(tsch, 4, 100, second))
            h.extend(build_real(tsch, 2, 200, first))
    elif name == "empty_other_sharing":
        h.start(rk + [fd("sat", "position"), fd("site", "position", refs={"other": ("field", "sat")})], 2)
        h.extend(build_real(rk + [fd("site", "position", refs={"other": ("anon", "p0", "position")})], 0, 100))
    return h


def _make_history(spec, counts):
    import random as _r
    if spec[0] == "corpus":
        h = corpus_history(spec[1])
        counts["corpus"] = 1
        return dict(label=h.label, steps=h.steps, log=h.log, summaries=h.summaries, counts=counts, flags=h.flags)

    class C:
        def count(self, k, n=1):
            counts[k] = counts.get(k, 0) + n
    if spec[0] == "word":
        w = spec[1]
        h = History(C(), "word:" + w)
        h.start(base_schema_small(), 3)
        wr = _r.Random(sum(ord(c) * 31 ** i for i, c in enumerate(w)) & 0xffffff)
        for step, c in enumerate(w):
            apply_letter(h, c, step, wr)
            if h.dead:
                break
        counts[f"exhaustive:len{len(w)}"] = 1
    else:
        _, i, seed, max_ops, big = spec
        h = random_history(C(), _r.Random(seed), ("big:%d" if big else "random:%d") % i, max_ops, big=big)
        counts["rows_at_start:%d" % len(h.real.gids)] = 1
        counts["steps:%d" % (len(h.steps) // 5 * 5)] = 1
    return dict(label=h.label, steps=h.steps, log=h.log, summaries=h.summaries, counts=counts, flags=h.flags)


def run(ctx):
    setup_midgard()
    ok = ctx.prove(THEOREMS)
    rng = ctx.rng

    # ---- A. bounded-exhaustive: every word of length L over the 12 letters, from one base dataset
    L = 3 if ctx.quick() else 4
    words = [""]
    for _ in range(L):
        words = [w + c for w in words for c in LETTERS]
    specs = [("word", w) for w in words] + [("corpus", c) for c in CORPUS]
    # ---- B. random histories up to 25 operations, all field types, 0..8 rows
    n_rand = 100 if ctx.quick() else 1200
    specs += [("random", i, rng.getrandbits(48), 25, False) for i in range(n_rand)]
    # ---- C. thorough: long tables (17..64 rows) with tied sort keys
    if not ctx.quick():
        specs += [("random", i, rng.getrandbits(48), 6, True) for i in range(200)]
    import multiprocessing as mp
    with mp.get_context("fork").Pool(core.NCPU) as pool:
        hs = pool.map(make_history, specs, chunksize=max(1, len(specs) // (core.NCPU * 8)))
    for h in hs:
        for k, n in h["counts"].items():
            ctx.count(k, n)
    ctx.log(f"histories run on midgard: {len(hs)} ({len(words)} words of length {L}, {len(CORPUS)} corpus, "
            f"{len(hs) - len(words) - len(CORPUS)} random)")

    # ---- evaluate in Coq (shards of about 160 kB: ~250 MB of memory per coqc); the words share the steps that build the base dataset
    nbase = len(base_schema_small()) + 1
    base_steps = hs[0]["steps"][:nbase]
    base_term = emit.lst(emit.pair(o, b) for o, b in base_steps)
    shards, cur, cur_bytes = [], [], 0

    def flush():
        if cur:
            shards.append("let base := " + base_term + " in\nList.map check_seq " + emit.lst(cur))

    for h in hs:
        if h["label"].startswith("word:") and h["steps"][:nbase] == base_steps:
            t = "(base ++ " + emit.lst(emit.pair(o, b) for o, b in h["steps"][nbase:]) + ")"
        else:
            t = emit.lst(emit.pair(o, b) for o, b in h["steps"])
        if cur and cur_bytes + len(t) > 160000:
            flush()
            cur, cur_bytes = [], 0
        cur.append(t)
        cur_bytes += len(t)
    flush()
    ctx.log(f"{len(shards)} shards, {sum(len(s) for s in shards) / 1e6:.1f} MB")
    vs = ctx.coq_cases(shards, REQ, timeout=1500)
    # a shard that was killed (memory pressure from parallel jobs) is evaluated again on its own
    for attempt in range(2):
        for i, v in enumerate(vs):
            if v is None:
                ctx.log(f"shard {i} failed ({str(ctx.last_coq_errors[:1])[-120:]}); retrying alone")
                vs[i] = ctx.coq_cases([shards[i]], REQ, timeout=1500)[0]
    flat = emit.flatten_verdicts(vs, len(hs))
    if flat is None:
        ctx.violation({"broken": "correspondence shards did not evaluate in Coq", "errors": ctx.last_coq_errors[:2]},
                      what="correspondence (model evaluation) failed", found=False)
        flat = []
    n_samples = 0
    for h, v in zip(hs, flat):
        nontriv = len(h["steps"]) > 3
        sample = None
        if h["label"].startswith("random:") and n_samples < 3 and v == 0 and len(h["log"]) > 12:
            sample = {"label": h["label"], "last_ops": [l[:200] for l in h["log"][-4:]]}
            n_samples += 1
        ctx.case((h["label"], tuple(o for o, _ in h["steps"])), nontrivial=nontriv, sample=sample)
        # the property stated directly on the observables, for every state up to the first deviation (covers what the
        # model cannot express, e.g. empty collections): num_obs rows everywhere
        upto = (v // 16) if v else len(h["steps"])
        for sm in h["summaries"]:
            if "fields" in sm and sm.get("step", 0) < upto and rect_oracle(sm):
                ctx.violation(dict(kind="oracle", label=h["label"], step=sm["step"], history=h["log"], observed=sm,
                                   oracle=rect_oracle(sm)),
                              what=f"history {h['label']} step {sm['step']}: " + "; ".join(rect_oracle(sm)[:2]))
                break
        if v == 0:
            continue
        cls, step = v % 16, v // 16
        if cls == 15:
            # the model's precondition for extend (congruent sharing) does not hold: not judged further
            ctx.count("outside_model_domain:incongruent_sharing")
            continue
        at = [s for s in h["summaries"] if s.get("step") == step]
        oracle = [b for s in at if "fields" in s for b in rect_oracle(s)][:6]
        rep = dict(kind="history", label=h["label"], deviating_step=step, verdict_class=cls,
                   history=h["log"], observed_at_deviating_step=at[0] if at else None, oracle=oracle,
                   how="VERIF_SEED=%s /venv/bin/python run_check.py C09 %s  (history %s)" % (ctx.seed, ctx.tier, h["label"]))
        if cls in FINDINGS:
            fid, what = FINDINGS[cls]
            ctx.count("quirk:" + fid)
            ctx.finding(fid, what, rep)
        else:
            rep["coq_step_op"] = h["steps"][step][0][:600] if step < len(h["steps"]) else None
            rep["coq_step_observation"] = h["steps"][step][1][:1500] if step < len(h["steps"]) else None
            ctx.violation(rep, what=f"midgard differs from the model at step {step} of history {h['label']}"
                          + (": " + "; ".join(oracle[:2]) if oracle else ""))

    if not ok and not ctx.violations:
        def search():
            for h in hs:
                for s in h["summaries"]:
                    if "fields" in s and rect_oracle(s):
                        return dict(kind="oracle", label=h["label"], history=h["log"], observed=s, oracle=rect_oracle(s),
                                    what="a field or reference does not have num_obs rows")
            return None
        ctx.obligations_broken(search)

    ctx.trusted += [
        "Coq 8.16.1 kernel, coqc, vm_compute (no native_compute)",
        "hand-written model coq/theories/Model/C09_Dataset.v (validated against midgard.data.dataset by this run's correspondence)",
        "harness/drivers/c09.py (generators, snapshot of the real objects by id(), term emission)",
    ]
    ctx.assume += [
        "extend/merge_with: the two datasets share objects in the same way (one-to-one pairing of objects by field name / attribute)",
        "a history ends at the first operation that raises; no claim about the dataset after an exception",
        "unit conversion factors are integers (meter/kilometer, second/minute/hour), all values small dyadics: data only moves",
    ]
    return ctx.finish(
        level="proof",
        rule=(f"all {len(LETTERS)}^{L} words over the alphabet (mask / empty mask / index list / extend congruent / extend with missing+extra "
              "fields / extend empty / merge+sort / add float / add position with reference / del / difference / filter|unique) from one base "
              "dataset with shared time/other/ref_pos references and a nested collection; random histories of 1..25 operations over all eleven "
              "field types (0..8 rows, thorough also 17..64 rows with tied keys), 1-/2-d float and text, nested collections two deep, shared and "
              "unattached references, unit conversion, invalid masks/indices. distinct_nontrivial = distinct histories with more than 3 steps"),
    )


def replay(ctx, path):
    rep = json.load(open(path))
    print(json.dumps(rep, indent=1))
    print("re-run: VERIF_SEED=%s /venv/bin/python run_check.py C09 %s" % (rep.get("seed"), rep.get("tier", "quick")))
    return 0
