"""C17 - written files are format-conformant and read back to the same values (DESIGN 4.17).

Proof obligations: coq/theories/Props/C17.v (model Model/C17_Layout.v; the writers' line layouts and the parsers'
column tables are regenerated from the source into Gen/C17_WriterLayouts.v on every run by harness/drivers/c17_layouts.py).
Correspondence: random site-information dictionaries / datasets are written by the real writers; every written line is
compared inside Coq with the model's rendering of the same input, the matching real parser's output is compared with the
input to printed precision, and the input objects are digested before/after."""
from __future__ import annotations

import copy
import hashlib
import json
import math
import os
import warnings
from collections import OrderedDict
from datetime import datetime, timedelta
from pathlib import Path

from harness import core, emit
from harness.drivers import c17_layouts as tl
from harness.drivers.c17_layouts import Hint as H, TranslateError

META = {
    "property_id": "C17",
    "level": "proof",
    "design_ref": "DESIGN.md 4.17",
    "technique": "Coq proof over a generic model of format-string lines and fixed-column / token parsers; the layouts are "
                 "regenerated from the writers' format strings (ast) and the parsers' column tables (ast / reflection) on every "
                 "run; vm_compute correspondence with the real writers and parsers",
    "level_text": (
        "Theorems in Coq 8.16 (all closed under the global context): layout_compatible_sound - for EVERY layout, column table and "
        "record whose values fit, if the decidable criterion `compatible` holds the fixed-column parser returns column by column the "
        "stripped formatted value of the field `span_map` names (any number of fields, open-ended last column, tail field), and "
        "float() of a numeric column is the correctly rounded printed decimal (column_reads_printed_value); the criterion is evaluated "
        "by the kernel on the layouts regenerated from the current source for every writer/parser pair (bernese_crd, bernese_clu, "
        "bernese_sta <-> bernese_sta_v52, sinex_tms header / FILE/REFERENCE / REF_COORDINATE / COLUMNS) and each obligation is stated as "
        "the round trip for all fitting records; the parser registered as bernese_sta (v5.4) provably cannot read the writer's rows; the field windows of "
        "the Bernese STA rows lie inside the writer's own column ruler; rows read by splitting on blanks re-tokenise to the written "
        "values iff every inner gap is non-empty (tokens_pieces, token_row_sound, tms_tokens - all rows, any number of fields); "
        "which magnitudes fit %w.df with / without a separating blank (fits_characterisation, narrower_characterisation, all w d m) "
        "and that the property's coordinate domain fits the regenerated widths; the SINEX-TMS block markers are balanced for any "
        "number of rows (blocks_balanced on the regenerated block table); float('%.df' % x) is the correctly rounded decimal "
        "(fix_readback).  The model is tied to the code on every run: layouts/tables regenerated, and files written by the real "
        "writers are compared line by line with the model inside Coq and re-read by the real parsers."),
    "level_note": (
        "Trusted: Coq kernel + vm_compute; the hand-written model of "
        "Python's format mini-language (validated per written line), of np.genfromtxt fixed-width splitting / ChainParser slicing / "
        "str.split (validated per parsed line); the translator harness/drivers/c17_layouts.py (fail-closed); the identifier lengths "
        "of the formats written in the driver's ROWS table; which lines a writer emits for an input (row selection, sorting) is "
        "re-implemented in the driver and validated by comparing complete files.  gamit_apr_eq, gamit_station_info, gipsyx_site_info and the SOLUTION blocks of sinex_tms have no parser in the library: bytes vs model, columns and input digests only."),
}

THEOREMS = [
    "layout_compatible_sound", "layout_compatible_values", "column_reads_printed_value",
    "compatible_bernese_crd", "crd_reads_printed_coordinate", "compatible_bernese_clu", "compatible_bernese_sta_v52", "bernese_sta_v54_incompatible",
    "compatible_tms_header", "compatible_tms_file_reference", "compatible_tms_ref_coordinate", "compatible_tms_columns",
    "tms_blocks_wf", "blocks_balanced", "tms_rows_start_blank", "tms_types_shape",
    "sta_fields_in_ruler", "tms_fields_under_headers", "tokens_pieces", "tms_tokens", "token_row_sound", "tms_domain_fits", "crd_domain_fits",
    "fits_characterisation", "narrower_characterisation", "fix_readback",
]

REQ = "From Verif Require Import Lib.Dyadic Model.C17_Layout Gen.C17_WriterLayouts."

W = "midgard/writers/"
P = "midgard/parsers/"

_ST = H("station", "s", 4)
_DO = H("domes", "s", 9)
_D19 = H("date", "s", 19)

# model of every written row type: (module, function, ordinal of the row template in that function, hints by field position)
ROWS = OrderedDict([
    ("crd", (W + "bernese_crd.py", "bernese_crd", 0, [H("number", "i"), _ST, _DO, H("x", "f"), H("y", "f"), H("z", "f")])),
    ("vel", (W + "bernese_vel.py", "bernese_vel", 0, [H("number", "i"), _ST, _DO, H("vx", "f"), H("vy", "f"), H("vz", "f"),
                                                       H("plate", "s", 4)])),
    ("clu", (W + "bernese_clu.py", "bernese_clu", 0, [_ST])),
    ("abb", (W + "bernese_abb.py", "bernese_abb", 0, [_ST, H("id4", "s", 4), H("id2", "s", 2), H("remark", "s")])),
    ("sta1", (W + "bernese_sta.py", "bernese_sta", 0, [_ST, _DO, _D19, _D19, H("old_station", "s", 4), H("remark", "s")])),
    ("sta2", (W + "bernese_sta.py", "bernese_sta", 1, [
        _ST, _DO, _D19, _D19, H("rcv", "s", 20), H("rcv_serial", "s", 20), H("rcv_short", "s", 6), H("ant", "s", 15),
        H("radome", "s", 4), H("ant_serial", "s", 20), H("ant_short", "s", 6), H("north", "f", 8), H("east", "f", 8), H("up", "f", 8),
        H("description", "s", 22), H("remark", "s")])),
    ("sta3", (W + "bernese_sta.py", "bernese_sta", 2, [_ST, _DO, _D19, H("date_to", "s", 19), H("remark", "s")])),
    ("tms_header", (W + "sinex_tms.py", "header_line", 0, [
        H("version", "s", exact=4), H("file_agency", "s", 3), H("now", "s", exact=14), H("data_agency", "s", 3),
        H("start", "s", exact=14), H("end", "s", exact=14), H("obs_code", "s", exact=1), H("solution", "s")])),
    ("tms_fr_description", (W + "sinex_tms.py", "file_reference", 0, [H("organization", "s")])),
    ("tms_fr_contact", (W + "sinex_tms.py", "file_reference", 1, [H("contact", "s", 60)])),
    ("tms_fr_software", (W + "sinex_tms.py", "file_reference", 2, [H("software", "s", 60)])),
    ("tms_fr_input", (W + "sinex_tms.py", "file_reference", 3, [H("input", "s", 60)])),
    ("tms_fr_version", (W + "sinex_tms.py", "file_reference", 4, [H("version", "s", 60)])),
    ("tms_refcoord", (W + "sinex_tms.py", "timeseries_ref_coordinate", 0, [
        H("station", "s", 9), H("epoch", "s", exact=14), H("x", "f"), H("y", "f"), H("z", "f"), H("frame", "s")])),
    ("tms_desc", (W + "sinex_tms.py", "solution_description", 0, [H("key", "s", 29), H("value", "s")])),
    ("tms_est", (W + "sinex_tms.py", "solution_estimate", 0, [
        H("index", "i"), H("type", "s", 13), H("station", "s", 9), H("soln", "i"), H("from", "s", exact=14), H("to", "s", exact=14),
        H("unit", "s", 5), H("value", "f"), H("sigma", "f")])),
    ("tms_est1", (W + "sinex_tms.py", "solution_estimate", 1, [
        H("index", "i"), H("type", "s", 13), H("station", "s", 9), H("from", "s", exact=14), H("to", "s", exact=14),
        H("unit", "s", 5), H("value", "f"), H("sigma", "f")])),
    ("apr", (W + "gamit_apr_eq.py", "gamit_apr_eq", [2, 3], [
        H("ident", "s", 8), H("x", "f"), H("y", "f"), H("z", "f"), H("vx", "f"), H("vy", "f"), H("vz", "f"), H("epoch", "f"),
        H("x_sig", "f"), H("y_sig", "f"), H("z_sig", "f"), H("vx_sig", "f"), H("vy_sig", "f"), H("vz_sig", "f"), H("comment", "s")])),
    ("eq", (W + "gamit_apr_eq.py", "gamit_apr_eq", 4, [H("station", "s", 4), H("ident", "s", 8), H("start", "s", exact=16),
                                                       H("end", "s", exact=16)])),
    ("gamit_sinfo", (W + "gamit_station_info.py", "gamit_station_info", 0, [
        H("station", "s", exact=4), H("name", "s", 16), H("start", "s"), H("stop", "s"), H("height", "f"), H("height_code", "s", 5),
        H("north", "f"), H("east", "f"), H("r_type", "s", 20), H("r_version", "s", 20), H("r_firmware", "s", 5), H("r_serial", "s", 20),
        H("a_type", "s", 15), H("radome", "s", 5), H("a_serial", "s", 20)])),
    ("gx_id", (W + "gipsyx_site_info.py", "gipsyx_site_info", 0, [H("station", "s", 4), H("domes", "s", 9), H("name", "s"), H("country", "s")])),
    ("gx_ant", (W + "gipsyx_site_info.py", "gipsyx_site_info", 1, [
        H("station", "s", 4), H("date", "s", 19), H("type", "s"), H("radome", "s"), H("east", "f"), H("north", "f"), H("up", "f"), H("serial", "s")])),
    ("gx_ant2", (W + "gipsyx_site_info.py", "gipsyx_site_info", 2, [
        H("station", "s", 4), H("date", "s", 19), H("type", "s"), H("radome", "s"), H("east", "f"), H("north", "f"), H("up", "f"), H("serial", "s")])),
    ("gx_rx", (W + "gipsyx_site_info.py", "gipsyx_site_info", 3, [H("station", "s", 4), H("date", "s", 19), H("type", "s"), H("serial", "s")])),
    ("gx_state", (W + "gipsyx_site_info.py", "gipsyx_site_info", 4, [
        H("station", "s", 4), H("date", "s", 19), H("x", "f"), H("y", "f"), H("z", "f"), H("vx", "f"), H("vy", "f"), H("vz", "f")])),
    ("tms_columns", (W + "sinex_tms.py", "timeseries_columns", 0, [H("idx", "i"), H("name", "s", 20), H("unit", "s", 20),
                                                                  H("description", "s")])),
])

TMS_BLOCK_METHODS = ["file_reference", "solution_description", "solution_estimate", "timeseries_ref_coordinate",
                     "timeseries_columns", "timeseries_data"]


# =============================================================================================== regeneration
class Tables:
    """everything extracted from the current source (also used by the correspondence)"""


def extract():
    t = Tables()
    t.lay = {}
    t.found = {}
    for rid, (rel, fn, k, hints) in ROWS.items():
        tm, consts, dyn = tl.writer_templates(rel, fn)
        t.found[(rel, fn)] = (tm, consts, dyn)
        ks = k if isinstance(k, list) else [k]
        if max(ks) >= len(tm):
            raise TranslateError(f"{rel}:{fn}: row template #{k} not found ({len(tm)} templates)")
        lay = tl.layout_from_items([it for k_ in ks for it in tm[k_]], hints, f"{rel}:{fn}#{k}")
        if lay[-1][0] != "lit" or not lay[-1][1].endswith("\n") or any("\n" in i[1][:-1] for i in lay[:-1] if i[0] == "lit") \
                or "\n" in lay[-1][1][:-1]:
            raise TranslateError(f"{rel}:{fn}#{k}: a row template must be one line ending in a newline")
        lay[-1] = ("lit", lay[-1][1][:-1])
        if lay[-1][1] == "":
            lay.pop()
        t.lay[rid] = lay
    # ---- sinex_tms data types (reflection) and block table (ast)
    import importlib
    wmod = importlib.import_module("midgard.writers.sinex_tms")
    t.tms_types = OrderedDict()
    for name, dt in wmod.DATA_TYPES.items():
        sd = tl.parse_spec(dt.format, f"sinex_tms.DATA_TYPES[{name}]")
        if "strftime" in sd or sd["type"] not in ("s", "d", "f") or sd["width"] == 0 or sd["align"] is not None:
            raise TranslateError(f"sinex_tms.DATA_TYPES[{name}].format = {dt.format!r} not understood")
        kind = {"s": ("s", sd["prec"]), "d": ("d",), "f": ("f", 6 if sd["prec"] is None else sd["prec"])}[sd["type"]]
        t.tms_types[name] = (sd["width"], "L" if sd["type"] == "s" else "R", kind, dt.unit, dt.description)
    t.tms_field_types = OrderedDict(wmod.DATA_FIELD_TYPES)
    fns = tl.functions(tl.module_ast(W + "sinex_tms.py"))
    t.tms_blocks = OrderedDict()
    for m in TMS_BLOCK_METHODS:
        beg = end = ""
        if m in fns:
            c = tl._Collector(m)
            c.visit(fns[m])
            if c.found and c.found[0][0] == "const":
                beg = c.found[0][1]
            last = fns[m].body[-1]
            if (isinstance(last, tl.ast.Expr) and isinstance(last.value, tl.ast.Call) and getattr(last.value.func, "attr", "") == "write"
                    and last.value.args and isinstance(last.value.args[0], tl.ast.Constant)):
                end = str(last.value.args[0].value)
        t.tms_blocks[m] = (beg.rstrip("\n"), end.rstrip("\n"))
    # ---- column rulers the Bernese STA writer itself writes under the section headers
    _, sta_consts, _ = tl.writer_templates(W + "bernese_sta.py", "bernese_sta")
    t.rulers = [c.rstrip("\n") for c in sta_consts if c.startswith("****************      ***  YYYY MM DD HH MM SS")]
    if len(t.rulers) < 3:
        raise TranslateError("bernese_sta: the column rulers of sections 001-003 were not found")
    # ---- the column header lines ("*INDEX TYPE_________ ...") the sinex_tms block methods write above their rows
    t.tms_hdr = {}
    for nm_, m_ in (("est", "solution_estimate"), ("refcoord", "timeseries_ref_coordinate"), ("columns", "timeseries_columns")):
        sq_ = [x_ for x_ in tl.writer_sequence(W + "sinex_tms.py", m_) if x_[0] == "const"]
        if len(sq_) < 3 or not sq_[1][1].startswith("*"):
            raise TranslateError(f"sinex_tms.{m_}: column header line not found")
        t.tms_hdr[nm_] = sq_[1][1].rstrip("\n")
    # ---- csv_: delimiter of the np.savetxt call
    t.csv_delim = None
    for n_ in tl.ast.walk(tl.functions(tl.module_ast(W + "csv_.py")).get("csv_", tl.ast.Module(body=[], type_ignores=[]))):
        if isinstance(n_, tl.ast.Call) and getattr(n_.func, "attr", "") == "savetxt":
            for kw_ in n_.keywords:
                if kw_.arg == "delimiter" and isinstance(kw_.value, tl.ast.Constant):
                    t.csv_delim = kw_.value.value
    if not isinstance(t.csv_delim, str) or len(t.csv_delim) != 1:
        raise TranslateError("csv_: np.savetxt(..., delimiter=<one character literal>) not found")
    # ---- parsers
    t.crd = tl.genfromtxt_params(P + "bernese_crd.py")
    t.clu = tl.genfromtxt_params(P + "bernese_clu.py")
    f52 = tl.chain_fields(P + "bernese_sta_v52.py")
    f54 = tl.chain_fields(P + "bernese_sta.py")
    if len(f52) != 1 or len(f54) != 1:
        raise TranslateError("bernese_sta parsers: expected exactly one fields table each")
    t.sta52, t.sta54 = f52[0], f54[0]
    from midgard.parsers.sinex_tms import SinexTmsParser
    sp = SinexTmsParser(file_path="-")
    t.tms_p = {
        "header": tl.sinex_fields(sp.header_fields),
        "file_reference": tl.sinex_fields(sp.file_reference.fields),
        "refcoord": tl.sinex_fields(sp.timeseries_ref_coordinate.fields),
        "columns": tl.sinex_fields(sp.timeseries_columns.fields),
        "data": tl.sinex_fields(sp.timeseries_data.fields),
    }
    return t


def conv_of_dtype(dt):
    if isinstance(dt, tuple):
        dt, cvt = dt
        if cvt == "yyyydddsssss":
            return "CStr"
        if cvt == "utf8" and isinstance(dt, str) and dt.startswith("U") and dt[1:].isdigit():
            return f"(CU {emit.nat(int(dt[1:]))})"
    if dt == "f8":
        return "CFloat"
    if isinstance(dt, str) and dt.startswith("U") and dt[1:].isdigit():
        return f"(CU {emit.nat(int(dt[1:]))})"
    if dt == "O":
        return "CStr"
    raise TranslateError(f"parser dtype {dt!r} not understood")


def widths_spans(ws):
    out, a = [], 0
    for w in ws:
        out.append((a, a + int(w)))
        a += int(w)
    return out


def gen_text(t):
    o = ["From Coq Require Import Ascii String List ZArith.", "From Verif Require Import Lib.Text Model.C17_Layout.",
         "Import ListNotations.", "Local Open Scope string_scope.", ""]
    for rid, lay in t.lay.items():
        rel, fn, k, _ = ROWS[rid]
        o.append(f"(* {rel} {fn}() row template #{k}; fields: {', '.join(i[5] for i in lay if i[0] == 'fld')} *)")
        o.append(f"Definition L_{rid} : layout :=\n  {tl.coq_layout(lay)}.\n")
    o.append("(* midgard/writers/sinex_tms.py DATA_TYPES: name -> field of a TIMESERIES/DATA row *)")
    rows = []
    for name, (w, al, kind, unit, desc) in t.tms_types.items():
        rows.append(f"({emit.s(name)}, mkfld {emit.nat(w)} {'AL' if al == 'L' else 'AR'} {tl.coq_kind(kind)} {emit.nat(w)})")
    o.append("Definition tms_types : list (string * fld) :=\n  [" + ";\n   ".join(rows) + "].\n")
    o.append("Definition tms_field_order : list string := " + emit.lst(emit.s(n) for n in t.tms_field_types) + ".\n")
    o.append("(* begin / end marker lines written by the block methods of TimeseriesBlocks *)")
    o.append("Definition tms_blocks : list (string * block) :=\n  [" + ";\n   ".join(
        f"({emit.s(m)}, mkblock {emit.s(b)} {emit.s(e)})" for m, (b, e) in t.tms_blocks.items()) + "].\n")
    for i, r in enumerate(t.rulers[:3]):
        o.append(f"Definition ruler_sta{i + 1} : string := {emit.s(r)}.")
    o.append(f"Definition csv_delimiter : string := {emit.s(t.csv_delim)}.")
    for nm_, h_ in t.tms_hdr.items():
        o.append(f"Definition hdr_tms_{nm_} : string := {emit.s(h_)}.")
    o.append("")
    # parsers
    o.append(f"(* {P}bernese_crd.py genfromtxt delimiter {tuple(t.crd['delimiter'])} names {tuple(t.crd['names'])} *)")
    o.append("Definition P_crd : list pspan := " + tl.coq_spans(widths_spans(t.crd["delimiter"])) + ".")
    o.append("Definition Cv_crd : list conv := " + emit.lst(conv_of_dtype(d) for d in t.crd["dtype"]) + ".\n")
    o.append(f"(* {P}bernese_clu.py genfromtxt delimiter {tuple(t.clu['delimiter'])} names {tuple(t.clu['names'])} *)")
    o.append("Definition P_clu : list pspan := " + tl.coq_spans(widths_spans(t.clu["delimiter"])) + ".")
    o.append("Definition Cv_clu : list conv := " + emit.lst(conv_of_dtype(d) for d in t.clu["dtype"]) + ".\n")
    for nm, tab in (("sta52", t.sta52), ("sta54", t.sta54)):
        o.append(f"(* fields table of {'bernese_sta_v52' if nm == 'sta52' else 'bernese_sta'}: {', '.join(tab)} *)")
        o.append(f"Definition P_{nm} : list pspan := " + tl.coq_spans(list(tab.values())) + ".\n")
    for nm, (names, spans, cvs) in t.tms_p.items():
        o.append(f"(* sinex_tms parser {nm}: {', '.join(names)} *)")
        o.append(f"Definition P_tms_{nm} : list pspan := " + tl.coq_spans(spans) + ".")
        o.append(f"Definition Cv_tms_{nm} : list conv := " + emit.lst(conv_of_dtype(c) for c in cvs) + ".\n")
    return "\n".join(o) + "\n"


def regen(ctx):
    t = extract()
    ctx.regen("C17_WriterLayouts", gen_text(t))
    return t


# =============================================================================================== value emission
def v_s(x):
    return f"(VS {emit.s(str(x))})"


def v_i(x):
    return f"(VI {emit.z(int(x))})"


def v_f(x):
    return f"(VF {emit.dy(float(x))})"


def o_s(x):
    return f"(OS {emit.s(str(x))})"


def o_f(x):
    try:
        return f"(OF {emit.dy(float(x))})"
    except (TypeError, ValueError):
        return "ONone"


def is_ascii(sx):
    return all(32 <= ord(c) < 127 for c in sx)


def digest(x):
    """canonical deep digest of writer inputs (dict order is part of the state)"""
    import numpy as np
    if isinstance(x, dict):
        return "{" + ",".join(f"{k!r}:{digest(v)}" for k, v in x.items()) + "}"
    if isinstance(x, (list, tuple)):
        return "[" + ",".join(digest(v) for v in x) + "]"
    if isinstance(x, np.ndarray):
        return f"nd{x.dtype}{x.shape}:" + hashlib.sha1(np.ascontiguousarray(x).tobytes()).hexdigest()
    if isinstance(x, float) and math.isnan(x):
        return "nan"
    return repr(x)


def dset_digest(dset):
    """fields (name, type, raw values), units and meta of a Dataset"""
    import numpy as np
    parts = []
    for f in sorted(dset.fields):
        try:
            val = np.asarray(dset[f])
        except Exception as e:  # collections etc.
            parts.append(f"{f}:<{type(e).__name__}>")
            continue
        if val.dtype.kind in "OUS":
            parts.append(f"{f}:" + hashlib.sha1(repr(val.tolist()).encode()).hexdigest())
        else:
            parts.append(f"{f}:{val.dtype}{val.shape}:" + hashlib.sha1(np.ascontiguousarray(val).tobytes()).hexdigest())
    parts.append("meta:" + hashlib.sha1(digest(dict(dset.meta)).encode()).hexdigest())
    parts.append(f"num_obs:{dset.num_obs}")
    return "|".join(parts)


# =============================================================================================== generators
ALNUM = "abcdefghijklmnopqrstuvwxyz0123456789"
T0 = datetime(2000, 1, 1)


def gen_coord(rng, scale=6.4e6, big=9999999.9999):
    c = rng.random()
    if c < 0.55:
        return round(rng.uniform(-scale, scale), rng.choice([3, 4, 5, 6, 9]))
    if c < 0.65:
        return rng.choice([-1, 1]) * big
    if c < 0.72:
        return rng.choice([0.0, -0.0, 1e-7, -1e-7, 4.9999e-5, -4.9999e-5])
    if c < 0.82:      # exact binary ties of the printed precision: (2j+1)/2^(d+1)
        return rng.choice([-1, 1]) * (rng.randrange(0, 2000) * 2 + 1) / 2 ** rng.choice([5, 6])
    if c < 0.9:
        return rng.choice([-1, 1]) * 10 ** rng.randrange(0, 7) - rng.choice([0, 1e-5, 5e-6, 1e-4, 5e-5])
    return rng.uniform(-1, 1) * 10 ** rng.randrange(-3, 7)


def gen_small(rng, lim=99.9999):
    c = rng.random()
    if c < 0.5:
        return round(rng.uniform(-lim, lim), 4)
    if c < 0.7:
        return rng.choice([0.0, 0.0054, -0.0001, 0.00005, -0.00005, 0.1, lim, -lim])
    if c < 0.85:
        return rng.choice([-1, 1]) * (rng.randrange(0, 500) * 2 + 1) / 32
    return rng.uniform(-1, 1) * 10 ** rng.randrange(-5, 2)


def gen_name(rng, n):
    return "".join(rng.choice(ALNUM) for _ in range(n))


def rnd_text(rng, lo, hi, alphabet="ABCDEFGHIJKLMNOPQRSTUVWXYZ0123456789.-_/"):
    n = rng.randrange(lo, hi + 1)
    sx = "".join(rng.choice(alphabet) for _ in range(n))
    return sx


def gen_site_source(rng, ctx, edge, directed=False):
    """SINEX-like source data for 1..60 stations + the piecewise-constant truth the rows are predicted from"""
    n = rng.choice([1, 1, 2, 3, 5, 8, 13, 25, 40, 60]) if not ctx.quick() else rng.choice([1, 1, 2, 3, 4, 6, 9, 14, 60])
    names = set()
    while len(names) < n:
        nm = gen_name(rng, 4)
        if nm[0].isdigit() and rng.random() < 0.7:
            continue
        names.add(nm)
    names = sorted(names)
    rng.shuffle(names)
    if edge == "station5":
        names[0] = names[0] + "x"
    sd, truth = OrderedDict(), {}
    for st in names:
        has_domes = rng.random() < 0.8
        dom, mark = (f"{rng.randrange(10000, 99999)}", rng.choice(["M001", "S002", "M010"])) if has_domes else ("", "")
        desc = rng.choice(["Adac", "Ny-Alesund", "Zimmerwald", "Tromsoe Ramfjordmoen X", "A", rnd_text(rng, 1, 14, "abcdefgh ")]).strip() or "A"
        country = rng.choice(["Norway", "CH", "", "Faroe Islands"])
        description = f"{desc}, {country}" if country else desc
        start = T0 + timedelta(days=rng.randrange(0, 5000), seconds=rng.choice([0, 0, 3600, 45296]))

        def history(k):
            ts = [start]
            for _ in range(k - 1):
                ts.append(ts[-1] + timedelta(days=rng.randrange(1, 900), seconds=rng.choice([0, 0, 7200])))
            out_ = []
            for i in range(k):
                end_ = ts[i + 1] if i + 1 < k else None
                if end_ is not None and rng.random() < 0.4:
                    # the equipment is removed before the next one is installed: a gap in this history; period starts of the
                    # other histories may fall into it (nothing is installed then: half-open lookup finds nothing)
                    span_ = (end_ - ts[i]).total_seconds()
                    end_ = ts[i] + timedelta(seconds=max(1, int(span_ * rng.choice([0.1, 0.5, 0.9]))))
                    ctx.count("site:history_gap")
                out_.append((ts[i], end_))
            return out_

        serial_hi = 22 if edge == "serial22" else 20
        ants = []
        for a, b in history(rng.choice([1, 1, 2, 3])):
            ants.append(dict(start_time=a, end_time=b, antenna_type=rnd_text(rng, 1, 15), radome_type=rng.choice(["NONE", "LEIS", "TZGD", "SCIS"]),
                             serial_number=rnd_text(rng, 0 if rng.random() < 0.1 else 1, serial_hi, "0123456789ABCR")))
        rcvs = []
        forced = directed and st == names[0]    # directed corpus: same model replaced (new serial), then firmware only, then new model
        for j_, (a, b) in enumerate(history(4 if forced else rng.choice([1, 2, 2, 3, 4]))):
            c_ = [9, 0.3, 0.1, 9][j_] if forced else rng.random()
            if rcvs and c_ < 0.25:      # firmware-only change
                r = dict(rcvs[-1], start_time=a, end_time=b, firmware=rnd_text(rng, 1, 11, "0123456789."))
            elif rcvs and c_ < 0.45:    # the receiver is replaced by one of the same model: another serial number
                r = dict(rcvs[-1], start_time=a, end_time=b, firmware=rnd_text(rng, 1, 11, "0123456789."),
                         serial_number=rcvs[-1]["serial_number"][:15] + rng.choice("XYZ") + str(j_))
                ctx.count("site:receiver_same_model_new_serial")
            else:
                r = dict(start_time=a, end_time=b, receiver_type=rnd_text(rng, 1, 20, "ABCDEFGHIJ 0123456789"). strip() or "R",
                         firmware=rnd_text(rng, 1, 11, "0123456789."), serial_number=rnd_text(rng, 1, serial_hi, "0123456789ABCR"))
            rcvs.append(r)
        for r in rcvs[:-1]:
            pass
        eccs = []
        for a, b in history(rng.choice([1, 1, 2])):
            up = gen_small(rng)
            if edge == "ecc_big" and not eccs:
                up = rng.choice([-123.4567, 1234.5678, -1000.0])
            eccs.append(dict(start_time=a, end_time=b, vector_type="UNE", vector_1=up, vector_2=gen_small(rng), vector_3=gen_small(rng)))
        # 1..4 coordinate solutions with consecutive validity periods, LISTED IN SHUFFLED ORDER in the source: the writers
        # have to take the chronologically latest one (site_coord.get("last") = greatest (start, end) key, cf. C18)
        n_sol = rng.choice([1, 1, 2, 3, 4])
        sol_starts = [start]
        for _ in range(n_sol - 1):
            sol_starts.append(sol_starts[-1] + timedelta(days=rng.randrange(30, 1500)))
        sols = []
        for j_ in range(n_sol):
            xyz_j = [gen_coord(rng) for _ in range(3)]
            vel_j = [gen_small(rng, 0.09999) for _ in range(3)]
            if j_ and rng.random() < 0.6:          # realistic: a few cm away from the previous solution
                xyz_j = [round(a_ + d_ if abs(a_ + d_) <= 9999999.9999 else a_ - d_, 5)
                         for a_, d_ in ((a_, rng.uniform(-0.05, 0.05)) for a_ in sols[-1][3])]
            sols.append((str(j_ + 1), sol_starts[j_], sol_starts[j_ + 1] if j_ + 1 < n_sol else None, xyz_j, vel_j))
        xyz, vel = sols[-1][3], sols[-1][4]
        if rng.random() < 0.12:
            xyz[0] = float("nan")
        if edge == "coord_big" and st == names[0]:
            xyz[1] = rng.choice([-123456789.12345, 99999999.99999])
        if rng.random() < 0.1:
            vel[0] = float("nan")
        listed = list(sols)
        rng.shuffle(listed)
        ctx.count(f"site:solutions:{n_sol}:{'chronological' if listed == sols else 'shuffled'}")
        est, sol_epochs = [], []
        for soln, a_, b_, xyz_j, vel_j in listed:
            sol_epochs.append(dict(soln=soln, start_epoch=a_, end_epoch=b_, mean_epoch=None))
            for pn, v in zip(("STAX", "STAY", "STAZ", "VELX", "VELY", "VELZ"), xyz_j + vel_j):
                est.append(dict(soln=soln, param_name=pn, estimate=v, estimate_std=0.001, ref_epoch=datetime(2010, 1, 1), unit="m"))
        sd[st] = {
            "site_id": dict(site_code=st, point_code="A", domes=dom, marker=mark, obs_code="P", description=description,
                            approx_lon=0.0, approx_lat=0.0, approx_height=0.0),
            "site_antenna": ants, "site_receiver": rcvs, "site_eccentricity": eccs,
            "solution_epochs": sol_epochs,
            "solution_estimate": est,
        }
        truth[st] = dict(domes=dom + mark, name=desc, ants=ants, rcvs=rcvs, eccs=eccs, xyz=xyz, vel=vel, start=start,
                         description=desc, remark1=None, plate="", ident=None)
        if rng.random() < 0.35:      # identifier as delivered by a site-log source (M3G / seStation): long names, country code, plate
            nm = rng.choice(["Ny-Alesund Geodetic Observatory", "Tromsoe", "Zimmerwald Observatory L+T 88", "Hoenefoss Kartverket Hovedkontor"])
            cc = rng.choice(["NO", "CHE", ""])
            plate = rng.choice([None, "Eurasian", "north american", "Pacific"])
            ident = dict(source=rng.choice(["m3g", "sestation"]), domes=(dom + mark) or None, name=nm, country="Norway", country_code=cc or None,
                         tectonic_plate=plate)
            truth[st].update(ident=ident, description=(f"{nm}, {cc}" if cc else nm), domes=dom + mark,
                             remark1="From gnss-metadata.eu M3G API" if ident["source"] == "m3g" else "From NMA seStation API",
                             plate={None: "", "Eurasian": "EURA", "north american": "NOAM", "Pacific": "PCFC"}[plate])
    return names, sd, truth


def build_site_info(sd, names, source_path, truth=None):
    from types import SimpleNamespace
    from midgard.site_info.site_info import SiteInfo
    from midgard.site_info.identifier import Identifier
    si = SiteInfo.get_history("snx", sd, list(names), source_path=source_path)
    idn = Identifier.get("snx", sd, list(names), source_path=source_path)
    for st in names:
        si[st]["identifier"] = idn[st]
        if truth is not None and truth[st].get("ident"):
            si[st]["identifier"] = SimpleNamespace(**truth[st]["ident"])
    return si


def defaults_digest(wname):
    """default values of the writer's parameters (a mutable default is shared by all calls of the process)"""
    import importlib
    import inspect
    fn = getattr(importlib.import_module(f"midgard.writers.{wname}"), wname)
    return digest({n_: (p_.default if p_.default is not inspect.Parameter.empty else "<required>")
                   for n_, p_ in inspect.signature(fn).parameters.items()})


def ident_digest(si):
    return digest({st: (vars(v["identifier"]) if hasattr(v["identifier"], "__dict__") and not hasattr(v["identifier"], "_info") else None)
                   for st, v in si.items()})


def at(hist, date):
    for h in hist:
        if h["start_time"] <= date and (h["end_time"] is None or date < h["end_time"]):
            return h
    return None


def at_or_next(hist, date):
    """gipsyx_site_info._get_antenna / _get_eccentricity: the period containing the date, or the next one when the date lies
    before a period (in a gap or before the first installation)"""
    for h in sorted(hist, key=lambda h_: h_["start_time"]):
        if date < h["start_time"]:
            return h
        if h["end_time"] is None or date < h["end_time"]:
            return h
    return None


DMAX = datetime.max


def fmt_dt(d):
    return d.strftime("%Y %m %d %H %M %S")


# =============================================================================================== expected rows
def rows_crd(names, truth, write_nan):
    out = []
    for counter, st in enumerate(sorted(names)):
        t = truth[st]
        if not write_nan and math.isnan(t["xyz"][0]):
            continue
        out.append(("crd", [v_i(counter + 1), v_s(st.upper()), v_s(t["domes"]), v_f(t["xyz"][0]), v_f(t["xyz"][1]), v_f(t["xyz"][2])],
                    dict(station=st, xyz=t["xyz"], domes=t["domes"])))
    return out


def rows_vel(names, truth, write_nan):
    out = []
    for counter, st in enumerate(sorted(names)):
        t = truth[st]
        if not write_nan and math.isnan(t["vel"][0]):
            continue
        out.append(("vel", [v_i(counter + 1), v_s(st.upper()), v_s(t["domes"]), v_f(t["vel"][0]), v_f(t["vel"][1]), v_f(t["vel"][2]), v_s(t["plate"])],
                    dict(station=st, vel=t["vel"])))
    return out


def digits6(sx):
    import re
    return re.sub("[^0-9]", "", sx)[-6:]


def sta_events(t, skip_firmware):
    dates = []
    former = (None, None)
    for prop, hist in (("receiver", t["rcvs"]), ("antenna", t["ants"]), ("eccentricity", t["eccs"])):
        for h in hist:
            if skip_firmware and prop == "receiver":
                key = (h["receiver_type"], h["serial_number"])
                if key == former:
                    continue
                former = key
            if h["start_time"] not in dates:
                dates.append(h["start_time"])
        last = hist[-1]["end_time"] or DMAX
    if last not in dates:
        dates.append(last)
    return sorted(dates)


def rows_sta(names, truth, source_name, actual_tail, rename=None, skip_firmware=False):
    """rows of the three sections; `actual_tail(kind, i)` supplies free-text remarks of section 003 (not modelled)"""
    s1, s2, s3 = [], [], []
    for st in sorted(names):
        t = truth[st]
        dfrom = t["ants"][0]["start_time"]
        dto = t["ants"][-1]["end_time"] or DMAX
        s1.append(("sta1", [v_s(st.upper()), v_s(t["domes"]), v_s(fmt_dt(dfrom)), v_s(fmt_dt(dto)),
                            v_s((rename[st] if rename and st in rename else st).upper()),
                            v_s(t["remark1"] or f"From {source_name} file")], dict(station=st)))
    for st in sorted(names):
        t = truth[st]
        ev = sta_events(t, skip_firmware)
        for a, b in zip(ev, ev[1:]):
            r, an, ec = at(t["rcvs"], a), at(t["ants"], a), at(t["eccs"], a)
            if not (r and an and ec):
                continue
            s2.append(("sta2", [
                v_s(st.upper()), v_s(t["domes"]), v_s(fmt_dt(a)), v_s(fmt_dt(b)), v_s(r["receiver_type"]), v_s(r["serial_number"]),
                v_s(digits6(r["serial_number"])), v_s(an["antenna_type"]), v_s(an["radome_type"] or "NONE"), v_s(an["serial_number"]),
                v_s("999999"), v_f(ec["vector_2"]), v_f(ec["vector_3"]), v_f(ec["vector_1"]), v_s(t["description"]), v_s(r["firmware"])],
                dict(station=st, date_from=a, date_to=b, rcv=r, ant=an, ecc=ec, description=t["description"], domes=t["domes"])))
    for st in sorted(names):
        t = truth[st]
        ev = sta_events(t, True)[1:-1]
        for d in ev:
            s3.append(("sta3", [v_s(st.upper()), v_s(t["domes"]), v_s(fmt_dt(d)), v_s(d.strftime("%Y %m %d 23 59 59")), None],
                       dict(station=st, date=d)))
    return s1, s2, s3


# =============================================================================================== running the writers
class Acc:
    """collects the Coq cases of one run"""

    def __init__(self):
        self.cases = {"check_row_t": [], "check_line_t": [], "check_token_row_t": [], "check_token_line_t": [], "check_balanced": [],
                      "check_list_row_t": []}
        self.meta = {k: [] for k in self.cases}
        self.files = []        # per written file: dict(kind, rep, parser_error, row_refs=[(fn, idx)])
        self.direct = []       # (what, replay) violations decided without Coq (structure, purity)
        self.known = []        # (finding id, what, replay) classes decided without Coq
        self.ruled = []        # (ruler line, data line, replay): Bernese rows with the column ruler written above them

    def add(self, fn, term, rep, frec=None):
        self.cases[fn].append(term)
        self.meta[fn].append(rep)
        if frec is not None:
            frec["row_refs"].append((fn, len(self.cases[fn]) - 1))


def read_lines(path):
    with open(path, encoding="utf8", newline="") as f:
        txt = f.read()
    lines = txt.split("\n")
    if lines and lines[-1] == "":
        lines.pop()
    return lines


def run_site_writers(ctx, t, acc, n_sets):
    """bernese_crd / vel / clu / abb / sta on random site-information dictionaries"""
    from midgard import writers, parsers
    rng = ctx.rng
    for k in range(n_sets):
        edge = rng.choice([None] * 14 + ["station5", "serial22", "ecc_big", "coord_big"])
        directed = k == 0           # directed corpus first: independent of the seed's luck
        if directed:
            edge = None
        names, sd, truth = gen_site_source(rng, ctx, edge, directed)
        src_path = Path(f"/data/site_info/igs_{k}.snx")
        ctx.count(f"site:stations:{len(names)}")
        ctx.count(f"site:edge:{edge}")
        opts = dict(datum=rng.choice(["IGb14", "IGS20", "ETRF2014", "X"]), agency=rng.choice(["NMA", "igs", "UNKNOWN"]),
                    epoch=rng.choice([None, datetime(2010, 1, 1), datetime(2015, 6, 30, 12, 0, 1)]), write_nan=rng.random() < 0.5)
        for wname in ("bernese_crd", "bernese_vel", "bernese_clu", "bernese_abb", "bernese_sta"):
            sdc = copy.deepcopy(sd)
            si = build_site_info(sdc, names, src_path, truth)
            before = digest(sdc) + ident_digest(si)
            out = Path(ctx.work) / f"site_{k}_{wname}"
            rep0 = dict(writer=wname, stations=len(names), edge=edge, options={a: str(b) for a, b in opts.items()},
                        how=f"midgard.writers.write({wname!r}, file_path=..., site_info=SiteInfo.get_history('snx', <source>, stations) + identifier, ...)")
            kw = dict(file_path=out, site_info=si)
            skip_fw = False
            rename = None
            if wname == "bernese_sta":
                skip_fw = rng.random() < 0.4 or directed
                if rng.random() < 0.6:       # alternative names for SOME stations only (the usual case)
                    rename = {st_: gen_name(rng, 4) for st_ in names if rng.random() < 0.4}
                    if len(rename) == len(names):
                        rename.pop(sorted(rename)[0])
                    kw.update(rename_station=rename)
                if skip_fw or rng.random() < 0.3:
                    kw.update(skip_firmware=skip_fw)
                opts = dict(opts, skip_firmware=skip_fw, rename_station=rename)
                rep0["options"] = {a: str(b) for a, b in opts.items()}
            if wname == "bernese_crd":
                kw.update(datum=opts["datum"], epoch=opts["epoch"], agency=opts["agency"], write_nan_site_coord=opts["write_nan"])
            elif wname == "bernese_vel":
                kw.update(datum=opts["datum"], agency=opts["agency"], write_nan_site_vel=opts["write_nan"])
            else:
                kw.update(agency=opts["agency"])
            args_before = digest({a: b for a, b in kw.items() if a not in ("site_info", "file_path")})
            defaults_before = defaults_digest(wname)
            try:
                writers.write(wname, **kw)
            except Exception as e:
                acc.direct.append((f"writer {wname} raised {type(e).__name__}: {e}", dict(rep0, source=_src_repr(sd))))
                continue
            if digest(sdc) + ident_digest(si) != before:
                acc.direct.append((f"writer {wname} changed the site-information source data", dict(rep0, source=_src_repr(sd))))
            args_after = digest({a: b for a, b in kw.items() if a not in ("site_info", "file_path")})
            if args_after != args_before:
                acc.direct.append((f"writer {wname} changed an option it was given: {args_before} -> {args_after}", dict(rep0, source=_src_repr(sd))))
            if defaults_digest(wname) != defaults_before:
                acc.direct.append((f"writer {wname} changed the default value of one of its parameters (shared between calls): "
                                   f"{defaults_before} -> {defaults_digest(wname)}", dict(rep0, source=_src_repr(sd))))
            lines = read_lines(out)
            # the same call once more (fresh, equal inputs): the output may differ in the time stamp line only
            try:
                sdc2 = copy.deepcopy(sd)
                kw2 = dict(kw, file_path=Path(str(out) + "_again"), site_info=build_site_info(sdc2, names, src_path, truth))
                if rename is not None:
                    kw2["rename_station"] = dict(rename)
                writers.write(wname, **kw2)
                again = read_lines(kw2["file_path"])
                if again[1:] != lines[1:]:
                    bad = next((i_ for i_, (x_, y_) in enumerate(zip(lines, again)) if i_ and x_ != y_), min(len(lines), len(again)))
                    acc.direct.append((f"writer {wname}: a second call with equal inputs writes a different file (line {bad + 1})",
                                       dict(rep0, first=lines[bad:bad + 2], second=again[bad:bad + 2], source=_src_repr(sd))))
            except Exception as e:
                acc.direct.append((f"writer {wname} raised {type(e).__name__} on a second call with equal inputs: {e}", dict(rep0, source=_src_repr(sd))))
            frec = dict(kind=wname, rep=rep0, parser_error=None, row_refs=[], source=sd)
            acc.files.append(frec)
            getattr(_SiteFiles, wname)(ctx, t, acc, frec, lines, names, truth, opts, out, src_path)
        if edge is None or edge == "coord_big":
            sub = names[:8] if ctx.quick() else names[:25]
            run_gamit_gipsyx(ctx, t, acc, k, sub, OrderedDict((st_, sd[st_]) for st_ in sub), truth, src_path, edge)


def _src_repr(sd):
    return json.loads(json.dumps(sd, default=str))


def _structure(acc, frec, lines, nhead, rows, what):
    """the file must consist of nhead header lines followed by exactly the predicted rows"""
    if len(lines) != nhead + len(rows):
        acc.direct.append((f"{what}: {len(lines) - nhead} data lines written, {len(rows)} predicted",
                           dict(frec["rep"], lines=lines[:nhead + 3], source=_src_repr(frec["source"]))))
        return False
    return True


def _row_rep(frec, rid, info, line, extra=None):
    r = dict(frec["rep"], row_type=rid, written_line=line, input={k: (str(v) if not isinstance(v, (int, float, list, str)) else v)
                                                              for k, v in info.items() if k not in ("rcv", "ant", "ecc")})
    for k in ("rcv", "ant", "ecc"):
        if k in info:
            r["input"][k] = {a: str(b) for a, b in info[k].items()}
    if extra:
        r.update(extra)
    return r


class _SiteFiles:
    @staticmethod
    def bernese_crd(ctx, t, acc, frec, lines, names, truth, opts, out, src_path):
        from midgard import parsers
        rows = rows_crd(names, truth, opts["write_nan"])
        if not _structure(acc, frec, lines, 6, rows, "bernese_crd"):
            return
        obs = None
        try:
            with warnings.catch_warnings():
                warnings.simplefilter("ignore")
                p = parsers.parse_file("bernese_crd", out)
            d = p.data
            n = len(d["station"]) if "station" in d else 0
            if rows and n == len(rows):
                obs = [[o_f(d["num"][i]), o_s(d["station"][i]), o_s(d["domes"][i]), o_f(d["pos_x"][i]), o_f(d["pos_y"][i]),
                        o_f(d["pos_z"][i]), o_s(d["flag"][i])] for i in range(n)]
                if opts["epoch"] is not None and is_ascii(opts["datum"]):
                    if p.meta.get("ref_frame") != opts["datum"] or p.meta.get("ref_epoch") != opts["epoch"].strftime("%Y-%m-%dT%H:%M:%S"):
                        acc.direct.append(("bernese_crd header: datum / epoch not read back",
                                           dict(frec["rep"], header=lines[:4], meta={a: str(b) for a, b in p.meta.items()})))
            elif rows:
                frec["parser_error"] = f"parser returned {n} rows for {len(rows)} written rows"
        except Exception as e:
            if opts["epoch"] is None and isinstance(e, IndexError):
                acc.known.append(("c17_crd_unknown_epoch", "bernese_crd writer with its default epoch=None writes 'EPOCH: UNKNOWN'; the bernese_crd parser "
                                  "raises IndexError on that header line", dict(frec["rep"], header=lines[:4], error=str(e))))
                frec["parser_error"] = None
            else:
                frec["parser_error"] = f"{type(e).__name__}: {e}"
        for i, (rid, vals, info) in enumerate(rows):
            line = lines[6 + i]
            rep = _row_rep(frec, rid, info, line)
            if obs is not None:
                rep["parsed"] = obs[i]
                acc.add("check_row_t", emit.pair("L_crd", "P_crd", "Cv_crd", emit.lst(vals), emit.s(line), emit.lst(obs[i])), rep, frec)
            else:
                acc.add("check_line_t", emit.pair("L_crd", emit.lst(vals), emit.s(line)), rep, frec)
            ctx.case(("crd", tuple(info["xyz"]), info["station"], info["domes"]), nontrivial=True, sample=rep if i == 0 else None)

    @staticmethod
    def bernese_vel(ctx, t, acc, frec, lines, names, truth, opts, out, src_path):
        rows = rows_vel(names, truth, opts["write_nan"])
        if not _structure(acc, frec, lines, 6, rows, "bernese_vel"):
            return
        for i, (rid, vals, info) in enumerate(rows):
            rep = _row_rep(frec, rid, info, lines[6 + i])
            acc.add("check_line_t", emit.pair("L_vel", emit.lst(vals), emit.s(lines[6 + i])), rep, frec)
            ctx.case(("vel", tuple(info["vel"]), info["station"]), nontrivial=True)

    @staticmethod
    def bernese_clu(ctx, t, acc, frec, lines, names, truth, opts, out, src_path):
        from midgard import parsers
        rows = [("clu", [v_s(st.upper())], dict(station=st)) for st in sorted(names)]
        if not _structure(acc, frec, lines, 5, rows, "bernese_clu"):
            return
        obs = None
        try:
            with warnings.catch_warnings():
                warnings.simplefilter("ignore")
                p = parsers.parse_file("bernese_clu", out)
            d = p.data
            import numpy as np
            st_arr = np.atleast_1d(d["station"])
            if len(st_arr) == len(rows):
                obs = [[o_s(st_arr[i]), o_s(np.atleast_1d(d["domes"])[i]), o_f(np.atleast_1d(d["cluster"])[i])] for i in range(len(rows))]
            else:
                frec["parser_error"] = f"parser returned {len(st_arr)} rows for {len(rows)} written rows"
        except Exception as e:
            frec["parser_error"] = f"{type(e).__name__}: {e}"
        for i, (rid, vals, info) in enumerate(rows):
            rep = _row_rep(frec, rid, info, lines[5 + i])
            if obs is not None:
                rep["parsed"] = obs[i]
                acc.add("check_row_t", emit.pair("L_clu", "P_clu", "Cv_clu", emit.lst(vals), emit.s(lines[5 + i]), emit.lst(obs[i])), rep, frec)
            else:
                acc.add("check_line_t", emit.pair("L_clu", emit.lst(vals), emit.s(lines[5 + i])), rep, frec)
            ctx.case(("clu", info["station"]), nontrivial=False)

    @staticmethod
    def bernese_abb(ctx, t, acc, frec, lines, names, truth, opts, out, src_path):
        from midgard.writers import bernese_abb as wabb
        ids = wabb._get_2digit_station_list({n: None for n in names})
        rows = [("abb", [v_s(st.upper()), v_s(st.upper()), v_s(ids[st]), v_s(f"Added by {opts['agency'].upper()}")], dict(station=st, id2=ids[st]))
                for st in sorted(names)]
        if lines and lines[-1] == "":
            lines = lines[:-1]
        if not _structure(acc, frec, lines, 5, rows, "bernese_abb"):
            return
        for i, (rid, vals, info) in enumerate(rows):
            rep = _row_rep(frec, rid, info, lines[5 + i])
            acc.add("check_line_t", emit.pair("L_abb", emit.lst(vals), emit.s(lines[5 + i])), rep, frec)
            ctx.case(("abb", info["station"], info["id2"]), nontrivial=False)

    @staticmethod
    def bernese_sta(ctx, t, acc, frec, lines, names, truth, opts, out, src_path):
        from midgard import parsers
        s1, s2, s3 = rows_sta(names, truth, src_path.name, None, opts.get("rename_station"), opts.get("skip_firmware", False))

        def section(title):
            try:
                i = lines.index(title)
            except ValueError:
                return None
            j = i + 5        # title, dashes, blank, column names, ruler
            if j < len(lines) and lines[j] != "":
                acc.ruled.append((lines[j - 1], lines[j], dict(frec["rep"], section=title, ruler=lines[j - 1], written_line=lines[j])))
            rows = []
            while j < len(lines) and lines[j] != "":
                rows.append(lines[j])
                j += 1
            return rows
        got = [section("TYPE 001: RENAMING OF STATIONS"), section("TYPE 002: STATION INFORMATION"),
               section("TYPE 003: HANDLING OF STATION PROBLEMS")]
        for sec, exp, nm in zip(got, (s1, s2, s3), ("001", "002", "003")):
            if sec is None or len(sec) != len(exp):
                acc.direct.append((f"bernese_sta TYPE {nm}: {None if sec is None else len(sec)} rows written, {len(exp)} predicted",
                                   dict(frec["rep"], rows=(sec or [])[:4], source=_src_repr(frec["source"]))))
                return
        obs2 = None
        try:
            with warnings.catch_warnings():
                warnings.simplefilter("ignore")
                p = parsers.parse_file("bernese_sta_v52", out)
            flat = []
            for st in sorted(names):
                flat.extend((st, e) for e in p.data.get(st, []))
            if len(flat) == len(s2):
                obs2 = []
                for st, e in flat:
                    obs2.append([o_s(st.upper()), o_s(e["domes"]), o_s(e["flag"]), o_s(fmt_dt(e["date_from"])), o_s(fmt_dt(e["date_to"])),
                                 o_s(e["receiver_type"]), o_s(e["receiver_serial_number"]), o_s(e["receiver_serial_number_short"]),
                                 o_s(e["antenna_type"]), o_s(e["radome_type"]), o_s(e["antenna_serial_number"]),
                                 o_s(e["antenna_serial_number_short"]), o_f(e["eccentricity_north"]), o_f(e["eccentricity_east"]),
                                 o_f(e["eccentricity_up"]), o_s(e["description"]), o_s(e["remark"])])
            else:
                frec["parser_error"] = f"parser returned {len(flat)} station-information rows for {len(s2)} written rows"
        except Exception as e:
            frec["parser_error"] = f"{type(e).__name__}: {e}"
        cv = "[CStr; CStr; CStr; CStr; CStr; CStr; CStr; CStr; CStr; CStr; CStr; CStr; CFloat; CFloat; CFloat; CStr; CStr]"
        for i, (rid, vals, info) in enumerate(s1):
            acc.add("check_line_t", emit.pair("L_sta1", emit.lst(vals), emit.s(got[0][i])), _row_rep(frec, rid, info, got[0][i]), frec)
            ctx.case(("sta1", info["station"]), nontrivial=False)
        for i, (rid, vals, info) in enumerate(s2):
            rep = _row_rep(frec, rid, info, got[1][i])
            if obs2 is not None:
                rep["parsed"] = obs2[i]
                acc.add("check_row_t", emit.pair("L_sta2", "P_sta52", cv, emit.lst(vals), emit.s(got[1][i]), emit.lst(obs2[i])), rep, frec)
            else:
                acc.add("check_line_t", emit.pair("L_sta2", emit.lst(vals), emit.s(got[1][i])), rep, frec)
            ctx.case(("sta2", got[1][i]), nontrivial=True, sample=rep if i == 0 else None)
        tail_at = sum((it[1] if it[0] == "fld" else len(it[1])) for it in t.lay["sta3"])
        for i, (rid, vals, info) in enumerate(s3):
            line = got[2][i]
            shift = max(0, len(info["station"]) - 4)
            vals = vals[:-1] + [v_s(line[tail_at + shift:])]       # the free-text remark is taken from the file (not modelled)
            acc.add("check_line_t", emit.pair("L_sta3", emit.lst(vals), emit.s(line)), _row_rep(frec, rid, info, line), frec)
            ctx.case(("sta3", line), nontrivial=False)


# =============================================================================================== gamit / gipsyx
def _or_nan(x):
    return x if x else float("nan")        # the writer's `value or np.nan` (None, and also an exact 0.0, become nan)


def run_gamit_gipsyx(ctx, t, acc, k, names, sd, truth, src_path, edge):
    """gamit_apr_eq, gipsyx_site_info (real site information objects) and gamit_station_info (duck-typed objects with an antenna
    reference point, which SINEX sources do not have).  No parser of the library reads these files: every written line is
    compared with the model (fields inside their columns) and the inputs are digested."""
    import re
    from types import SimpleNamespace
    from midgard import writers
    rng = ctx.rng

    def call(wname, rep0, sdc, si, **kw):
        before = digest(sdc) + ident_digest(si) if sdc is not None else None
        dbefore = defaults_digest(wname)
        try:
            with warnings.catch_warnings():
                warnings.simplefilter("ignore")
                writers.write(wname, **kw)
        except Exception as e:
            acc.direct.append((f"writer {wname} raised {type(e).__name__}: {e}", dict(rep0, source=_src_repr(sd))))
            return False
        if sdc is not None and digest(sdc) + ident_digest(si) != before:
            acc.direct.append((f"writer {wname} changed the site-information source data", dict(rep0, source=_src_repr(sd))))
        if defaults_digest(wname) != dbefore:
            acc.direct.append((f"writer {wname} changed the default value of one of its parameters", rep0))
        return True

    def lines_vs(rid_of, rows, lines, frec, what):
        if len(lines) != len(rows):
            acc.direct.append((f"{what}: {len(lines)} lines written, {len(rows)} predicted", dict(frec["rep"], lines=lines[:5], source=_src_repr(sd))))
            return
        for (rid, vals, info), ln in zip(rows, lines):
            rep = dict(frec["rep"], row_type=rid, written_line=ln, input=info)
            acc.add("check_line_t", emit.pair(f"L_{rid}", emit.lst(vals), emit.s(ln)), rep, frec)
            ctx.case((rid, ln), nontrivial=rid in ("apr", "gx_state", "gx_ant", "gamit_sinfo"))

    # ------------------------------------------------------------------ gamit_apr_eq
    sdc = copy.deepcopy(sd)
    si = build_site_info(sdc, names, src_path, truth)
    apr, eq = Path(ctx.work) / f"site_{k}.apr", Path(ctx.work) / f"site_{k}.eq"
    frame = rng.choice(["IGb14", "IGS20"])
    rep0 = dict(writer="gamit_apr_eq", stations=len(names), edge=edge, options=dict(ref_frame=frame),
                how="midgard.writers.write('gamit_apr_eq', apr_path=..., eq_path=..., site_info=<history objects>, ref_frame=...)")
    if call("gamit_apr_eq", rep0, sdc, si, apr_path=apr, eq_path=eq, site_info=si, ref_frame=frame):
        rows_a, rows_e = [], []
        with warnings.catch_warnings():
            warnings.simplefilter("ignore")
            for st, values in si.items():
                for num, sc in enumerate(values["site_coord"], start=1):
                    point = "GPS" if num == 1 else f"{num}PS" if num < 10 else f"{num}S" if num < 100 else f"{num}"
                    ident = f"{sc.station.upper()}_{point}"
                    nums = [_or_nan(sc.pos[i]) for i in range(3)] + [_or_nan(sc.vel[i]) for i in range(3)]
                    epoch = sc.ref_epoch.decimalyear if sc.ref_epoch else 0
                    sig = [_or_nan(sc.pos_sigma[i]) for i in range(3)] + [_or_nan(sc.vel_sigma[i]) for i in range(3)]
                    comment = f"{sc.system} from {sc.source} ({Path(values['site_coord'].source_path).stem})"
                    rows_a.append(("apr", [v_s(ident)] + [v_f(x) for x in nums] + [v_f(epoch)] + [v_f(x) for x in sig] + [v_s(comment)],
                                   dict(station=st, ident=ident, pos_vel=[float(x) for x in nums])))
                    rows_e.append(("eq", [v_s(st.upper()), v_s(ident), v_s(sc.date_from.strftime("%Y %m %d %H %M")),
                                          v_s(sc.date_to.strftime("%Y %m %d %H %M"))], dict(station=st, ident=ident)))
        frec = dict(kind="gamit_apr_eq", rep=rep0, parser_error=None, row_refs=[], source=sd)
        acc.files.append(frec)
        la = read_lines(apr)
        if len(la) < 3 or la[0] != "# Combined Site coordinate and velocity information" or la[2] != f"+REFERENCE_FRAME {frame}":
            acc.direct.append(("gamit_apr_eq: header lines of the apr file differ from the writer's constants", dict(rep0, lines=la[:3])))
        else:
            lines_vs(None, rows_a, la[3:], frec, "gamit_apr_eq apr file")
        lines_vs(None, rows_e, read_lines(eq), frec, "gamit_apr_eq eq file")

    # ------------------------------------------------------------------ gipsyx_site_info
    sdc = copy.deepcopy(sd)
    si = build_site_info(sdc, names, src_path, truth)
    out = Path(ctx.work) / f"site_{k}.gipsyx"
    rep0 = dict(writer="gipsyx_site_info", stations=len(names), edge=edge, options={},
                how="midgard.writers.write('gipsyx_site_info', file_path=..., site_info=<history objects + identifier>)")
    if call("gipsyx_site_info", rep0, sdc, si, file_path=out, site_info=si):
        rows = []
        with warnings.catch_warnings():
            warnings.simplefilter("ignore")
            for st in sorted(names):
                tr = truth[st]
                if tr["ident"]:
                    dom, name, country = tr["ident"]["domes"], tr["ident"]["name"], tr["ident"]["country"]
                else:
                    desc = sd[st]["site_id"]["description"].split(",")
                    dom, name = tr["domes"], desc[0].strip()
                    country = desc[1].strip().capitalize() if len(desc) > 1 else None
                rows.append(("gx_id", [v_s(st.upper()), v_s(dom if dom else "UNKNOWN"), v_s(name or ""), v_s(country or "")], dict(station=st)))
                dates = sorted({h["start_time"] for h in tr["ants"]} | {h["start_time"] for h in tr["eccs"]})
                for d in dates:
                    an, ec = at_or_next(tr["ants"], d), at_or_next(tr["eccs"], d)
                    rows.append(("gx_ant", [v_s(st.upper()), v_s(d.strftime("%Y-%m-%d %H:%M:%S")), v_s(an["antenna_type"]),
                                            v_s(an["radome_type"] or "NONE"), v_f(ec["vector_3"]), v_f(ec["vector_2"]), v_f(ec["vector_1"]),
                                            v_s(f"  # {an['serial_number']}")],
                                 dict(station=st, date=str(d), ecc=[ec["vector_3"], ec["vector_2"], ec["vector_1"]])))
                for h in tr["rcvs"]:
                    rows.append(("gx_rx", [v_s(st.upper()), v_s(h["start_time"].strftime("%Y-%m-%d %H:%M:%S")), v_s(h["receiver_type"]),
                                           v_s(f" # {h['serial_number']} {h['firmware']}")], dict(station=st)))
                for date, crd in si[st]["site_coord"].history.items():
                    nums = [float(crd.pos.trs.x), float(crd.pos.trs.y), float(crd.pos.trs.z), float(crd.vel[0]), float(crd.vel[1]), float(crd.vel[2])]
                    rows.append(("gx_state", [v_s(st.upper()), v_s(date[0].strftime("%Y-%m-%d %H:%M:%S"))] + [v_f(x) for x in nums],
                                 dict(station=st, pos_vel=nums)))
        frec = dict(kind="gipsyx_site_info", rep=rep0, parser_error=None, row_refs=[], source=sd)
        acc.files.append(frec)
        lg = read_lines(out)
        if not lg or lg[0] != "KEYWORDS: ANT END ID POSTSEISMIC RX STATE":
            acc.direct.append(("gipsyx_site_info: first line differs from the writer's constant", dict(rep0, lines=lg[:2])))
        else:
            lines_vs(None, rows, lg[1:], frec, "gipsyx_site_info")

    # ------------------------------------------------------------------ gamit_station_info (duck-typed site information)
    REF = {"BAM": "DHARP", "BCR": "DHBCR", "BDG": "", "BGP": "DHBGP", "BPA": "DHBPA", "TCR": "DHTCR", "TDG": "", "TGP": "DHTGP",
           "TOP": "DHARP", "TPA": ""}

    class Ecc:
        def __init__(self, hist):
            self.hist = hist

        def get(self, date):
            h = at(self.hist, date)
            return None if h is None else SimpleNamespace(up=h["vector_1"], north=h["vector_2"], east=h["vector_3"],
                                                          dpos=(h["vector_1"], h["vector_2"], h["vector_3"]))
    stub, rows = OrderedDict(), []
    prog = re.compile(r"\d*\.?\d+(?:\d+)?")
    for st in names[:12]:
        tr = truth[st]
        refp = rng.choice(["BAM", "BCR", "BGP", "TOP", "XYZ"])
        fw = [rng.choice(["5.22", "48.01", "Nav 4.17 Sig 0.00", "beta", "1.0"]) for _ in tr["rcvs"]]
        def sm():
            v_ = gen_small(rng, 9.9999)
            return v_ if abs(v_) <= 9.9999 else v_ / 8
        small = [dict(h, vector_1=sm(), vector_2=sm(), vector_3=sm()) for h in tr["eccs"]]
        ants = [SimpleNamespace(type=h["antenna_type"], radome_type=h["radome_type"] if rng.random() < 0.8 else None, serial_number=h["serial_number"][:20],
                                date_from=h["start_time"], date_to=h["end_time"] or DMAX, reference_point=refp, source="m3g") for h in tr["ants"]]
        rcvs = [SimpleNamespace(type=h["receiver_type"], serial_number=h["serial_number"][:20], firmware=f_, date_from=h["start_time"],
                                date_to=h["end_time"] or DMAX) for h, f_ in zip(tr["rcvs"], fw)]
        stub[st] = {"antenna": ants, "receiver": rcvs, "eccentricity": Ecc(small)}
        ia, ir = 0, 0
        while ia < len(ants) and ir < len(rcvs):
            a, r = ants[ia], rcvs[ir]
            if prog.fullmatch(r.firmware):
                r_fw, r_ver = r.firmware, "--------------------"
            elif prog.findall(r.firmware):
                r_fw, r_ver = prog.findall(r.firmware)[0], r.firmware
            else:
                r_ver, r_fw = "--------------------", "-----"
            start, stop = max(a.date_from, r.date_from), min(a.date_to, r.date_to)
            e = at(small, start) or at(small, stop)
            h_, e_, n_ = (e["vector_1"], e["vector_3"], e["vector_2"]) if e else (0, 0, 0)
            rows.append(("gamit_sinfo", [v_s(st.upper()), v_s("----------------"), v_s(start.strftime("%Y %j %H %M %S")), v_s(stop.strftime("%Y %j %H %M %S")),
                                         v_f(h_), v_s(REF.get(refp, "-----")), v_f(n_), v_f(e_), v_s(r.type), v_s(r_ver), v_s(r_fw), v_s(r.serial_number),
                                         v_s(a.type), v_s(a.radome_type if a.radome_type else "-----"), v_s(a.serial_number)],
                         dict(station=st, start=str(start), stop=str(stop), firmware=r.firmware, reference_point=refp)))
            if a.date_to <= stop:
                ia += 1
            if r.date_to <= stop:
                ir += 1
    out = Path(ctx.work) / f"site_{k}.station_info"
    rep0 = dict(writer="gamit_station_info", stations=len(stub), edge=edge, options={},
                how="midgard.writers.write('gamit_station_info', file_path=..., site_info={station: {antenna: [objects with reference_point], receiver: [...], eccentricity: <get(date)>}})")
    sbefore = repr([(st, [vars(x) for x in v["antenna"]], [vars(x) for x in v["receiver"]]) for st, v in stub.items()])
    if call("gamit_station_info", rep0, None, None, file_path=out, site_info=stub):
        if repr([(st, [vars(x) for x in v["antenna"]], [vars(x) for x in v["receiver"]]) for st, v in stub.items()]) != sbefore:
            acc.direct.append(("writer gamit_station_info changed the site information it was given", rep0))
        frec = dict(kind="gamit_station_info", rep=rep0, parser_error=None, row_refs=[], source={})
        acc.files.append(frec)
        lg = read_lines(out)
        if len(lg) < 3 or lg[0] != "*          Gamit station.info" or not lg[2].startswith("*SITE  Station Name      Session Start"):
            acc.direct.append(("gamit_station_info: header lines differ from the writer's constants", dict(rep0, lines=lg[:3])))
        else:
            lines_vs(None, rows, lg[3:], frec, "gamit_station_info")


# =============================================================================================== SINEX-TMS
TMS_FLOAT_GROUPS = [
    # (probability, [(data type, dataset field)], value class)
    (0.6, [("SIG_X", "obs.site_pos_x_sigma"), ("SIG_Y", "obs.site_pos_y_sigma"), ("SIG_Z", "obs.site_pos_z_sigma")], "sigma"),
    (0.3, [("CORR_XY", "obs.site_pos_xy_correlation"), ("CORR_XZ", "obs.site_pos_xz_correlation"), ("CORR_YZ", "obs.site_pos_yz_correlation")], "corr"),
    (0.5, [("SIG_E", "obs.dsite_pos_east_sigma"), ("SIG_N", "obs.dsite_pos_north_sigma"), ("SIG_U", "obs.dsite_pos_up_sigma")], "sigma"),
    (0.3, [("CORR_EN", "obs.dsite_pos_en_correlation"), ("CORR_EU", "obs.dsite_pos_eu_correlation"), ("CORR_NU", "obs.dsite_pos_nu_correlation")], "corr"),
    (0.25, [("NOBSC", "obs.code_obs_num"), ("NOBSP", "obs.phase_obs_num"), ("NOUTC", "obs.code_outlier_num"), ("NOUTP", "obs.phase_outlier_num")], "count"),
    (0.25, [("PRES_C", "obs.code_residual_rms"), ("PRES_P", "obs.phase_residual_rms")], "small"),
    (0.2, [("RCV_CLK", "obs.receiver_clock"), ("SIG_RCV_CLK", "obs.receiver_clock_sigma")], "clock"),
    (0.2, [("TGE", "obs.trop_gradient_east"), ("SIG_TGE", "obs.trop_gradient_east_sigma"), ("TGN", "obs.trop_gradient_north"),
           ("SIG_TGN", "obs.trop_gradient_north_sigma")], "small"),
    (0.2, [("TROTOT", "obs.trop_zenith_total"), ("SIG_TROTOT", "obs.trop_zenith_total_sigma"), ("TROWET", "obs.trop_zenith_wet"),
           ("TRODRY", "obs.trop_zenith_dry")], "small"),
]


def tms_value(rng, cls, edge):
    if rng.random() < 0.03:
        return float("nan")
    if cls == "sigma":
        if edge == "sigma_big" and rng.random() < 0.3:
            return rng.choice([100000.0, 123456.7, 99999.99996, 99999.9999, 10000.0])
        return rng.choice([round(rng.uniform(0, 0.05), 4), rng.uniform(0, 1), 0.0008, 9999.9999, 0.00005, 1 / 32])
    if cls == "corr":
        return rng.choice([round(rng.uniform(-1, 1), 4), -1.0, 1.0, 0.0, -0.00004])
    if cls == "count":
        if edge == "count_big" and rng.random() < 0.3:
            return float(rng.choice([1000000, 12345678]))
        return float(rng.choice([0, 1, 2880, 99999, 999998, rng.randrange(0, 100000)]) + rng.choice([0, 0, 0.5, 0.25]))
    if cls == "clock":
        return rng.choice([1, -1]) * rng.uniform(0, 1) * 10 ** rng.randrange(0, 8)
    return gen_small(rng, 9.9999)


def gen_enu(rng, edge):
    if edge == "enu_big" and rng.random() < 0.3:
        return rng.choice([1000000.0, 1234567.8912, -100000.0, -123456.789, 999999.99996, -99999.99996])
    return rng.choice([gen_small(rng, 0.9999), gen_small(rng), round(rng.uniform(-9999, 99999), 4), 999999.9999, -99999.9999])


def gen_tms_dataset(rng, ctx, edge):
    """a dataset of 1..3 stations observed at common (unsorted) epochs, rows shuffled: the station that is written is in
    general NOT the first row at its epochs.  `flat`: fields outside an 'obs' collection (the writer then works on a copy)."""
    import numpy as np
    from midgard.data import dataset
    from midgard.data.position import Position
    n_ep = rng.choice([1, 1, 2, 3, 5, 8, 20, 60]) if ctx.quick() else rng.choice([1, 2, 3, 7, 30, 120, 400])
    st_len = rng.choice([4, 4, 4, 9, 1]) if edge != "station10" else 10
    stations = [gen_name(rng, st_len)]
    for _ in range(rng.choice([0, 0, 1, 2])):
        nm = gen_name(rng, 4) + rng.choice("qrs")
        if nm not in stations:
            stations.append(nm)
    day0 = datetime(1995, 1, 1) + timedelta(days=rng.randrange(0, 12000))
    days = rng.sample(range(0, max(n_ep * 3, 4)), n_ep)         # unsorted, unique
    epochs = [day0 + timedelta(days=dd, seconds=rng.choice([0, 0, 43200, 86399])) for dd in days]
    rows = []
    for j, st in enumerate(stations):
        mine = list(epochs) if (j == 0 or rng.random() < 0.6) else rng.sample(epochs, rng.randrange(1, len(epochs) + 1))
        if j > 0 and rng.random() < 0.3:
            mine.append(day0 + timedelta(days=max(days) + 1 + j, seconds=17))
        rows.extend((st, e) for e in mine)
    rng.shuffle(rows)
    n = len(rows)
    flat = edge is None and rng.random() < 0.3
    pre = "" if flat else "obs."
    d = dataset.Dataset(num_obs=n)
    d.add_time("time", val=[r[1] for r in rows], scale="utc", fmt="datetime")
    d.add_text("station", val=[r[0] for r in rows])
    if flat or rng.random() < 0.85:
        xyz = np.array([[gen_coord(rng) for _ in range(3)] for _ in range(n)])
        d.add_position(pre + "site_pos", val=xyz, system="trs")
    has_enu = (not flat) and rng.random() < 0.6
    if has_enu:
        ref = np.array([gen_coord(rng) for _ in range(3)])
        if edge == "ref_big":
            ref[1] = rng.choice([-12345678.1234, 123456789.0])
        enu = np.array([[gen_enu(rng, edge) for _ in range(3)] for _ in range(n)])
        d.add_position_delta("obs.dsite_pos", val=enu, system="enu", ref_pos=Position(np.repeat(ref[None, :], n, axis=0), system="trs"))
        d.meta["ref_epoch"] = (datetime(2000, 1, 1) + timedelta(days=rng.randrange(0, 9000), seconds=rng.choice([0, 0, 86399]))).isoformat()
        d.meta["ref_frame"] = "ITRF2020" if edge == "frame8" else rng.choice(["IGb14", "IGS20", "ITRF14", "X"])
    for prob, fields, cls in TMS_FLOAT_GROUPS:
        if rng.random() < prob:
            if fields[0][1].startswith("obs.dsite_pos") and not has_enu:
                continue
            if fields[0][1].startswith("obs.site_pos") and (pre + "site_pos") not in d.fields:
                continue
            for _, f in fields:
                d.add_float(f.replace("obs.", pre, 1), val=np.array([tms_value(rng, cls, edge) for _ in range(n)]),
                            unit="meter" if cls in ("sigma", "small", "clock") else None)
    if edge is None and rng.random() < 0.35:
        d.meta["vel"] = gen_vel_meta(rng, day0)
        if rng.random() < 0.6:
            d.meta["solution_description"] = dict([("time_series_model", rng.choice(["linear trend", "trend + annual"])),
                                                          ("outlier_rejection", "3 sigma")][:rng.randrange(1, 3)])
    return d, stations, rows, flat


def gen_vel_meta(rng, day0):
    """meta['vel'] as the time-series analysis leaves it: per component either one value or {period: value} (trend intervals
    keyed by (from, to), offsets keyed by one epoch), with optional *_sigma twins"""
    def val():
        return rng.choice([-1, 1]) * rng.choice([rng.uniform(1e-5, 0.05), 6.64e-3, 1.5e-11, 123.456, 9.9999999999999995e-4, 0.5, 2.5e-5])
    p1 = (day0.isoformat(), (day0 + timedelta(days=900)).isoformat())
    p2 = (p1[1], (day0 + timedelta(days=2000, seconds=3600)).isoformat())
    vel = dict(interval=[[day0, day0 + timedelta(days=2000, seconds=3600)]])
    comps = rng.sample(["x", "y", "z", "e", "n", "u"], rng.randrange(1, 5))
    if rng.random() < 0.6:
        comps = sorted(set(comps) | {"y", "z"})
    for key in ["trend"] + rng.sample(["bias", "amp_annual", "phase_annual", "rms", "offset", "amp_semiannual"], rng.randrange(0, 4)):
        vel[key] = dict()
        for c_ in comps:
            if key == "offset":
                vel[key][c_] = dict([((day0 + timedelta(days=400)).isoformat(), val())])
            elif key == "trend" and rng.random() < 0.7:
                vel[key][c_] = dict([(p1, val()), (p2, val())])
            else:
                vel[key][c_] = val()
        if key in ("trend", "bias", "amp_annual") and rng.random() < 0.7:
            vel[key + "_sigma"] = dict()
            for c_ in comps:
                v_ = vel[key][c_]
                vel[key + "_sigma"][c_] = dict((k_, abs(val())) for k_ in v_) if isinstance(v_, dict) else abs(val())
    return vel


def tms_module():
    import importlib
    return importlib.import_module("midgard.writers.sinex_tms")


def yyyydddsssss(dt):
    return f"{dt.year:04d}:{dt.timetuple().tm_yday:03d}:{dt.hour * 3600 + dt.minute * 60 + dt.second:05d}"


def run_tms(ctx, t, acc, n_sets):
    import numpy as np
    from operator import attrgetter
    from midgard import writers, parsers
    rng = ctx.rng
    seq = {m: tl.writer_sequence(W + "sinex_tms.py", m) for m in ("file_reference", "timeseries_ref_coordinate", "timeseries_columns", "timeseries_data")}
    fr_tmpl = ["tms_fr_description", "tms_fr_contact", "tms_fr_software", "tms_fr_input", "tms_fr_version"]
    for k in range(n_sets):
        edge = rng.choice([None] * 12 + ["enu_big", "sigma_big", "count_big", "station10", "ref_big", "agency4", "frame8"])
        dset, stations, rows, flat = gen_tms_dataset(rng, ctx, edge)
        ctx.count(f"tms:stations:{len(stations)}:{'flat' if flat else 'obs'}")
        for si_, station in enumerate(stations):
            o = dict(contact=rng.choice(["a@b.no", "", "x" * 60]), data_agency=rng.choice(["NMA", "IG", "X"]), file_agency="NMAX" if edge == "agency4" else rng.choice(["NMA", "K"]),
                     input_=rng.choice(["in", "SINEX files"]), organization=rng.choice(["Norwegian Mapping Authority", "Org", ""]),
                     software=rng.choice(["Where 2.1", "sw"]), version=rng.choice(["001", "12"]))
            ctx.count(f"tms:edge:{edge}")
            ctx.count(f"tms:epochs:{sum(1 for r in rows if r[0] == station)}")
            before = dset_digest(dset)
            obefore = digest(o)
            out = Path(ctx.work) / f"tms_{k}_{si_}"
            rep0 = dict(writer="sinex_tms", edge=edge, station=station, stations=stations, flat=flat, options=o,
                            dataset_rows=[(r[0], r[1].isoformat()) for r in rows][:60], fields=sorted(dset.fields), num_obs=dset.num_obs,
                        how="midgard.writers.write('sinex_tms', dset=<dataset>, station=..., file_path=..., contact=..., ...)")
            try:
                with warnings.catch_warnings():
                    warnings.simplefilter("ignore")
                    writers.write("sinex_tms", dset=dset, station=station, file_path=out, **o)
            except Exception as e:
                n_sta = sum(1 for r in rows if r[0] == station)
                tab_ = tms_module().ESTIMATE_PARAMETER_FIELD_TYPES
                if (isinstance(e, (TypeError, KeyError)) and "vel" in dset.meta and "VEL_Z_SIG" not in tab_
                        and "z" in dset.meta["vel"].get("trend_sigma", {})):
                    acc.known.append(("c17_tms_vel_sigma_key", "sinex_tms writer: ESTIMATE_PARAMETER_FIELD_TYPES lists the key VEL_Y_SIG twice "
                                      "(VEL_Z_SIG is missing): VEL_Y is written with the standard deviation of the z trend and VEL_Z with 0",
                                      dict(rep0, error=f"{type(e).__name__}: {e}", vel={a_: str(b_) for a_, b_ in dset.meta["vel"].items()})))
                elif n_sta == 1 and "obs.dsite_pos" in dset.fields and isinstance(e, ValueError) and "requires 3 columns" in str(e):
                    acc.known.append(("c17_tms_single_epoch", "sinex_tms writer raises ValueError for a station with exactly one epoch when ENU columns are present "
                                      "(TimeseriesBlocks._get_ref_pos builds a Position from one row)", dict(rep0, error=str(e))))
                else:
                    acc.direct.append((f"writer sinex_tms raised {type(e).__name__}: {e}", rep0))
                continue
            if dset_digest(dset) != before or digest(o) != obefore:
                acc.direct.append(("writer sinex_tms changed the dataset / options it was given", rep0))
            lines = read_lines(out)
            frec = dict(kind="sinex_tms", rep=rep0, parser_error=None, row_refs=[], source={})
            acc.files.append(frec)
            acc.add("check_balanced", emit.lst(emit.s(x) for x in lines), dict(rep0, lines=lines[:40]), None)

            # ---- what the writer was given, as the writer sees it
            idx_sta = dset.filter(station=station)
            names = [n for n, f in t.tms_field_types.items()
                     if (((".".join(f.split(".")[0:2]) in dset.fields) if "obs." in f else (f.split(".")[0] in dset.fields)) if not flat
                             else (f.replace("obs.", "", 1).split(".")[0] in dset.fields))]
            with warnings.catch_warnings():
                warnings.simplefilter("ignore")
                colvals = {n: np.asarray(attrgetter(t.tms_field_types[n].replace("obs.", "", 1) if flat else t.tms_field_types[n])(dset))[idx_sta]
                                   for n in names}
                times = list(dset.time.utc.datetime[idx_sta])
                tmin, tmax = dset.time.min.yyyydddsssss, dset.time.max.yyyydddsssss
            order = sorted(range(len(times)), key=lambda i: times[i])

            # ---- the parser
            q = None
            try:
                with warnings.catch_warnings():
                    warnings.simplefilter("ignore")
                    q = parsers.parse_file("sinex_tms", out)
                    if "timeseries_data" not in q.data:
                        raise ValueError("no timeseries_data parsed")
            except Exception as e:
                frec["parser_error"] = f"{type(e).__name__}: {str(e)[:200]}"
                q = None

            # ---- expected sequence of lines
            pos = [0]

            def nxt():
                if pos[0] >= len(lines):
                    return None
                pos[0] += 1
                return lines[pos[0] - 1]

            def expect_const(text, what):
                ln = nxt()
                if ln != text.rstrip("\n"):
                    acc.direct.append((f"sinex_tms: line {pos[0]} ({what}) is not the constant line of the writer's source",
                                       dict(rep0, expected=text.rstrip("\n"), written=ln)))
                    return False
                return True

            def row(rid, vals, obs, cvs=None, spans=None, info=None):
                ln = nxt()
                rep = dict(rep0, row_type=rid, written_line=ln, input=info)
                if ln is None:
                    acc.direct.append((f"sinex_tms: file ends before the {rid} line", rep))
                    return
                if obs is not None and q is not None:
                    rep["parsed"] = obs
                    acc.add("check_row_t", emit.pair(f"L_{rid}", spans, cvs, emit.lst(vals), emit.s(ln), emit.lst(obs)), rep, frec)
                else:
                    acc.add("check_line_t", emit.pair(f"L_{rid}", emit.lst(vals), emit.s(ln)), rep, frec)
                ctx.case((rid, ln[:15] + ln[29:] if rid == "tms_header" else ln), nontrivial=rid in ("tms_refcoord",))

            # header line (the creation time is the clock: taken from the file)
            hdr = lines[0] if lines else ""
            a0 = 11 + max(3, len(o["file_agency"])) + 1
            now = hdr[a0:a0 + 14]
            m = q.meta if q is not None else {}

            def iso2snx(x):
                try:
                    return yyyydddsssss(datetime.fromisoformat(x))
                except Exception:
                    return str(x)
            hobs = None if q is None else [o_f(m.get("snx_version")), o_s(m.get("create_agency")), o_s(iso2snx(m.get("create_epoch"))),
                                           o_s(m.get("data_agency")), o_s(iso2snx(m.get("start_epoch"))), o_s(iso2snx(m.get("end_epoch"))),
                                           o_s(m.get("obs_code")), o_s(m.get("solution_contents"))]
            row("tms_header", [v_s("1.00"), v_s(o["file_agency"]), v_s(now), v_s(o["data_agency"]), v_s(tmin), v_s(tmax), v_s("P"), v_s(station.upper())],
                hobs, "Cv_tms_header", "P_tms_header", dict(station=station, file_agency=o["file_agency"], data_agency=o["data_agency"]))
            # FILE/REFERENCE
            frv = {"tms_fr_description": ("description", o["organization"]), "tms_fr_contact": ("contact", o["contact"]),
                   "tms_fr_software": ("software", o["software"]), "tms_fr_input": ("input", o["input_"]), "tms_fr_version": ("version", o["version"])}
            for kind, x in seq["file_reference"]:
                if kind == "const":
                    expect_const(x, "FILE/REFERENCE")
                elif kind == "tmpl":
                    rid = fr_tmpl[x]
                    key, val = frv[rid]
                    fobs = None if q is None else ["ONone", o_s(q.data.get("file_reference", {}).get(key, "<missing>"))]
                    row(rid, [v_s(val)], fobs, "[CSkip; CU 60%nat]", "P_tms_file_reference", dict(key=key, value=val))
            # SOLUTION/DESCRIPTION, SOLUTION/ESTIMATE (only with a velocity model in the meta data)
            est = OrderedDict()
            for nme, ft in tms_module().ESTIMATE_PARAMETER_FIELD_TYPES.items():
                v_ = dset.meta
                for key in ft.keys:
                    try:
                        v_ = v_[key]
                    except (KeyError, TypeError):
                        v_ = None
                        break
                if v_:
                    est[nme] = v_
            if est:
                if "solution_description" in dset.meta:
                    sq = tl.writer_sequence(W + "sinex_tms.py", "solution_description")
                    expect_const(sq[0][1], "SOLUTION/DESCRIPTION")
                    expect_const(sq[1][1], "SOLUTION/DESCRIPTION")
                    for key, val_ in dset.meta["solution_description"].items():
                        row("tms_desc", [v_s(key.replace("_", " ").upper()), v_s(val_)], None, info=dict(key=key, value=val_))
                    expect_const(sq[-1][1], "SOLUTION/DESCRIPTION")
                sq = tl.writer_sequence(W + "sinex_tms.py", "solution_estimate")
                expect_const(sq[0][1], "SOLUTION/ESTIMATE")
                expect_const(sq[1][1], "SOLUTION/ESTIMATE")
                index = 1
                units = {n_: f_.unit for n_, f_ in tms_module().ESTIMATE_PARAMETER_FIELD_TYPES.items()}

                def sigma_finding(type_, written_sigma, period):
                    """property oracle, independent of the writer's table: the standard deviation of <KIND>_<C> is
                    meta[vel][<kind>_sigma][<c>] (0 when absent); a different number in the file is the known key defect"""
                    ks = tms_module().ESTIMATE_PARAMETER_FIELD_TYPES[type_].keys
                    try:
                        want = dset.meta[ks[0]][ks[1] + "_sigma"][ks[2]]
                        want = want[period] if period is not None else want
                    except (KeyError, TypeError):
                        want = 0.0
                    if not (want == written_sigma):
                        acc.known.append(("c17_tms_vel_sigma_key", "sinex_tms writer: ESTIMATE_PARAMETER_FIELD_TYPES lists the key VEL_Y_SIG twice "
                                          "(VEL_Z_SIG is missing): VEL_Y is written with the standard deviation of the z trend and VEL_Z with 0",
                                          dict(rep0, type=type_, period=str(period), sigma_in_meta=want, sigma_by_writer_table=written_sigma)))
                    return written_sigma
                for type_, entries in est.items():
                    if type_.endswith("_SIG"):
                        continue
                    if isinstance(entries, dict):
                        for i_sol, (period, value) in enumerate(entries.items()):
                            if isinstance(period, tuple):
                                tf, tt = yyyydddsssss(datetime.fromisoformat(period[0])), yyyydddsssss(datetime.fromisoformat(period[1]))
                            else:
                                tf, tt = yyyydddsssss(datetime.fromisoformat(period)), "0000:000:00000"
                            sg = est[type_ + "_SIG"][period] if type_ + "_SIG" in est else 0.0
                            sg = sigma_finding(type_, sg, period)
                            row("tms_est", [v_i(index), v_s(type_), v_s(station.upper()), v_i(i_sol + 1), v_s(tf), v_s(tt), v_s(units[type_]),
                                            v_f(value), v_f(sg)], None, info=dict(type=type_, period=str(period), value=value, sigma=sg))
                            index += 1
                    else:
                        iv = dset.meta["vel"]["interval"][0]
                        sg = est[type_ + "_SIG"] if type_ + "_SIG" in est else 0.0
                        sg = sigma_finding(type_, sg, None)
                        row("tms_est1", [v_i(index), v_s(type_), v_s(station.upper()), v_s(yyyydddsssss(iv[0])), v_s(yyyydddsssss(iv[1])),
                                         v_s(units[type_]), v_f(entries), v_f(sg)], None, info=dict(type=type_, value=entries, sigma=sg))
                        index += 1
                expect_const(sq[-1][1], "SOLUTION/ESTIMATE")
                ctx.count("tms:solution_estimate")
            # REF_COORDINATE
            if "EAST" in names:
                with warnings.catch_warnings():
                    warnings.simplefilter("ignore")
                    rp = dset.obs.dsite_pos.ref_pos[idx_sta][0]
                    rx, ry, rz = float(rp.trs.x), float(rp.trs.y), float(rp.trs.z)
                rep_epoch = yyyydddsssss(datetime.fromisoformat(dset.meta["ref_epoch"]))
                for kind, x in seq["timeseries_ref_coordinate"]:
                    if kind == "const":
                        expect_const(x, "REF_COORDINATE")
                    else:
                        rc = q.data.get("ref_coordinate", {}) if q is not None else {}
                        robs = None if q is None else [o_s(rc.get("site_code")), o_s(rc.get("point_code")), o_s(rc.get("soln")), o_s(rc.get("obs_code")),
                                                       o_s(iso2snx(rc.get("epoch"))), o_f(rc.get("ref_x")), o_f(rc.get("ref_y")), o_f(rc.get("ref_z")),
                                                       o_s(rc.get("system"))]
                        row("tms_refcoord", [v_s(station.upper()), v_s(rep_epoch), v_f(rx), v_f(ry), v_f(rz), v_s(dset.meta["ref_frame"])], robs,
                            "Cv_tms_refcoord", "P_tms_refcoord", dict(ref_pos=[rx, ry, rz], ref_frame=dset.meta["ref_frame"], ref_epoch=dset.meta["ref_epoch"]))
            # COLUMNS
            tc = None
            if q is not None and "timeseries_columns" in q.data:
                tc = np.atleast_1d(q.data["timeseries_columns"])
                if len(tc) != len(names):
                    tc = None
            for kind, x in seq["timeseries_columns"]:
                if kind == "const":
                    expect_const(x, "COLUMNS")
                else:
                    for i, nme in enumerate(names):
                        w_, al_, kind_, unit, desc = t.tms_types[nme]
                        cobs = None if tc is None else [o_f(tc["col"][i]), o_s(tc["name"][i]), o_s(tc["unit"][i]), o_s(tc["description"][i])]
                        row("tms_columns", [v_i(i + 1), v_s(nme), v_s(unit), v_s(desc)], cobs, "Cv_tms_columns", "P_tms_columns", dict(column=nme))
            # DATA
            expect_const("+TIMESERIES/DATA", "DATA")
            header = "*" + "".join(" _" + nme.ljust(t.tms_types[nme][0] - 2, "_") for nme in names)
            expect_const(header, "DATA column header")
            lay = f"(tms_row_layout tms_types {emit.lst(emit.s(x) for x in names)})"
            td = q.data["timeseries_data"] if q is not None else None
            if td is not None and any(len(np.atleast_1d(td.get(nme.lower(), []))) != len(order) for nme in names):
                frec["parser_error"] = "parser returned a different number of rows / columns than written"
                td = None
            cvs = emit.lst("CStr" if t.tms_types[nme][2][0] == "s" else "CFloat" for nme in names)
            for j, i in enumerate(order):
                ln = nxt()
                vals, info = [], {}
                for nme in names:
                    x = colvals[nme][i]
                    if t.tms_types[nme][2][0] == "s":
                        vals.append(v_s(x))
                        info[nme] = str(x)
                    else:
                        vals.append(v_f(x))
                        info[nme] = float(x)
                rep = dict(rep0, row_type="tms_data", columns=names, written_line=ln, input=info)
                if ln is None:
                    acc.direct.append(("sinex_tms: fewer data rows written than epochs of the station", rep))
                    break
                if td is not None:
                    obs = [(o_s(td[nme.lower()][j]) if t.tms_types[nme][2][0] == "s" else o_f(td[nme.lower()][j])) for nme in names]
                    rep["parsed"] = obs
                    acc.add("check_token_row_t", emit.pair(lay, cvs, emit.lst(vals), emit.s(ln), emit.lst(obs)), rep, frec)
                else:
                    acc.add("check_token_line_t", emit.pair(lay, emit.lst(vals), emit.s(ln)), rep, frec)
                ctx.case(("tms_data", ln), nontrivial=True, sample=rep if j == 0 and k < 2 and si_ == 0 else None)
            expect_const("-TIMESERIES/DATA", "DATA")
            if pos[0] != len(lines):
                acc.direct.append(("sinex_tms: lines after -TIMESERIES/DATA", dict(rep0, extra=lines[pos[0]:pos[0] + 3])))


# =============================================================================================== csv_
CSV_HEADER = {"time.decimalyear": "decimalyear", "time.gps.decimalyear": "decimalyear", "time.utc.decimalyear": "decimalyear",
              "time.mjd": "mjd", "time.gps.mjd": "mjd", "time.utc.mjd": "mjd", "time.gps.gps_ws.week": "gpsweek",
              "time.gps.gps_ws.seconds": "gpssec"}


def csv_item(fmt):
    """printf format of np.savetxt -> (Coq field, conv, value kind)"""
    import re
    m = re.fullmatch(r"(\d*)(?:\.(\d+))?([sdf])", fmt)
    w, prec, ty = int(m.group(1) or 0), m.group(2), m.group(3)
    if ty == "s":
        return f"Fld (mkfld {emit.nat(w)} AR (KStr None) {emit.nat(w)})", "CStr", "s"
    if ty == "d":
        return f"Fld (mkfld {emit.nat(w)} AR KInt {emit.nat(w)})", "CFloat", "i"
    return f"Fld (mkfld {emit.nat(w)} AR (KFix {emit.nat(int(prec) if prec is not None else 6)}) {emit.nat(w)})", "CFloat", "f"


def run_csv(ctx, t, acc, n_sets):
    """midgard/writers/csv_.py (module function; not registered as a plug-in) and the csv_ parser"""
    import numpy as np
    from midgard.data import dataset
    from midgard import parsers
    from midgard.writers.csv_ import csv_
    from midgard.writers._writers import get_field
    rng = ctx.rng
    for k in range(n_sets):
        n_sta = rng.choice([1, 1, 2, 3, 4])
        stations = [rng.choice("abcdefgh") + gen_name(rng, 2).replace("0", "x") + rng.choice("klmn") for _ in range(n_sta)]
        n_ep = rng.choice([1, 2, 3, 6, 12]) if ctx.quick() else rng.choice([1, 3, 10, 40, 150])
        if k == 0:                  # directed corpus first: several stations at >= 3 common epochs, rows not in date order
            n_sta, n_ep = max(n_sta, 2), max(n_ep, 3)
            stations = (stations + ["bxyk", "cxyl"])[:n_sta]
        t0 = datetime(2023, 1, 1) + timedelta(days=rng.randrange(0, 500))
        hours = rng.sample(range(0, max(4, n_ep * 2)), n_ep)                      # unsorted epochs
        rows = [(s_, t0 + timedelta(hours=h, seconds=rng.choice([0, 30]) * h)) for h in hours for s_ in stations if rng.random() < 0.9 or s_ == stations[0]]
        rng.shuffle(rows)
        if k == 0 and [r[1] for r in rows] == sorted(r[1] for r in rows):
            rows.reverse()
        n = len(rows)
        dset = dataset.Dataset(num_obs=n)
        dset.add_time("time", val=[r[1] for r in rows], scale="gps", fmt="datetime")
        dset.add_text("station", val=[r[0] for r in rows])
        dset.add_float("reflection_height", val=np.array([gen_small(rng) for _ in range(n)]), unit="meter")
        dset.add_float("water_level", val=np.array([gen_coord(rng) if rng.random() > 0.05 else float("nan") for _ in range(n)]), unit="meter")
        has_date = k == 0 or rng.random() < 0.4      # the caller's dataset already has the 'date' field: the writer uses it as it is
        if has_date:
            dset.add_text("date", val=[r[1].strftime("%Y-%m-%d %H:%M:%S") for r in rows])
        ctx.count(f"csv:date_field:{has_date}")
        fields = OrderedDict()
        fields["date"] = rng.choice(["s", "s", ""])
        cand = [("time.gps.mjd", rng.choice([".6f", ".3f"])), ("time.gps.gps_ws.week", "d"), ("time.gps.gps_ws.seconds", ".3f"),
                ("station", "s"), ("reflection_height", rng.choice([".2f", ".4f", "9.3f"])), ("water_level", rng.choice([".2f", ".5f"]))]
        rng.shuffle(cand)
        for name, f_ in cand[:rng.randrange(2, len(cand) + 1)]:
            fields[name] = f_
        given = OrderedDict(fields)
        before, fbefore = dset_digest(dset), digest(dict(fields))
        out = Path(ctx.work) / f"csv_{k}.csv"
        rep0 = dict(writer="csv_", stations=stations, epochs=n_ep, rows=n, fields=dict(given),
                    dataset_rows=[(r[0], r[1].isoformat()) for r in rows][:40],
                    how="midgard.writers.csv_.csv_(dset, file_path, fields)")
        ctx.count(f"csv:stations:{n_sta}")
        try:
            with warnings.catch_warnings():
                warnings.simplefilter("ignore")
                csv_(dset, out, fields)
        except Exception as e:
            acc.direct.append((f"writer csv_ raised {type(e).__name__}: {e}", rep0))
            continue
        changed = []
        if digest(dict(fields)) != fbefore:
            changed.append(f"fields dictionary {dict(given)} -> {dict(fields)}")
        if dset_digest(dset) != before:
            changed.append(f"dataset fields {sorted(dset.fields)}")
        if changed:
            acc.known.append(("c17_csv_alters_arguments", "csv_ writer rewrites the caller's `fields` dictionary (formats get a '%' prefix, so a second "
                              "call with the same dictionary writes '%%s') and adds a 'date' field to the caller's dataset",
                              dict(rep0, changed=changed)))
        # ---- the rows the writer has to emit: ordered by date text, dataset order within one date
        dates = [r[1].strftime("%Y-%m-%d %H:%M:%S") for r in rows]
        order = sorted(range(n), key=lambda i: (dates[i], i))
        with warnings.catch_warnings():
            warnings.simplefilter("ignore")
            cols = {}
            for name in given:
                if name == "date":
                    cols[name] = dates
                else:
                    w_ = name.split(".")
                    cols[name] = list(get_field(dset, w_[0], tuple(w_[1:])))
        items, cvs, kinds = [], [], []
        for name, f_ in given.items():
            it, cv, kd = csv_item(f_ if f_ else "s")
            items.append(it)
            cvs.append(cv)
            kinds.append(kd)
        lay = "[" + "; Lit csv_delimiter; ".join(items) + "]"
        lines = read_lines(out)
        frec = dict(kind="csv_", rep=rep0, parser_error=None, row_refs=[], source={})
        acc.files.append(frec)
        header = ",".join(CSV_HEADER.get(nm, nm) for nm in given)
        if not lines or lines[0] != header:
            acc.direct.append(("csv_: header line differs from the field names", dict(rep0, expected=header, written=lines[:1])))
            continue
        if len(lines) - 1 != n:
            acc.direct.append((f"csv_: {n} observations given, {len(lines) - 1} data lines written", dict(rep0, written=lines[:6])))
            continue
        data = None
        allnan = set()
        try:
            with warnings.catch_warnings():
                warnings.simplefilter("ignore")
                data = parsers.parse_file("csv_", out).data
            # the parser drops columns without any number (df.dropna(axis="columns", how="all")): an all-NaN column is not read back
            allnan = {nm for nm, kd in zip(given, kinds) if kd == "f" and all(math.isnan(float(x)) for x in cols[nm])}
            if any(len(np.atleast_1d(data.get(CSV_HEADER.get(nm, nm), []))) != n for nm in given if nm not in allnan):
                frec["parser_error"] = f"parser returned columns {list(data)} with lengths {[len(v) for v in data.values()]} for {n} written rows"
                data = None
        except Exception as e:
            frec["parser_error"] = f"{type(e).__name__}: {str(e)[:200]}"
        for j, i in enumerate(order):
            vals, info = [], {}
            for (name, _), kd in zip(given.items(), kinds):
                x = cols[name][i]
                vals.append(v_s(x) if kd == "s" else v_i(int(x)) if kd == "i" else v_f(x))
                info[name] = str(x) if kd == "s" else float(x)
            obs = ["ONone"] * len(kinds) if data is None else [
                ("ONone" if (nm in allnan and CSV_HEADER.get(nm, nm) not in data) else
                 o_s(data[CSV_HEADER.get(nm, nm)][j]) if kd == "s" else o_f(data[CSV_HEADER.get(nm, nm)][j])) for nm, kd in zip(given, kinds)]
            rep = dict(rep0, row_type="csv_row", written_line=lines[1 + j], input=info, dataset_row=i)
            if data is None:
                cvs_row = emit.lst(["CSkip"] * len(kinds))
            else:
                rep["parsed"] = obs
                cvs_row = emit.lst("CSkip" if o_ == "ONone" else c_ for c_, o_ in zip(cvs, obs))
            acc.add("check_list_row_t", emit.pair(lay, cvs_row, emit.lst(vals), emit.s(lines[1 + j]), emit.lst(obs)), rep, frec)
            ctx.case(("csv", lines[1 + j]), nontrivial=n_sta > 1, sample=rep if j == 0 and k == 0 else None)


# =============================================================================================== the run
OVERFLOW = {
    "sinex_tms": ("c17_tms_column_overflow",
                  "sinex_tms writer: a value as wide as (or wider than) its DATA_TYPES width is written without a separating blank / "
                  "shifts the line; the sinex_tms parser cannot read the file back"),
    "bernese": ("c17_bernese_column_overflow",
                "Bernese writers: an identifier / number longer than its column is written untruncated and shifts the rest of the line"),
}


def run(ctx):
    try:
        t = regen(ctx)
    except TranslateError as e:
        ctx.prove([])
        ctx.violation({"broken": "the writers' format strings / parsers' column tables could not be translated", "error": str(e)},
                      what=f"layout translation failed: {e}", found=False)
        return ctx.finish(level="proof", rule="translation failed")
    ok = ctx.prove(THEOREMS)
    acc = Acc()
    n_site = 8 if ctx.quick() else 60
    n_tms = 30 if ctx.quick() else 300
    run_site_writers(ctx, t, acc, n_site)
    ctx.log(f"site-information writers done: {sum(len(v) for v in acc.cases.values())} lines")
    run_tms(ctx, t, acc, n_tms)
    ctx.log(f"sinex_tms done: {sum(len(v) for v in acc.cases.values())} lines, {len(acc.files)} files")
    run_csv(ctx, t, acc, 10 if ctx.quick() else 80)
    ctx.log(f"csv_ done: {sum(len(v) for v in acc.cases.values())} lines, {len(acc.files)} files")

    verdicts = {}
    # all shards of all check functions in ONE pool (the machine is shared: sequential pools wait for every straggler)
    plan = []
    for fn, cases in acc.cases.items():
        for sh_ in emit.shard_terms(fn, cases, 150):
            plan.append((fn, sh_))
    vs_all = ctx.coq_cases([sh_ for _, sh_ in plan], REQ, timeout=300)
    for i, v in enumerate(vs_all):          # a shard lost to the machine (not to Coq) is evaluated once more, alone
        if v is None:
            vs_all[i] = ctx.coq_cases([plan[i][1]], REQ, timeout=600)[0]
    ctx.log(f"{len(plan)} shards / {sum(len(c_) for c_ in acc.cases.values())} cases evaluated in Coq")
    for fn, cases in acc.cases.items():
        vs = [v for (f_, _), v in zip(plan, vs_all) if f_ == fn]
        flat = emit.flatten_verdicts(vs, len(cases))
        if flat is None:
            ctx.violation({"broken": f"correspondence shards of {fn} did not evaluate in Coq", "errors": ctx.last_coq_errors[:2]},
                          what="correspondence (model evaluation) failed", found=False)
            flat = [0] * len(cases)
        verdicts[fn] = flat
    # ---- per row
    for fn, flat in verdicts.items():
        for v, rep in zip(flat, acc.meta[fn]):
            if v == 0:
                continue
            if fn == "check_balanced":
                ctx.violation(rep, what="block markers of the written SINEX-TMS file are not balanced")
            elif v == 1:
                ctx.violation(rep, what=f"written line differs from the model's rendering of the same input ({rep.get('row_type')})")
            elif v == 2 and rep.get("edge") is None:
                ctx.violation(rep, what=f"a value inside the format's domain does not fit its column ({rep.get('row_type')})")
            elif v == 2:
                fid, what = OVERFLOW["sinex_tms" if rep.get("writer") == "sinex_tms" else "bernese"]
                ctx.count(f"overflow:{rep.get('writer')}:{rep.get('row_type')}:{rep.get('edge')}")
                ctx.finding(fid, what, rep)
            elif v == 3:
                ctx.violation(rep, what=f"the matching parser did not return the written values ({rep.get('row_type')})")
            else:
                ctx.violation(rep, what=f"parser output differs from the input although the line is as modelled ({rep.get('row_type')}, code {v})")
    # ---- per file: a parser that fails on a file whose every line is conformant
    for frec in acc.files:
        if not frec["parser_error"]:
            continue
        vs = [verdicts[fn][i] for fn, i in frec["row_refs"]]
        if 2 in vs:
            continue            # explained by the non-conformant line(s) reported above
        ctx.violation(dict(frec["rep"], parser_error=frec["parser_error"]),
                      what=f"the matching parser fails on a conformant file written by {frec['kind']}: {frec['parser_error']}")
    for what, rep in acc.direct:
        ctx.violation(rep, what=what)
    for fid, what, rep in acc.known:
        ctx.count(f"finding:{fid}")
        ctx.finding(fid, what, rep)

    if not ok and not ctx.violations:
        def search():
            # property oracle on observables (column scan): a data character under a gap (two blanks) of the ruler line
            for ruler, line, rep in acc.ruled:
                n = len(ruler.rstrip())
                for p_ in range(1, min(n, len(line)) - 1):
                    if line[p_] != " " and ruler[p_] == " " and (ruler[p_ - 1] == " " or ruler[p_ + 1] == " "):
                        return dict(rep, what=f"column {p_} of the written row holds {line[p_]!r} but lies between two columns of the format's ruler",
                                    column=p_)
            return None
        ctx.obligations_broken(search)
    ctx.trusted += [
        "Coq 8.16.1 kernel, coqc, vm_compute (no native_compute)",
        "hand-written model coq/theories/Model/C17_Layout.v of Python's format mini-language, genfromtxt fixed-width / ChainParser slices / str.split (validated per line by this run)",
        "harness/drivers/c17_layouts.py (fail-closed ast translator) and harness/drivers/c17.py (generators, row selection, emission)",
        "identifier lengths of the formats in ROWS (station 4/9, DOMES 9, serial 20, receiver 20, antenna 15, radome 4, eccentricity ***.****)",
    ]
    ctx.assume += ["ASCII text only (one byte = one column)",
                   "float(text) of the parsers is correctly rounded (checked for every value with is_nearest_double)",
                   "free-text remarks of the Bernese STA section 003 and the creation time stamps are taken from the written file"]
    return ctx.finish(
        level="proof",
        rule=("random SINEX-like site information (1..60 stations, 0..9-character DOMES, 1..3 antenna/receiver/eccentricity periods, "
              "coordinates up to +-9 999 999.9999 incl. exact ties of the printed precision, NaN, -0.0; edge streams: 5-character station, "
              "22-character serials, 4-digit eccentricities, 9-digit coordinates) through bernese_crd/vel/clu/abb/sta; random datasets "
              "(1..400 unsorted epochs, 1..2 stations, optional sigma/correlation/ENU/GNSS columns, NaN; edge streams wide ENU / sigma / "
              "counts, 10-character station, 4-character agency) through sinex_tms; every written line compared with the model in Coq, "
              "re-read by bernese_crd / bernese_clu / bernese_sta_v52 / sinex_tms parsers; every station of multi-station datasets with common "
              "epochs is written; site-log style identifiers (long names, country code, plate); 1..4 coordinate solutions listed in shuffled "
              "order; rename_station / skip_firmware options; every argument and every parameter default digested, each site writer called twice; csv_ on datasets with several rows per epoch, "
              "re-read by the csv_ parser; input digests before/after. "
              "distinct_nontrivial = distinct coordinate / station-information / time-series rows"),
    )


def replay(ctx, path):
    rep = json.load(open(path))
    print(json.dumps(rep, indent=1))
    print("re-run: VERIF_SEED=%s /venv/bin/python run_check.py C17 %s" % (rep.get("seed"), rep.get("tier", "quick")))
    return 0

