"""C19 - Configuration lookup follows profile priority and fallback; text form reads back (DESIGN 4.19).

Proof obligations: coq/theories/Props/C19.v (model: Model/C19_Config.v, table: Gen/C19_BoolStates.v).
Correspondence: operation sequences (update, update_from_dict/_options/_file, profile changes, master section,
fallback, variables) are run on the real midgard.config.config.Configuration; every outcome (exception class of
each operation, get / exists / sources / layout / typed accessors / replace / as_str / write+read back) is shipped
to Coq, where the model is evaluated on the same sequence and compared (vm_compute)."""
from __future__ import annotations

import configparser
import itertools
import json
import os

from harness import core, emit

META = {
    "property_id": "C19",
    "level": "proof",
    "design_ref": "DESIGN.md 4.19",
    "technique": "Coq proof (induction over operation sequences and profile lists) on a hand model + regenerated "
                 "_BOOLEAN_STATES table + vm_compute correspondence with midgard.config.config.Configuration",
    "level_text": (
        "Theorems in Coq 8.16 over an executable model of Configuration (per-profile raw sections, profile list, "
        "flattened view, master section, fallback, get/exists/update*/update_from_options/update_from_file), the typed "
        "accessors, _replace and the text form with the part of configparser needed to read it back: for every "
        "operation sequence and every profile list the flattened view is exactly 'first listed profile that defines "
        "(section,key), profile-less last', then fallback, default, documented error; override wins; master section; "
        "re-prioritisation leaves no residue; list/tuple/dict/as_list agree; the eight boolean spellings (on the table "
        "regenerated from the source); unknown variables are kept; write/read round trip (partial: one-line entries). "
        "The model is tied to the code on every run: bounded-exhaustive and random operation sequences are run on "
        "midgard and compared with the model inside Coq."),
    "level_note": (
        "Trusted: Coq kernel + vm_compute; the hand-written model (Model/C19_Config.v) is validated, not derived; "
        "strings are ASCII; Python dicts are association lists; textwrap/configparser are modelled only for the "
        "grammar the text form produces (blank as the only whitespace inside values, '=' delimiter, # ; comments, "
        "continuation lines); float/date/path/enum accessors, ExtendedInterpolation and '%' in values are outside."),
}

THEOREMS = [
    "view_is_flattened", "lookup_priority", "fallback_then_default", "override_wins", "master_default",
    "reprioritise", "profiles_end_profileless", "list_tuple_dict_consistent", "bool_eight_spellings",
    "replace_only_known", "option_forms", "wrap_partitions_words", "fill_fits_unchanged", "text_roundtrip", "int_float_consistent", "replace_mixed_texts",
    "c19_stale_refuted", "c19_fbsect_refuted", "c19_mkey_refuted", "c19_fmt_refuted", "c19_metanl_refuted",
    "c19_clear_refuted", "replace_uses_current_vars", "c19_lead_refuted", "c19_comment_continuation_refuted",
]

REQ = "From Verif Require Import Lib.Dyadic Model.C19_Config.\nOpen Scope string_scope."

QUIRKS = {
    1: ("c19_stale_view_after_failed_batch",
        "update_from_dict/_options/_file leave the flattened view stale when an item raises: the raw per-profile data "
        "is already changed but lookups return the old value until the next update"),
    2: ("c19_fallback_missing_section_escapes",
        "Configuration.get: MissingSectionError raised by the fallback configuration escapes, so `default` is ignored "
        "when the fallback lacks the section"),
    4: ("c19_section_name_is_master_key",
        "Configuration.get(key, section=s): if s is no section but a key of the master section, the master entry s "
        "is returned instead of key / fallback / default / error"),
    8: ("c19_unknown_var_with_format_spec",
        "_replace: an unknown variable with a format specifier is formatted with itself ('{x:>10}' -> '   {x:>10}', "
        "'{x:%Y}' -> ValueError) instead of being kept; also hits every such value read by update_from_file"),
}

QUIRKS[16] = ("c19_meta_newline_on_readback",
              "update_from_file keeps the line breaks of a continued metadata value (only the entry value gets "
              "'\\n' -> ' '): a help text that write_to_file wraps is read back with '\\n' in it")

QUIRKS[32] = ("c19_clear_keeps_profile_data",
              "Configuration.clear() empties the sections and the variables but not the per-profile data: after the next "
              "update every cleared section and entry is back")

QUIRKS[64] = ("c19_leading_blank_on_readback",
              "write_to_file + update_from_file: a value (or metadata value) whose first word does not fit on the first line "
              "(longer than the wrap width minus the 33-column key part) is written on continuation lines only and read "
              "back with a leading blank")

QUIRKS[128] = ("c19_comment_continuation_lost",
               "write_to_file + update_from_file: ConfigParser treats a continuation line that starts with '#' or ';' as a "
               "comment, so a wrapped value (or metadata value) loses the line that happens to start with such a word")

SECS = ["sa", "sb"]
KEYS = ["k1", "k2", "k3"]
PROFS = ["p1", "p2", "p3"]


# ----------------------------------------------------------------------------- regeneration
def bool_table_text():
    from midgard.config.config import ConfigurationEntry
    tab = ConfigurationEntry._BOOLEAN_STATES
    rows = []
    for k, v in sorted(tab.items()):      # a dict: the order of the literal in the source is irrelevant
        if not isinstance(k, str) or not isinstance(v, bool):
            raise RuntimeError(f"_BOOLEAN_STATES entry {k!r}: {v!r} is not str -> bool")
        rows.append(emit.pair(emit.s(k), emit.b(v)))
    return ("From Coq Require Import List String.\nImport ListNotations.\n"
            "Definition bool_states : list (string * bool) :=\n  " + emit.lst(rows) + ".\n")


def regen(ctx):
    ctx.regen("C19_BoolStates", bool_table_text())


# ----------------------------------------------------------------------------- terms
def t_opt_s(x):
    return emit.opt(None if x is None else emit.s(x))


def t_meta(m):
    return emit.lst(emit.pair(emit.s(k), t_opt_s(v)) for k, v in (m or {}).items())


def t_kvs(d):
    items = d.items() if isinstance(d, dict) else d
    return emit.lst(emit.pair(emit.s(k), emit.s(v)) for k, v in items)


def t_profs(ps):
    return "None" if ps is None else "(Some " + emit.lst(t_opt_s(p) for p in ps) + ")"


def t_op(o):
    k = o["op"]
    if k == "update":
        return (f"(OUpdate (Upd {emit.s(o['section'])} {emit.s(o['key'])} {emit.s(o['value'])} {t_opt_s(o['profile'])} "
                f"{emit.s(o['source'])} {t_meta(o['meta'])}) {emit.b(o['allow_new'])})")
    if k == "dict":
        return f"(ODict {t_opt_s(o['section'])} {t_kvs(o['items'])} {emit.s(o['source'])} {emit.b(o['allow_new'])})"
    if k == "options":
        return (f"(OOptions {emit.lst(emit.s(x) for x in o['options'])} {t_opt_s(o['profile'])} {emit.s(o['source'])} "
                f"{emit.b(o['allow_new'])})")
    if k == "file":
        return f"(OFile {emit.s(o['text'])} {emit.s(o['path'])} {emit.b(o['allow_new'])} {emit.b(o['case_sensitive'])})"
    if k == "profiles":
        return f"(OProfiles {t_profs(o['profiles'])})"
    if k == "master":
        return f"(OMaster {t_opt_s(o['master'])})"
    if k == "fallback":
        if o["fallback"] is None:
            return "(OFallback None)"
        return f"(OFallback (Some {t_cfg(o['fallback'])}))"
    if k == "vars":
        return f"(OVars {t_kvs(o['vars'])})"
    if k == "clear_vars":
        return "OClearVars"
    if k == "clear":
        return "OClear"
    raise ValueError(k)


def t_cfg(spec):
    """A configuration built by its own (always successful) operations; spec = dict(name, ops)."""
    return f"(run all_off {emit.lst(t_op(o) for o in spec['ops'])} (empty_config {emit.s(spec['name'])}))"


def t_res(r, ok):
    """r = ('ok', x) | ('err', 'ErrSection')"""
    if r[0] == "ok":
        return f"(Ok {ok(r[1])})"
    return f"(Err {r[1]})"


def t_query(q):
    k = q["q"]
    if k == "get":
        return f"(QGet {emit.s(q['key'])} {t_opt_s(q['value'])} {t_opt_s(q['section'])} {t_opt_s(q['default'])})"
    if k == "exists":
        return f"(QExists {emit.s(q['key'])} {t_opt_s(q['section'])})"
    if k == "sources":
        return "QSources"
    if k == "layout":
        return "QLayout"
    if k == "typed":
        return f"(QTyped {emit.s(q['section'])} {emit.s(q['key'])})"
    if k == "replaced":
        return f"(QReplaced {emit.s(q['section'])} {emit.s(q['key'])} {t_opt_s(q['default'])} {t_kvs(q['extra'])})"
    if k == "as_str":
        return f"(QAsStr {emit.nat(q['width'])} {emit.b(q['metadata'])})"
    if k == "readback":
        return f"(QReadBack {emit.nat(q['width'])} {emit.b(q['case_sensitive'])})"
    raise ValueError(k)


def t_strs(l):
    return emit.lst(emit.s(x) for x in l)


def t_obs(q, a):
    k = q["q"]
    if k == "get":
        return "(AEntry " + t_res(a, lambda x: emit.pair(emit.s(x[0]), emit.s(x[1]))) + ")"
    if k == "exists":
        return "(ABool " + t_res(a, emit.b) + ")"
    if k == "sources":
        return "(AStrings " + t_strs(a[1]) + ")"
    if k == "layout":
        return "(ALayout " + emit.lst(emit.pair(emit.s(s), t_strs(ks)) for s, ks in a[1]) + ")"
    if k == "typed":
        def ty(x):
            return ("(Typed " + " ".join([
                emit.s(x["str"]), t_strs(x["list"]), t_strs(x["tuple"]), t_strs(x["as_list"]), t_kvs(x["dict"]),
                t_res(x["as_dict"], t_kvs), t_res(x["bool"], emit.b), t_res(x["int"], emit.zs),
                t_res(x["float"], lambda f: f"(FDy {emit.dy(f)})")]) + ")")
        return "(ATyped " + t_res(a, ty) + ")"
    if k in ("replaced", "as_str"):
        return "(AText " + t_res(a, emit.s) + ")"
    if k == "readback":
        def cont(x):
            return emit.lst(emit.pair(emit.s(s), emit.lst(emit.pair(emit.s(kk), emit.s(v), t_meta(m)) for kk, v, m in es))
                            for s, es in x)
        return "(AContent " + t_res(a, cont) + ")"
    raise ValueError(k)


def t_case(case):
    ops = emit.lst(emit.pair(t_op(o), t_res(r, lambda _: "tt")) for o, r in zip(case["ops"], case["outcomes"]))
    qs = emit.lst(emit.pair(t_query(q), t_obs(q, a)) for q, a in zip(case["queries"], case["answers"]))
    return emit.pair(emit.s(case["name"]), ops, qs)


# ----------------------------------------------------------------------------- running midgard
class Outside(Exception):
    """The implementation did something the model has no answer for."""


def guard(fn):
    from midgard.dev import exceptions as mex
    try:
        return ("ok", fn())
    except mex.MissingSectionError:
        return ("err", "ErrSection")
    except mex.MissingEntryError:
        return ("err", "ErrEntry")
    except mex.MissingConfigurationError:
        return ("err", "ErrConfig")
    except configparser.Error:
        return ("err", "ErrParse")
    except (ValueError, RecursionError, IndexError):   # IndexError: str.format on an all-digit variable name
        return ("err", "ErrValue")
    except Exception as e:  # noqa: BLE001 - reported as outside the model
        raise Outside(f"{type(e).__name__}: {e}") from None


def build(spec, workdir, counter):
    """Build a Configuration from its own operations (used for fallbacks: every operation must succeed)."""
    from midgard.config.config import Configuration
    c = Configuration(spec["name"])
    for o in spec["ops"]:
        r = apply_op(c, o, workdir, counter)
        if r[0] != "ok":
            raise Outside(f"fallback construction failed: {o} -> {r}")
    return c


def apply_op(c, o, workdir, counter):
    k = o["op"]
    if k == "update":
        return guard(lambda: c.update(o["section"], o["key"], o["value"], profile=o["profile"], source=o["source"],
                                      meta=(dict(o["meta"]) if o["meta"] is not None else None), allow_new=o["allow_new"]))
    if k == "dict":
        return guard(lambda: c.update_from_dict(dict(o["items"]), section=o["section"], source=o["source"],
                                                allow_new=o["allow_new"]))
    if k == "options":
        return guard(lambda: (c.update_from_options(list(o["options"]), profile=o["profile"], source=o["source"],
                                                    allow_new=o["allow_new"]), None)[1])
    if k == "file":
        with open(o["path"], "w") as f:
            f.write(o["text"])
        return guard(lambda: c.update_from_file(o["path"], allow_new=o["allow_new"], case_sensitive=o["case_sensitive"]))
    if k == "profiles":
        def setp():
            c.profiles = None if o["profiles"] is None else list(o["profiles"])
        return guard(setp)
    if k == "master":
        def setm():
            c.master_section = o["master"]
        return guard(setm)
    if k == "fallback":
        def setf():
            c.fallback_config = None if o["fallback"] is None else build(o["fallback"], workdir, counter)
        return guard(setf)
    if k == "vars":
        return guard(lambda: c.update_vars(dict(o["vars"])))
    if k == "clear_vars":
        return guard(c.clear_vars)
    if k == "clear":
        return guard(c.clear)
    raise ValueError(k)


def view_entry(c, sn, key):
    if sn in c.section_names and key in c[sn]:
        return c[sn][key]
    return None


def ask(c, q, workdir, counter):
    from midgard.config.config import Configuration
    k = q["q"]
    if k == "get":
        def g():
            e = c.get(q["key"], value=q["value"], section=q["section"], default=q["default"])
            return (e.str, e.source)
        return guard(g)
    if k == "exists":
        return guard(lambda: bool(c.exists(q["key"], section=q["section"])))
    if k == "sources":
        return ("ok", sorted(c.sources))
    if k == "layout":
        return ("ok", [(s.name, list(s.keys())) for s in c.sections])
    if k == "typed":
        e = view_entry(c, q["section"], q["key"])
        if e is None:
            return ("err", "ErrEntry")
        if q.get("mutate"):
            # the caller changes the list a first look-up returned; a second look-up (by another access path) must still
            # give the split of the stored text: accessors do not hand out shared mutable state
            first = e.list
            if q["mutate"] == "append":
                first.append("INTRUDER")
            elif q["mutate"] == "remove":
                if first:
                    del first[0]
            elif q["mutate"] == "sort":
                first.sort(reverse=True)
            elif q["mutate"] == "clear":
                first.clear()
            first_t = e.dict
            first_t["INTRUDER"] = "x"
            via = q.get("via", "attr")
            if via == "get":
                e = c.get(q["key"], section=q["section"])
            elif via == "profiles":
                c.profiles = list(c.profiles)          # same priorities: the view is rebuilt from the same entries
                e = view_entry(c, q["section"], q["key"])
            else:
                e = getattr(getattr(c, q["section"]), q["key"]) if q["key"].isidentifier() else c[q["section"]][q["key"]]
        return ("ok", dict(str=e.str, list=list(e.list), tuple=list(e.tuple), as_list=list(e.as_list()),
                           dict=list(e.dict.items()), as_dict=guard(lambda: list(e.as_dict().items())),
                           bool=guard(lambda: e.bool), int=guard(lambda: e.int), float=guard(lambda: e.float)))
    if k == "replaced":
        e = view_entry(c, q["section"], q["key"])
        if e is None:
            return ("err", "ErrEntry")
        return guard(lambda: e.replace(q["default"], **dict(q["extra"])).str)
    if k == "as_str":
        return guard(lambda: c.as_str(width=q["width"], metadata=q["metadata"]))
    if k == "readback":
        counter[0] += 1
        path = os.path.join(workdir, f"w{counter[0]}.conf")

        def rb():
            c.write_to_file(path, width=q["width"])
            d = Configuration("readback")
            d.update_from_file(path, case_sensitive=q["case_sensitive"])
            return [(s.name, [(kk, e.str, dict(e.meta)) for kk, e in s.items()]) for s in d.sections]
        r = guard(rb)
        try:
            os.remove(path)
        except OSError:
            pass
        return r
    raise ValueError(k)


def execute(case, workdir, counter):
    """Run one case on midgard; fills case['outcomes'] / case['answers']."""
    from midgard.config.config import Configuration
    c = Configuration(case["name"])
    case["outcomes"] = [apply_op(c, o, workdir, counter) for o in case["ops"]]
    case["answers"] = [ask(c, q, workdir, counter) for q in case["queries"]]
    for o in case["ops"]:
        if o["op"] == "file":
            try:
                os.remove(o["path"])
            except OSError:
                pass
    return case


# ----------------------------------------------------------------------------- generators
WORDS = ["alpha", "Beta", "gnss", "x", "vlbi", "ON", "sa", "k1"]


def gen_value(rng, simple=False):
    kind = rng.choice(["word", "word", "number", "list", "path", "var", "bool", "dict", "empty", "spaced", "hyph", "long"]
                      if not simple else ["word", "number", "list", "path", "var", "bool"])
    if kind == "word":
        return rng.choice(WORDS)
    if kind == "number":
        return rng.choice(["0", "1", "42", "-7", "+3", "1_000", "3.14", "007", "12e3", "1__0", "_1", "5_", "1.", ".5", "-.5e-3",
                           "1e-3", "1_0.2_5", "inf", "-Infinity", "nan", "+NaN", "1e", "e5", ".", "0x10", "1 2", "1._5", "1_.5",
                           "6.02214076E+23", "-0.0", "2.5e-300", "123456789012345678901234567890", "0.1", "1e+0_2", " 7.25 ",
                           "9007199254740993", "1.7976931348623157e308", "4.9e-324", "infinit", "- 1"])
    if kind == "list":
        n = rng.randrange(1, 5)
        sep = rng.choice([", ", ",", " ", " , ", ",,", "  "])
        return sep.join(rng.choice(WORDS + ["1", "2"]) for _ in range(n))
    if kind == "path":
        return rng.choice(["/data/{yyyy}/file.txt", "~/midgard/{station}.snx", "/tmp/a b/c.conf", "{path_root}/x/{doy:>5}.obs",
                           "rel/dir/"])
    if kind == "var":
        return rng.choice(["{yyyy}", "{yyyy}-{doy}", "{unknown}", "{station:>8}", "{station:<6}|", "{unknown:>12}", "{doy:^7}",
                           "{unknown:5}", "{nested}", "{{yyyy}}", "{a.b} {yyyy!r} {}", "{unknown:%Y}", "{yyyy:d}", "{yyyy:}",
                           "x{doy}{doy}y", "{loop}"])
    if kind == "bool":
        return rng.choice(["True", "false", "YES", "no", "On", "off", "0", "1", "maybe", " true", "2"])
    if kind == "dict":
        return rng.choice(["a:1, b:2", "a:1 a:2 c", "k:v:w, :x", "gps:G glonass:R", "a:1,b"])
    if kind == "empty":
        return ""
    if kind == "spaced":
        return rng.choice([" 12 ", "a  b", "x ", " lead", "tab\there", "-5 "])
    if kind == "hyph":
        return gen_long_value(rng, rng.randrange(1, 5))
    if kind == "long":
        return gen_long_value(rng, rng.choice([6, 10, 16, 25, 40]))
    raise ValueError(kind)


HYPH_WORDS = ["north-east-by-north", "ny-alesund-07", "2020-01-01", "2018-12-28/2019-01-15", "/data/obs-archive/rinex-v3/site-004.rnx",
              "a-b", "x-", "-y", "well--known", "e-mail", "1-2-3-4-5-6-7-8-9", "plain", "{station}-{doy}", "gps:L1-C/A"]


def gen_long_value(rng, n):
    """Values whose `key = value` line exceeds the wrap widths, with hyphenated words (dates, paths, names) falling on the
    wrap limit: textwrap must break neither inside words nor after hyphens (break_long_words/break_on_hyphens=False)."""
    r = rng.random()
    if r < 0.15:       # one over-long word
        return "-".join(rng.choice(["segment", "x", "2020", "obs"]) for _ in range(n * 3))
    lead = "x" * rng.randrange(0, 24)     # shifts the wrap position through the words
    sep = rng.choice([" ", " ", ", ", ","]) if r < 0.8 else " "
    words = [rng.choice(HYPH_WORDS) for _ in range(n)] if r < 0.6 else [rng.choice(HYPH_WORDS)] * n
    if rng.random() < 0.04:        # class of the open finding c19_comment_continuation_lost (the corpus has it on every run)
        words[rng.randrange(len(words))] = rng.choice(["#tag", ";note"])
    return ((lead + " ") if lead else "") + sep.join(words)


def textform_case(rng, i):
    """A configuration of mostly long / hyphenated values; as_str at every width and the write -> read round trip."""
    ops = []
    for j in range(rng.randrange(2, 6)):
        ops.append(dict(op="update", section=rng.choice(SECS), key=rng.choice(KEYS + ["log-dir", "a_key_name_of_more_than_thirty_chars"]),
                        value=gen_long_value(rng, rng.choice([1, 3, 6, 10, 16, 25, 40])), profile=None, source="s",
                        meta=rng.choice([None, None, {"help": gen_long_value(rng, rng.choice([3, 12, 30])), "type": "List[str]"}]),
                        allow_new=True))
    qs = [dict(q="layout")]
    for w in (200, 60, 45):
        qs.append(dict(q="as_str", width=w, metadata=(i + w) % 3 != 0))
    qs.append(dict(q="readback", width=200, case_sensitive=True))
    qs.append(dict(q="readback", width=rng.choice([50, 60, 80, 120]), case_sensitive=False))
    for o in ops[:2]:
        qs.append(dict(q="typed", section=o["section"], key=o["key"]))
    return dict(name="cfg", ops=ops, queries=qs)


VARS_POOL = [("yyyy", "2021"), ("doy", "032"), ("station", "zimm"), ("path_root", "/mnt/{yyyy}"), ("nested", "<{station}/{doy}>"),
             ("loop", "{loop}"), ("yyyy", "1999")]


def gen_meta(rng):
    r = rng.random()
    if r < 0.7:
        return None
    if r < 0.8:
        return {"type": "int"}
    if r < 0.9:
        return {"help": "some help text", "type": "str"}
    return {"help": None, "unit": "meter"}


def gen_update(rng, allow_new_p=0.9, extra_keys=True):
    sec = rng.choice(SECS)
    key = rng.choice(KEYS + (["sa", "Key"] if extra_keys and rng.random() < 0.15 else []))
    return dict(op="update", section=sec, key=key, value=gen_value(rng), profile=rng.choice([None, None] + PROFS),
                source=rng.choice(["unknown", "test", "command line", ""]), meta=gen_meta(rng),
                allow_new=rng.random() < allow_new_p)


def gen_profiles(rng):
    r = rng.random()
    if r < 0.12:
        return None
    n = rng.randrange(1, 4)
    ps = [rng.choice(PROFS + ["p4"]) for _ in range(n)]
    if rng.random() < 0.15:
        ps.insert(rng.randrange(0, len(ps) + 1), None)
    return ps


def gen_ini(rng):
    """INI text inside the modelled grammar (plus a few malformed ones)."""
    lines = []
    secs = []
    r = rng.random()
    if r < 0.15:
        lines += ["[__replace__]", "yyyy = 2020", "who = {station}", ""]
    if r > 0.85:
        lines += ["[__vars__]", "station = osls", "doy = 001", "novalue", ""]
    for _ in range(rng.randrange(1, 4)):
        sn = rng.choice(SECS)
        if rng.random() < 0.4:
            sn += "__" + rng.choice(PROFS)
        if sn in secs and rng.random() < 0.8:
            continue
        secs.append(sn)
        lines.append(f"[{sn}]")
        used = []
        for _ in range(rng.randrange(0, 4)):
            key = rng.choice(KEYS + ["Key", "k{yyyy}"])
            if key in used and rng.random() < 0.85:
                continue
            used.append(key)
            v = gen_value(rng).replace("\t", " ").replace("%Y", "^9")   # '%' = configparser interpolation: outside the model
            style = rng.random()
            if style < 0.6:
                lines.append(f"{key:<12} = {v}")
            elif style < 0.75:
                lines.append(f"{key}={v}")
            elif style < 0.85:
                lines.append(f"{key} = {v}")
                lines.append(f"    more {rng.choice(WORDS)}")
                if rng.random() < 0.3:
                    lines.append("    # a comment inside")
                    lines.append("    last")
            elif style < 0.92:
                lines.append(key)
            else:
                lines.append(f"{key} = a = b")
            if rng.random() < 0.25:
                lines.append(f"{key}:type = str")
            if rng.random() < 0.15:
                lines.append(f"{key}:help")
            if rng.random() < 0.2:
                lines.append("")
            if rng.random() < 0.1:
                lines.append("# comment")
            if rng.random() < 0.05:
                lines.append("; comment")
    if rng.random() < 0.04:
        lines.insert(0, "k1 = no header")
    if rng.random() < 0.04:
        lines.append("= novalue")
    return "\n".join(lines) + ("\n" if rng.random() < 0.8 else "")


def gen_fallback(rng, depth=0):
    ops = []
    for _ in range(rng.randrange(0, 5)):
        u = gen_update(rng, allow_new_p=1.1)
        ops.append(u)
    if rng.random() < 0.5:
        ops.append(dict(op="master", master=rng.choice(SECS)))
    if rng.random() < 0.3:
        ops.append(dict(op="profiles", profiles=[rng.choice(PROFS)]))
    if depth == 0 and rng.random() < 0.2:
        ops.append(dict(op="fallback", fallback=gen_fallback(rng, 1)))
    return dict(name="fb" + str(depth), ops=ops)


def gen_op(rng, workdir, counter):
    r = rng.random()
    if r < 0.45:
        return gen_update(rng)
    if r < 0.60:
        return dict(op="profiles", profiles=gen_profiles(rng))
    if r < 0.68:
        items = [(rng.choice(KEYS + ["new"]), gen_value(rng)) for _ in range(rng.randrange(0, 4))]
        items = list(dict(items).items())
        return dict(op="dict", section=rng.choice(SECS + [None]), items=items, source=rng.choice(["dictionary", "d"]),
                    allow_new=rng.random() < 0.6)
    if r < 0.76:
        opts = []
        for _ in range(rng.randrange(0, 4)):
            form = rng.random()
            sec, key, val = rng.choice(SECS), rng.choice(KEYS + ["new"]), gen_value(rng, simple=True)
            if form < 0.4:
                opts.append(f"--{sec}:{key}={val}")
            elif form < 0.6:
                opts.append(f"--{key}={val}")
            elif form < 0.75:
                opts.append(f"--{rng.choice(['cfg', 'other'])}:{sec}:{key}={val}")
            elif form < 0.85:
                opts.append(f"--{sec}:{key}")
            elif form < 0.93:
                opts.append(f"-{key}={val}")
            else:
                opts.append(f"--{sec}:{key}=a=b:c")
        return dict(op="options", options=opts, profile=rng.choice([None, None, "p1"]), source="command line",
                    allow_new=rng.random() < 0.4)
    if r < 0.84:
        counter[0] += 1
        return dict(op="file", text=gen_ini(rng), path=os.path.join(workdir, f"in{counter[0]}.conf"),
                    allow_new=rng.random() < 0.8, case_sensitive=rng.random() < 0.4)
    if r < 0.90:
        return dict(op="master", master=rng.choice(SECS + [None, "nosuch"]))
    if r < 0.95:
        return dict(op="fallback", fallback=(None if rng.random() < 0.15 else gen_fallback(rng)))
    if r < 0.975:
        return dict(op="vars", vars=rng.sample(VARS_POOL, rng.randrange(1, 4)))
    if r < 0.99:
        return dict(op="clear_vars")
    return dict(op="clear")


def std_queries(rng, rich=True):
    qs = [dict(q="layout"), dict(q="sources")]
    for s in SECS:
        for k in KEYS:
            qs.append(dict(q="get", key=k, value=None, section=s, default=None))
    qs.append(dict(q="get", key="k1", value=None, section=None, default=None))
    qs.append(dict(q="get", key=rng.choice(KEYS), value=None, section=rng.choice(SECS * 3 + ["nosuch"] * 2 + ["k1"]), default="dflt"))
    qs.append(dict(q="exists", key=rng.choice(KEYS), section=rng.choice(SECS + [None, "nosuch", "k1"])))
    if rich:
        qs.append(dict(q="get", key=rng.choice(KEYS), value="override", section=rng.choice(SECS + [None]), default=rng.choice([None, "d"])))
        qs.append(dict(q="get", key=rng.choice(KEYS + ["zz"]), value=None, section=None, default=rng.choice([None, "d"])))
        for _ in range(3):
            tq = dict(q="typed", section=rng.choice(SECS), key=rng.choice(KEYS))
            if rng.random() < 0.4:
                tq.update(mutate=rng.choice(["append", "remove", "sort", "clear"]), via=rng.choice(["attr", "get", "profiles"]))
            qs.append(tq)
        for _ in range(2):
            qs.append(dict(q="replaced", section=rng.choice(SECS), key=rng.choice(KEYS), default=rng.choice([None, None, "DEF"]),
                           extra=(rng.sample(VARS_POOL, 1) if rng.random() < 0.3 else [])))
        qs.append(dict(q="as_str", width=rng.choice([200, 200, 60, 45]), metadata=rng.random() < 0.7))
        qs.append(dict(q="readback", width=rng.choice([200, 200, 200, 50]), case_sensitive=rng.random() < 0.5))
    return qs


def textform_ok(case):
    """The text-form queries are inside the model only when no stored value/meta contains whitespace other than the
    blank (textwrap expands tabs) or a '%' (configparser interpolation); checked on the inputs of the case."""
    def bad(s):
        return s is not None and any((c.isspace() and c != " ") or c == "%" for c in s)
    for o in case["ops"]:
        if o["op"] == "update" and (bad(o["value"]) or any(bad(v) for v in (o["meta"] or {}).values())):
            return False
        if o["op"] == "dict" and any(bad(v) for _, v in o["items"]):
            return False
        if o["op"] == "options" and any(bad(x) for x in o["options"]):
            return False
        if o["op"] == "file" and ("%" in o["text"] or "\t" in o["text"]):
            return False
    return True


VAR_ALPHABET = [
    dict(op="update", section="sa", key="k1", value="{yyyy}/{doy}", profile=None, source="s", meta=None, allow_new=True),
    dict(op="update", section="sa", key="k2", value="{station}-{yyyy}:{nested}", profile=None, source="s", meta=None, allow_new=True),
    dict(op="vars", vars=[("yyyy", "2021"), ("doy", "032")]),
    dict(op="vars", vars=[("station", "zimm"), ("yyyy", "1999"), ("nested", "<{doy}>")]),
    dict(op="clear_vars"),
    dict(op="clear"),
]
VAR_QUERIES = [
    dict(q="layout"),
    dict(q="replaced", section="sa", key="k1", default=None, extra=[]),
    dict(q="replaced", section="sa", key="k2", default=None, extra=[]),
    dict(q="replaced", section="sa", key="k1", default="DEF", extra=[]),
    dict(q="replaced", section="sa", key="k2", default=None, extra=[("doy", "365")]),
    dict(q="get", key="k1", value=None, section="sa", default="dflt"),
]


def var_case(idx):
    """Entries and variables interleaved: replacement uses the variables known at the time of the call, whatever the
    time the entry was created (update / update_vars / clear_vars / clear in every order)."""
    return dict(name="cfg", ops=[dict(VAR_ALPHABET[i]) for i in idx], queries=[dict(q) for q in VAR_QUERIES])


def canon_sequences(length):
    """All sequences of `length` operations over the alphabet  update(section, key, profile) / profiles = ordered
    subset, up to renaming of sections, keys and profiles (names are used in order of first appearance)."""
    alpha = [("U", s, k, p) for s in SECS for k in KEYS for p in [None] + PROFS]
    for n in range(0, 4):
        for sub in itertools.permutations(PROFS, n):
            alpha.append(("P", tuple(sub)))

    def fresh(m, x, names):
        if x not in m:
            m[x] = names[len(m)]
        return m[x]

    def is_canon(seq):
        ms, mk, mp = {}, {}, {}
        for o in seq:
            if o[0] == "U":
                if fresh(ms, o[1], SECS) != o[1] or fresh(mk, o[2], KEYS) != o[2]:
                    return False
                if o[3] is not None and fresh(mp, o[3], PROFS) != o[3]:
                    return False
            else:
                for x in o[1]:
                    if fresh(mp, x, PROFS) != x:
                        return False
        return True

    out = []

    def rec(prefix):
        if len(prefix) == length:
            out.append(prefix)
            return
        for o in alpha:
            s = prefix + (o,)
            if is_canon(s):
                rec(s)
    rec(())
    return out


def seq_case(seq, variant, rng):
    """A bounded-exhaustive sequence as a case; variant: 0 plain, 1 master section, 2 fallback, 3 both."""
    ops = []
    if variant in (2, 3):
        ops.append(dict(op="fallback", fallback=dict(name="fb", ops=[
            dict(op="update", section="sa", key="k1", value="fb-sa-k1", profile=None, source="fbsrc", meta=None, allow_new=True),
            dict(op="update", section="sa", key="k3", value="fb-sa-k3", profile="p2", source="fbsrc", meta=None, allow_new=True),
            dict(op="profiles", profiles=["p2"]),
            dict(op="master", master="sa")])))
    if variant in (1, 3):
        ops.append(dict(op="master", master="sa"))
    for i, o in enumerate(seq):
        if o[0] == "U":
            ops.append(dict(op="update", section=o[1], key=o[2], value=f"v{i}", profile=o[3], source="s", meta=None, allow_new=True))
        else:
            ops.append(dict(op="profiles", profiles=(None if not o[1] else list(o[1]))))
    return dict(name="cfg", ops=ops, queries=std_queries(rng, rich=False))


# ----------------------------------------------------------------------------- the run
CORPUS = [
    # stale view after a failed batch
    dict(name="cfg", ops=[
        dict(op="update", section="sa", key="k1", value="old", profile=None, source="s", meta=None, allow_new=True),
        dict(op="dict", section="sa", items=[("k1", "new"), ("zz", "2")], source="dictionary", allow_new=False)]),
    # fallback lacks the section, default given
    dict(name="cfg", ops=[
        dict(op="fallback", fallback=dict(name="fb", ops=[
            dict(op="update", section="sb", key="k1", value="f", profile=None, source="s", meta=None, allow_new=True)]))]),
    # section name that is a key of the master section
    dict(name="cfg", ops=[
        dict(op="update", section="sa", key="k1", value="bar", profile=None, source="s", meta=None, allow_new=True),
        dict(op="master", master="sa")]),
    # unknown variable with a format specifier
    dict(name="cfg", ops=[
        dict(op="update", section="sa", key="k1", value="{unknown:>12}", profile=None, source="s", meta=None, allow_new=True),
        dict(op="update", section="sa", key="k2", value="{unknown:%Y}", profile=None, source="s", meta=None, allow_new=True)]),
]
CORPUS += [
    # entry, update_vars, clear_vars, update_vars: replacement must use the variables known now
    dict(name="cfg", ops=[dict(VAR_ALPHABET[0]), dict(VAR_ALPHABET[2]), dict(VAR_ALPHABET[4]), dict(VAR_ALPHABET[3]), dict(VAR_ALPHABET[1])]),
    # clear() then an update: the cleared entry must not come back
    dict(name="cfg", ops=[dict(VAR_ALPHABET[0]), dict(VAR_ALPHABET[5]), dict(VAR_ALPHABET[1])]),
]
def comment_cont_case():
    """Words starting with '#' / ';' placed so that they start a continuation line at the widths 200, 60 and 45, in entry
    values and in a metadata value (open finding c19_comment_continuation_lost)."""
    ops = []
    for i, w in enumerate((200, 60, 45)):
        first = "x" * (w - 33 - 3)            # fills the first line; the next word goes to a continuation line
        ops.append(dict(op="update", section="sa", key=f"k{i + 1}", value=f"{first} #second-word and more", profile=None,
                        source="s", meta=({"help": f"{first} ;semicolon word and more"} if i == 0 else None), allow_new=True))
    qs = [dict(q="layout")]
    for w in (200, 60, 45):
        qs.append(dict(q="as_str", width=w, metadata=True))
        qs.append(dict(q="readback", width=w, case_sensitive=True))
    return dict(name="cfg", ops=ops, queries=qs)


def alias_case():
    """look up .list, change the returned list in place, look up .list/.tuple/.dict again by another access path: the second
    look-up equals the split of the stored text (same model answer as a plain typed query)."""
    ops = [dict(op="update", section="sa", key="k1", value="gps:G, glonass:R galileo:E", profile=None, source="s", meta=None, allow_new=True),
           dict(op="update", section="sa", key="k2", value="zimm osls, tro1", profile="p1", source="s", meta=None, allow_new=True),
           dict(op="profiles", profiles=["p1"])]
    qs = []
    for key in ("k1", "k2"):
        for mutate in ("append", "remove", "sort", "clear"):
            for via in ("attr", "get", "profiles"):
                qs.append(dict(q="typed", section="sa", key=key, mutate=mutate, via=via))
    return dict(name="cfg", ops=ops, queries=qs)


def hyphen_case():
    """long values whose hyphenated words (letters-hyphen-letters) straddle the wrap column at the widths 200, 60 and 45, with
    the hyphens at different distances from the column; as_str and write -> read at each width (textwrap must not break
    after a hyphen: break_on_hyphens=False)."""
    ops = []
    n = 0
    for w in (200, 60, 45):
        for back in (2, 5, 9, 14):
            n += 1
            first = "x" * max(1, w - 33 - back)
            ops.append(dict(op="update", section=("sa" if n % 2 else "sb"), key=f"key_{n:02d}",
                            value=f"{first} cross-check_{n:02d} north-east-by-north alpha-beta-gamma-delta 2020-01-01/2020-12-31 end",
                            profile=None, source="s",
                            meta=({"help": f"{first} well-known e-mail re-read co-operate"} if back == 5 else None), allow_new=True))
    qs = [dict(q="layout")]
    for w in (200, 60, 45):
        qs.append(dict(q="as_str", width=w, metadata=True))
        qs.append(dict(q="readback", width=w, case_sensitive=True))
    return dict(name="cfg", ops=ops, queries=qs)


CORPUS.insert(0, hyphen_case())
CORPUS.insert(0, alias_case())
CORPUS.append(comment_cont_case())
CORPUS_QUERIES = [
    dict(q="layout"), dict(q="get", key="k1", value=None, section="sa", default=None),
    dict(q="get", key="k1", value=None, section="sa", default="dflt"),
    dict(q="get", key="k2", value=None, section="k1", default="dflt"),
    dict(q="replaced", section="sa", key="k1", default=None, extra=[]),
    dict(q="replaced", section="sa", key="k2", default=None, extra=[]),
    dict(q="readback", width=200, case_sensitive=False),
]


def run(ctx):
    regen(ctx)
    ok = ctx.prove(THEOREMS)
    rng = ctx.rng
    counter = [0]
    cases = []
    outside = []
    n_samples = [0]

    def add(case, kind):
        case["kind"] = kind
        if not textform_ok(case):
            case["queries"] = [q for q in case["queries"] if q["q"] not in ("as_str", "readback")]
            ctx.count("textform:skipped")
        try:
            execute(case, ctx.work, counter)
        except Outside as e:
            outside.append(dict(kind=kind, ops=case["ops"], what=str(e)))
            return
        cases.append(case)
        ctx.count(f"kind:{kind}")
        for o, r in zip(case["ops"], case["outcomes"]):
            ctx.count(f"op:{o['op']}:{r[0] if r[0] == 'ok' else r[1]}")
        for q, a in zip(case["queries"], case["answers"]):
            ctx.count(f"query:{q['q']}:{a[0] if a[0] == 'ok' else a[1]}")
        want_sample = (kind.startswith("exhaustive3") and n_samples[0] < 2) or (kind == "random" and n_samples[0] < 5
                                                                                and 2 <= len(case["ops"]) <= 5)
        sample = None
        if want_sample:
            n_samples[0] += 1
            sample = dict(kind=kind, operations=case["ops"], outcomes=case["outcomes"],
                          queries=case["queries"][:12], observed=case["answers"][:12])
        ctx.case(json.dumps([case["ops"], case["queries"]], sort_keys=True, default=str),
                 nontrivial=len(case["ops"]) >= 2, sample=sample)

    # ---- corpus of earlier failures first
    for c in CORPUS:
        add(dict(name=c["name"], ops=[dict(o) for o in c["ops"]],
                 queries=[dict(q) for q in c.get("queries", CORPUS_QUERIES)]), "corpus")

    # ---- A. bounded-exhaustive sequences (canonical up to renaming)
    scale = float(os.environ.get("VERIF_C19_SCALE", "1"))      # development knob (mutant runs); 1 in normal use
    full_len = 3 if ctx.quick() else 4
    if scale < 1:
        full_len = 2
    n_exh = 0
    for length in range(0, full_len + 1):
        for seq in canon_sequences(length):
            add(seq_case(seq, rng.randrange(0, 4), rng), f"exhaustive{length}")
            n_exh += 1
    nxt = canon_sequences(full_len + 1) if ctx.quick() else None
    n_sample = int(scale * (200 if ctx.quick() else 4000))
    if nxt is not None:
        for seq in rng.sample(nxt, min(n_sample, len(nxt))):
            add(seq_case(seq, rng.randrange(0, 4), rng), f"sampled{full_len + 1}")
    else:
        alpha_len5 = canon_sequences(4)
        for seq in rng.sample(alpha_len5, n_sample):
            # extend a canonical length-4 sequence by one arbitrary operation (names already introduced or next fresh)
            ext = rng.choice([("U", rng.choice(SECS), rng.choice(KEYS), rng.choice([None] + PROFS)),
                              ("P", tuple(rng.sample(PROFS, rng.randrange(0, 4))))])
            add(seq_case(seq + (ext,), rng.randrange(0, 4), rng), "sampled5")

    # ---- V. variables as state: every sequence over {2 entries, 2 update_vars, clear_vars, clear}
    var_len = 2 if scale < 1 else (3 if ctx.quick() else 5)
    for length in range(1, var_len + 1):
        for idx in itertools.product(range(len(VAR_ALPHABET)), repeat=length):
            add(var_case(idx), f"vars{length}")
    for _ in range(int(scale * (120 if ctx.quick() else 0))):
        add(var_case([rng.randrange(len(VAR_ALPHABET)) for _ in range(rng.choice([4, 4, 5, 6]))]), "vars-sampled")

    # ---- T. text form: long values with hyphenated words on the wrap limit
    for i in range(int(scale * (110 if ctx.quick() else 1200))):
        add(textform_case(rng, i), "textform")

    # ---- B. random sequences up to length 30 over all operations
    n_rand = int(scale * (300 if ctx.quick() else 4000))
    for i in range(n_rand):
        n = rng.choice([1, 2, 3, 4, 5, 6, 8, 10, 12, 16, 20, 30])
        ops = [gen_op(rng, ctx.work, counter) for _ in range(n)]
        add(dict(name="cfg", ops=ops, queries=std_queries(rng, rich=True)), "random")

    ctx.log(f"cases: {len(cases)} (exhaustive {n_exh}), outside the model: {len(outside)}")
    terms = [t_case(c) for c in cases]
    # spread the (heavier) long random cases evenly over the shards
    size = 120 if ctx.quick() else 250

    def evaluate(fn, idx, size):
        """verdicts of check function `fn` for the cases idx (None if a shard failed)"""
        nsh = max(1, -(-len(idx) // size))
        order = sorted(range(len(idx)), key=lambda j: (j % nsh, j))
        vs = ctx.coq_cases(emit.shard_terms(fn, [terms[idx[j]] for j in order], size), REQ)
        flat_o = emit.flatten_verdicts(vs, len(idx))
        if flat_o is None:
            return None
        out = [0] * len(idx)
        for pos, j in enumerate(order):
            out[j] = flat_o[pos]
        return out

    # pass 1: equal to the specification?  pass 2 (differing cases only): which known deviations explain it?
    flat = evaluate("check_plain", list(range(len(cases))), size)
    if flat is not None:
        differing = [i for i, v in enumerate(flat) if v != 0]
        ctx.log(f"cases differing from the specification: {len(differing)}")
        todo, done_unexplained = differing, False
        while todo and not done_unexplained:
            batch, todo = todo[:96], todo[96:]
            vb = evaluate("check_case", batch, 6)
            if vb is None:
                flat = None
                break
            for i, v in zip(batch, vb):
                flat[i] = v
            done_unexplained = any(v == 1 for v in vb)
        for i in todo:                       # not classified any more: an unexplained case has already been found
            flat[i] = 1

    # ---------------------------------------------------------------- decide
    if flat is None:
        ctx.violation({"broken": "correspondence shard did not evaluate in Coq", "errors": ctx.last_coq_errors[:2]},
                      what="correspondence (model evaluation) failed", found=False)
    else:
        reported = 0
        for v, case in zip(flat, cases):
            ctx.count(f"verdict:{v}")
            if v == 0:
                continue
            rep = replay_of(case)
            if v >= 100:
                mask = v - 100
                for bit, (fid, what) in QUIRKS.items():
                    if mask & bit:
                        ctx.count(f"quirk:{fid}")
                        ctx.finding(fid, what, dict(rep, deviation=fid))
            elif len(ctx.violations) < 12:
                if reported < 3:
                    rep["first_difference_(op_index,query_index)"] = ctx.coq_eval(REQ, f"first_diff {t_case(case)}")
                    reported += 1
                ctx.violation(rep, what="midgard's Configuration differs from the model (and from the model with any "
                                        "combination of the known deviations)")
    for rep in outside[:5]:
        ctx.violation(rep, what=f"outside the model: {rep['what']}")

    if not ok and not ctx.violations:
        ctx.obligations_broken(lambda: search_failing_input(ctx))
    ctx.trusted += [
        "Coq 8.16.1 kernel, coqc, vm_compute (no native_compute)",
        "hand-written model coq/theories/Model/C19_Config.v (validated against midgard.config.config by this run's correspondence)",
        "coq/theories/Gen/C19_BoolStates.v regenerated from ConfigurationEntry._BOOLEAN_STATES by reflection",
        "harness/drivers/c19.py (generators, call of the implementation, term emission)",
    ]
    ctx.assume += [
        "strings are ASCII; profile lists given to the setter are non-empty (an empty list raises IndexError in the setter)",
        "values in text-form checks contain no tab/newline and no '%' (textwrap tab expansion and configparser "
        "BasicInterpolation are outside the model)",
        "replacement variable names are identifiers (a purely numeric name makes str.format raise IndexError)",
        "a fallback configuration is not modified after it has been attached",
    ]
    return ctx.finish(
        level="proof",
        rule=("bounded-exhaustive: every sequence of update(section,key,profile)/profiles=ordered-subset operations up to "
              f"length {full_len} over 2 sections x 3 keys x 3 profiles modulo renaming (canonical first-appearance order), "
              f"plus a random sample of length {full_len + 1}; each with a random choice of master section / fallback; "
              "random sequences of 1..30 operations over update/update_from_dict/_options/_file/profiles/master/fallback/"
              "vars with values from a grammar (words, numbers, lists, paths, {var} references, booleans, dicts). Per case: "
              "layout, sources, get for all 6 (section,key) + master/default/override variants, exists, typed accessors, "
              "replace, as_str, write_to_file + read back. distinct_nontrivial = distinct cases with >= 2 operations"),
    )


def replay_of(case):
    return dict(kind=case["kind"], name=case["name"], operations=case["ops"],
                outcomes=case["outcomes"], queries=case["queries"], observed=case["answers"],
                how="/venv/bin/python run_check.py C19 replay <this file>")


def search_failing_input(ctx):
    """Property oracle stated directly on observables, used when a theorem no longer checks (e.g. the regenerated
    boolean table changed): the eight documented spellings, in any letter case."""
    from midgard.config.config import ConfigurationEntry
    want = {"0": False, "1": True, "false": False, "true": True, "no": False, "yes": True, "off": False, "on": True}
    for k, v in want.items():
        for sp in (k, k.upper(), k.capitalize()):
            try:
                got = ConfigurationEntry("k", sp).bool
            except Exception as e:  # noqa: BLE001
                got = f"{type(e).__name__}"
            if got != v:
                return dict(what=f"ConfigurationEntry('k', {sp!r}).bool = {got!r}, documented {v!r}", value=sp, observed=str(got))
    for sp in ("2", "ja", "y", "t", "enable"):
        try:
            got = ConfigurationEntry("k", sp).bool
        except ValueError:
            continue
        return dict(what=f"ConfigurationEntry('k', {sp!r}).bool = {got!r}; only the eight spellings are booleans",
                    value=sp, observed=str(got))
    return None


def replay(ctx, path):
    rep = json.load(open(path))
    print(json.dumps({k: rep[k] for k in rep if k not in ("observed",)}, indent=1)[:6000])
    if "operations" in rep:
        case = dict(name=rep["name"], ops=rep["operations"], queries=rep["queries"], kind=rep.get("kind", "replay"))
        for o in case["ops"]:
            if o["op"] == "file":
                o["path"] = os.path.join(ctx.work, os.path.basename(o["path"]))
        execute(case, ctx.work, [0])
        print("observed now :", json.dumps(case["answers"], default=str)[:4000])
        print("outcomes now :", case["outcomes"])
        print("model verdict:", ctx.coq_eval(REQ, f"check_case {t_case(case)}"))
        print("first difference (op index, query index; -1 = none):", ctx.coq_eval(REQ, f"first_diff {t_case(case)}"))
    return 0
