"""C18 - site-information history lookup (DESIGN 4.18).

Proof obligations: coq/theories/Props/C18.v (model: Model/C18_History.v).
Correspondence: random histories / station lists / repeated queries run on the real
midgard.site_info classes; the comparison with the model is evaluated inside Coq."""
from __future__ import annotations

import copy
import os
from datetime import datetime, timedelta

from harness import core, emit

META = {
    "property_id": "C18",
    "level": "proof",
    "design_ref": "DESIGN.md 4.18",
    "technique": "Coq proof (induction over histories, all dates) on a hand model + vm_compute correspondence with midgard.site_info",
    "level_text": (
        "Theorems in Coq 8.16 over an executable model of SiteInfoHistoryBase.get / *_create_history / "
        "ModuleBase.get / SiteInfo.get: soundness, completeness, gaps, uniqueness and order independence for "
        "every history and every date, 'last' = greatest (start,end) key, open ends = infinities, station "
        "text/list/one-shot-iterable/case equivalence, combined query = module columns for any form of the station argument "
        "(get and get_history), purity of repeated queries.  The model is tied to the code on every run by "
        "a correspondence check: random histories, boundary dates, station spellings and repeated queries are run "
        "on midgard and compared with the model inside Coq (vm_compute)."),
    "level_note": (
        "Trusted: Coq kernel + vm_compute; the hand-written model (Model/C18_History.v) is validated, not derived; "
        "datetime.min/max are modelled as infinities (dates equal to datetime.max are outside the domain); "
        "the m3g (network) sources are not modelled; Python dict ordering semantics modelled by association lists."),
}

THEOREMS = [
    "get_sound", "get_complete", "get_none_in_gaps", "get_unique", "get_order_independent",
    "half_open_boundaries", "open_ends_are_infinite", "last_is_latest_start", "last_defined_on_nonempty",
    "history_from_records", "station_forms_equal", "station_case_irrelevant", "combined_forms_equal",
    "combined_equals_modules", "iterable_forms_equal", "combined_any_form_equals_modules",
    "combined_history_equals_modules", "get_is_lookup_in_history", "query_pure", "c18_pop_refuted",
]

REQ = "From Verif Require Import Model.C18_History."
T0 = datetime(2000, 1, 1)


def us(dt):
    """datetime -> integer microseconds since T0 (exact)."""
    d = dt - T0
    return (d.days * 86400 + d.seconds) * 1000000 + d.microseconds


def dt_of(u):
    return T0 + timedelta(microseconds=u)


# ----------------------------------------------------------------------------- generators
def gen_intervals(rng):
    """list of (start|None, end|None) in integer seconds relative to T0, insertion order randomised."""
    n = rng.choice([0, 1, 1, 2, 2, 3, 3, 4, 5, 6, 8])
    kind = rng.choice(["contiguous", "gapped", "mixed", "overlap", "dup"])
    t = rng.randrange(0, 400) * 86400 + rng.choice([0, 0, 3600, 30, 86399])
    ivs = []
    for k in range(n):
        length = rng.choice([1, 2, 60, 3600, 86400, 86400 * 30, 86400 * 365])
        s, e = t, t + length
        ivs.append([s, e])
        gap = 0 if kind == "contiguous" else rng.choice([0, 1, 30, 86400]) if kind == "mixed" else rng.choice([1, 30, 86400 * 3])
        if kind in ("overlap", "dup") and rng.random() < 0.4:
            gap = -rng.choice([1, length // 2 or 1])
        t = e + gap
    if ivs and rng.random() < 0.5:
        ivs[0][0] = None
    if ivs and rng.random() < 0.5:
        ivs[-1][1] = None
    if kind == "dup" and ivs:
        ivs.append(list(rng.choice(ivs)))
    if rng.random() < 0.6:
        rng.shuffle(ivs)
    return kind, [tuple(i) for i in ivs]


def gen_dates(rng, ivs):
    """query dates in microseconds: every boundary +-1 s / +-1 us, inside, gaps, far away."""
    pts = set()
    for s, e in ivs:
        for b in (s, e):
            if b is not None:
                for off in (0, -1, 1, -1000000, 1000000):
                    pts.add(b * 1000000 + off)
        if s is not None and e is not None:
            pts.add((s + e) // 2 * 1000000)
    pts.add(-10 ** 15)
    pts.add(10 ** 16)
    pts.add(rng.randrange(0, 500) * 86400 * 1000000)
    pts = sorted(pts)
    rng.shuffle(pts)
    return pts[: 8]


MODULES = ["antenna", "receiver", "eccentricity", "site_coord"]


def module_cls(name):
    from midgard.site_info.antenna import Antenna
    from midgard.site_info.receiver import Receiver
    from midgard.site_info.eccentricity import Eccentricity
    from midgard.site_info.site_coord import SiteCoord
    return {"antenna": Antenna, "receiver": Receiver, "eccentricity": Eccentricity, "site_coord": SiteCoord}[name]


def mk_station_data(module, source, ivs, ident0=0):
    """Source data (one station's value) in the shape the parsers deliver, with identities."""
    def d(x):
        return None if x is None else dt_of(x * 1000000)
    if source == "snx":
        if module == "antenna":
            return {"site_antenna": [dict(start_time=d(s), end_time=d(e), antenna_type="T", radome_type="NONE",
                                          serial_number=str(ident0 + i), verif_id=ident0 + i) for i, (s, e) in enumerate(ivs)]}
        if module == "receiver":
            return {"site_receiver": [dict(start_time=d(s), end_time=d(e), receiver_type="R", firmware="1",
                                           serial_number=str(ident0 + i), verif_id=ident0 + i) for i, (s, e) in enumerate(ivs)]}
        if module == "eccentricity":
            return {"site_eccentricity": [dict(start_time=d(s), end_time=d(e), vector_type="UNE", vector_1=0.0, vector_2=0.0,
                                               vector_3=0.0, verif_id=ident0 + i) for i, (s, e) in enumerate(ivs)]}
        if module == "site_coord":
            # solution numbers: unique 1..n, or (as SINEX allows: a solution is identified by site, point AND number,
            # and files may use '----' throughout) repeated values - every SOLUTION/EPOCHS entry is its own period
            mode = (ident0 // 100 + len(ivs)) % 3
            solns = [str(i + 1) if mode == 0 else ("----" if mode == 1 else str(i // 2 + 1)) for i in range(len(ivs))]
            eps = [dict(soln=solns[i], point_code="AB"[i % 2], start_epoch=d(s), end_epoch=d(e), mean_epoch=None, verif_id=ident0 + i)
                   for i, (s, e) in enumerate(ivs)]
            est = []
            for i in range(len(ivs)):
                for pn in ("STAX", "STAY", "STAZ"):
                    est.append(dict(soln=solns[i], point_code="AB"[i % 2], param_name=pn, estimate=1.0 + i, estimate_std=0.1,
                                    ref_epoch=datetime(2010, 1, 1), unit="m"))
            return {"solution_epochs": eps, "solution_estimate": est}
    if source == "ssc":
        pv = {i + 1: dict(start=d(s), end=d(e), STAX=1.0, STAY=2.0, STAZ=3.0, verif_id=ident0 + i,
                          ref_epoch=datetime(2010, 1, 1)) for i, (s, e) in enumerate(ivs)}
        return {"name": "X", "soln": len(ivs), "pos_vel": pv}
    raise ValueError


def observe(fn):
    """Run fn(); map result / exception to an answer term."""
    from midgard.dev.exceptions import MissingDataError
    try:
        r = fn()
    except MissingDataError:
        return "ErrMissing"
    except IndexError:
        return "ErrIndex"
    except KeyError:
        return "ErrKey"
    except Exception as e:  # anything else is outside the model -> reported as a mismatch by the caller
        return f"OTHER:{type(e).__name__}:{e}"
    return r


def ans_term(obj):
    if obj is None:
        return "Nothing"
    if isinstance(obj, str):
        return obj
    return f"(Found {emit.z(obj._info['verif_id'])})"


def raws_term(ivs, ident0=0):
    return emit.lst(
        emit.pair(emit.opt(None if s is None else emit.z(s * 1000000)), emit.opt(None if e is None else emit.z(e * 1000000)),
                  emit.z(ident0 + i)) for i, (s, e) in enumerate(ivs))


def query_term(qd):
    return "Last" if qd == "last" else f"(At {emit.z(qd)})"


def digest(x):
    """Canonical deep digest of source data (order of dict keys is part of the observable state)."""
    if isinstance(x, dict):
        return "{" + ",".join(f"{k!r}:{digest(v)}" for k, v in x.items()) + "}"
    if isinstance(x, (list, tuple)):
        return "[" + ",".join(digest(v) for v in x) + "]"
    return repr(x)


# The accepted forms of the station argument (`Union[str, Iterable]`).  text / list / tuple / keys can be iterated
# again and again; genexp / map / filter / iter are ONE-SHOT: whoever iterates first gets the names, everybody after
# that gets nothing.  Every entry point must therefore answer as for the list the argument enumerates.
FORMS = ["text", "list", "tuple", "keys", "genexp", "map", "filter", "iter"]
ONE_SHOT = ("genexp", "map", "filter", "iter")
SEPS = [",", ", ", " ,", " , ", ",\n    ", ",\t", " ,\n", "\t,\t"]


def station_request(form, spelled, sep=", "):
    """-> (factory of a fresh argument object, Coq term of the request, Python expression for the replay)"""
    spelled = list(spelled)
    if form == "text":
        text = sep.join(spelled)
        return (lambda: text), f"(AsText {emit.s(text)})", repr(text)
    if form == "list":
        return (lambda: list(spelled)), f"(AsList {emit.lst(emit.s(x) for x in spelled)})", repr(spelled)
    if form == "tuple":
        return (lambda: tuple(spelled)), f"(AsList {emit.lst(emit.s(x) for x in spelled)})", repr(tuple(spelled))
    if form == "keys":      # the module documentation itself passes source_data.keys(); a key view lists each name once
        uniq = list(dict.fromkeys(spelled))
        return (lambda: dict.fromkeys(spelled).keys()), f"(AsList {emit.lst(emit.s(x) for x in uniq)})", \
            f"dict.fromkeys({spelled!r}).keys()"
    if form == "genexp":
        return (lambda: (x for x in spelled)), f"(AsIter {emit.lst(emit.s(x) for x in spelled)})", f"(x for x in {spelled!r})"
    if form == "map":
        swapped = [x.swapcase() for x in spelled]
        return (lambda: map(str.swapcase, swapped)), f"(AsIter {emit.lst(emit.s(x) for x in spelled)})", \
            f"map(str.swapcase, {swapped!r})"
    if form == "filter":
        padded = [y for x in spelled for y in (x, "")]
        return (lambda: filter(None, padded)), f"(AsIter {emit.lst(emit.s(x) for x in spelled)})", f"filter(None, {padded!r})"
    if form == "iter":
        return (lambda: iter(spelled)), f"(AsIter {emit.lst(emit.s(x) for x in spelled)})", f"iter({spelled!r})"
    raise ValueError(form)


def ext_term(dt):
    if dt == datetime.min:
        return "NegInf"
    if dt == datetime.max:
        return "PosInf"
    return f"(Fin {emit.z(us(dt))})"


def hist_term(hobj):
    """history object returned by get_history -> `option history` term (insertion order of the dict is observable)"""
    if isinstance(hobj, str):
        return hobj
    if hobj.history is None:
        return "None"
    return "(Some " + emit.lst(emit.pair(emit.pair(ext_term(a), ext_term(b_)), emit.z(v._info["verif_id"]))
                               for (a, b_), v in hobj.history.items()) + ")"


# ----------------------------------------------------------------------------- the run
def run(ctx):
    ok = ctx.prove(THEOREMS)
    n_hist = 250 if ctx.quick() else 3000
    n_mod = 150 if ctx.quick() else 1500
    n_rep = 80 if ctx.quick() else 600
    rng = ctx.rng
    mism = []          # (kind, replay dict)

    # ---- A. history lookup through the module API, one station
    casesA, metaA = [], []
    for _ in range(n_hist):
        kind, ivs = gen_intervals(rng)
        module = rng.choice(MODULES)
        source = "ssc" if (module == "site_coord" and rng.random() < 0.4) else "snx"
        ctx.count(f"hist:{kind}:{len(ivs)}")
        ctx.count(f"module:{module}:{source}")
        qs = gen_dates(rng, ivs) + ["last"]
        for qd in qs:
            sd = {"stat": mk_station_data(module, source, ivs)}
            before = digest(sd)
            date = "last" if qd == "last" else dt_of(qd)
            cls = module_cls(module)
            # the same (informational) source_path for different source data: answers must not depend on earlier queries
            spath = rng.choice([None, "/data/site_info/source.file"])
            res = observe(lambda: cls.get(source, sd, "stat", date, source_path=spath)["stat"])
            after = digest(sd)
            obs = ans_term(res)
            rep = dict(kind="history_get", source_path=spath, module=module, source=source, intervals_s_since_2000=ivs,
                       query=("last" if qd == "last" else date.isoformat()), observed=obs,
                       how=f"{cls.__name__}.get({source!r}, {{'stat': <records>}}, 'stat', date, source_path={spath!r}) after the earlier queries of this run")
            if obs.startswith("OTHER:"):
                mism.append(("other", rep))
                continue
            if before != after:
                mism.append(("mutated", dict(rep, before=before, after=after)))
            casesA.append(emit.pair(raws_term(ivs), query_term(qd), obs))
            metaA.append(rep)
            nontriv = len(ivs) >= 2
            ctx.case(("A", module, source, tuple(ivs), qd), nontrivial=nontriv,
                     sample=rep if nontriv else None)
    vsA = ctx.coq_cases(emit.shard_terms("check_get", casesA), REQ)
    flatA = emit.flatten_verdicts(vsA, len(casesA))

    # ---- B. station spellings, several stations, lower/upper source keys, module and combined level
    names = ["zimm", "osls", "tro1", "ab12", "ny_a"]
    casesB, metaB = [], []
    casesC, metaC = [], []
    casesBh, metaBh = [], []
    casesCh, metaCh = [], []
    from midgard.site_info.site_info import SiteInfo

    def bc_case(form=None, combined=None):
        """one module-level case (get + get_history) and, on a full SINEX source, one combined case.
        form / combined given = directed corpus (every form of the station argument reaches every entry point on
        every run); None = drawn from the stream."""
        k = rng.randrange(1, 4)
        present = rng.sample(names, k)
        upper_keys = False if combined else rng.random() < 0.3
        module = rng.choice(MODULES)
        source = "ssc" if (not combined and module == "site_coord" and rng.random() < 0.3) else "snx"
        data = {}
        models = []
        ident0 = 0
        for st in present:
            _, ivs = gen_intervals(rng)
            key = st.upper() if upper_keys else st
            data[key] = mk_station_data(module, source, ivs, ident0)
            models.append((key, ivs, ident0))
            ident0 += 100
        ask = [rng.choice(names) if rng.random() < 0.15 else rng.choice(present) for _ in range(rng.randrange(1, 4))]
        spelled = [rng.choice([s, s.upper(), s.capitalize()]) for s in ask]
        fm = form if form is not None else rng.choice(["text", "text", "text", "list", "list"] + FORMS)
        make, st_term, st_expr = station_request(fm, spelled, rng.choice(SEPS))
        stations = st_expr                      # for the replay: the Python expression of the argument
        wanted = list(dict.fromkeys(x.strip().lower() for x in spelled))
        all_ivs = [iv for _, ivs, _ in models for iv in ivs]
        qd = rng.choice(gen_dates(rng, all_ivs) + ([] if combined else ["last"]))
        date = "last" if qd == "last" else dt_of(qd)
        cls = module_cls(module)
        sd = copy.deepcopy(data)
        spath = rng.choice([None, "/data/site_info/source.file"])
        sd_term = emit.lst(emit.pair(emit.s(key), "(Some " + raws_term(ivs, i0) + ")") for key, ivs, i0 in models)
        base = dict(module=module, source=source, source_keys=[m[0] for m in models], intervals=[m[1] for m in models],
                    stations=stations, stations_form=fm)
        ctx.count(f"stations:{fm}:{'UPPERKEYS' if upper_keys else 'lowerkeys'}")

        # module level, dated query
        res = observe(lambda: cls.get(source, sd, make(), date, source_path=spath))
        if isinstance(res, dict):
            obs = "(inl " + emit.lst(emit.pair(emit.s(k_), ans_term(v)) for k_, v in res.items()) + ")"
        elif res.startswith("OTHER:"):
            mism.append(("other", dict(base, kind="module_get", observed=res)))
            return
        else:
            obs = f"(inr {res})"
        casesB.append(emit.pair(sd_term, st_term, query_term(qd), obs))
        rep = dict(base, kind="module_get", query=("last" if qd == "last" else date.isoformat()), observed=obs,
                   how=f"{cls.__name__}.get({source!r}, <source data>, {st_expr}, date, source_path={spath!r})")
        metaB.append(rep)
        ctx.case(("B", module, source, tuple(m[0] for m in models), stations, qd, obs), nontrivial=True,
                 sample=rep if len(metaB) < 3 else None)

        # module level, get_history (the history object itself)
        res = observe(lambda: cls.get_history(source, sd, make(), source_path=spath))
        if isinstance(res, dict):
            obs = "(inl " + emit.lst(emit.pair(emit.s(k_), hist_term(v)) for k_, v in res.items()) + ")"
        elif res.startswith("OTHER:"):
            mism.append(("other", dict(base, kind="module_get_history", observed=res)))
            return
        else:
            obs = f"(inr {res})"
        if digest(sd) != digest(data):
            mism.append(("mutated", dict(base, kind="module_get_history", before=digest(data), after=digest(sd))))
        casesBh.append(emit.pair(sd_term, st_term, obs))
        metaBh.append(dict(base, kind="module_get_history", observed=obs,
                           how=f"{cls.__name__}.get_history({source!r}, <source data>, {st_expr}, source_path={spath!r})"))
        ctx.case(("Bh", module, source, tuple(m[0] for m in models), stations, obs), nontrivial=True)

        # combined query on a full snx source (all four history modules + identifier), lower-case keys
        if source == "snx" and not upper_keys and qd != "last":
            full = {}
            per_mod = {m: [] for m in MODULES}
            ident0 = 0
            for st in present:
                full[st] = {"site_id": dict(site_code=st, point_code="A", domes="1", marker="M", obs_code="P",
                                            description="d", approx_lon=0.0, approx_lat=0.0, approx_height=0.0)}
                for m in MODULES:
                    _, ivs = gen_intervals(rng)
                    full[st].update(mk_station_data(m, "snx", ivs, ident0))
                    per_mod[m].append((st, ivs, ident0))
                    ident0 += 100
            order = ["antenna", "eccentricity", "receiver", "site_coord"]   # SiteInfo._MODULES order w/o identifier
            mods_term = emit.lst(
                emit.lst(emit.pair(emit.s(st), "(Some " + raws_term(ivs, i0) + ")") for st, ivs, i0 in per_mod[m]) for m in order)
            cbase = dict(stations=stations, stations_form=fm, query=date.isoformat(),
                         source={m: [(s_, iv) for s_, iv, _ in per_mod[m]] for m in order})
            ctx.count(f"combined:{fm}")
            for entry in ("get", "get_history"):
                kind = "site_info_" + entry
                keys_expected = (["antenna", "eccentricity", "identifier", "receiver", "site_coord"] if entry == "get" else order)
                how = (f"SiteInfo.get('snx', <source data>, {st_expr}, date, source_path={spath!r})" if entry == "get" else
                       f"SiteInfo.get_history('snx', <source data>, {st_expr}, source_path={spath!r})")
                fsd = copy.deepcopy(full)
                before = digest(fsd)
                if entry == "get":
                    res = observe(lambda: SiteInfo.get("snx", fsd, make(), date, source_path=spath))
                else:
                    res = observe(lambda: SiteInfo.get_history("snx", fsd, make(), source_path=spath))
                after = digest(fsd)
                if before != after:
                    mism.append(("mutated", dict(cbase, kind=kind, how=how, before=before, after=after)))
                if isinstance(res, dict):
                    term = ans_term if entry == "get" else hist_term
                    # property oracle: every station asked for, every module, and the very thing the module returns
                    bad = []
                    if list(res.keys()) != wanted:
                        bad.append(f"stations {list(res.keys())}, asked for {wanted}")
                    for st_, row in res.items():
                        if list(row.keys()) != keys_expected:
                            bad.append(f"[{st_!r}] has the entries {list(row.keys())}, expected {keys_expected}")
                        for m in order:
                            if m not in row:
                                continue
                            if entry == "get":
                                single = observe(lambda: module_cls(m).get("snx", copy.deepcopy(full), st_, date, source_path=spath)[st_])
                            else:
                                single = observe(lambda: module_cls(m).get_history("snx", copy.deepcopy(full), st_, source_path=spath)[st_])
                            if term(single) != term(row[m]):
                                bad.append(f"[{st_!r}][{m!r}] = {term(row[m])}, the module returns {term(single)}")
                    if bad:
                        mism.append(("combined", dict(cbase, kind=kind, how=how, differences=bad[:6],
                                                      what=f"SiteInfo.{entry} differs from the individual modules")))
                        continue        # rows are incomplete: nothing to ship to the model
                    obs = "(inl " + emit.lst(emit.pair(emit.s(st_), emit.lst(term(row[m]) for m in order))
                                             for st_, row in res.items()) + ")"
                elif res.startswith("OTHER:"):
                    mism.append(("other", dict(cbase, kind=kind, how=how, observed=res)))
                    continue
                else:
                    obs = f"(inr {res})"
                if entry == "get":
                    casesC.append(emit.pair(mods_term, st_term, query_term(qd), obs))
                    metaC.append(dict(cbase, kind=kind, how=how, observed=obs))
                else:
                    casesCh.append(emit.pair(mods_term, st_term, obs))
                    metaCh.append(dict(cbase, kind=kind, how=how, observed=obs))
                ctx.case(("C", entry, stations, qd, obs), nontrivial=True)

    # directed corpus first: every form of the station argument through every entry point, on every run
    for fm in FORMS:
        for _ in range(2):
            bc_case(form=fm, combined=True)
    for _ in range(n_mod):
        bc_case()
    vsB = ctx.coq_cases(emit.shard_terms("check_module", casesB, 200), REQ)
    flatB = emit.flatten_verdicts(vsB, len(casesB))
    vsC = ctx.coq_cases(emit.shard_terms("check_site_info", casesC, 100), REQ)
    flatC = emit.flatten_verdicts(vsC, len(casesC))
    vsBh = ctx.coq_cases(emit.shard_terms("check_module_history", casesBh, 200), REQ)
    flatBh = emit.flatten_verdicts(vsBh, len(casesBh))
    vsCh = ctx.coq_cases(emit.shard_terms("check_site_info_history", casesCh, 100), REQ)
    flatCh = emit.flatten_verdicts(vsCh, len(casesCh))

    # ---- D. repeated queries on the same source object (purity)
    casesD, metaD = [], []
    for _ in range(n_rep):
        kind, ivs = gen_intervals(rng)
        if not ivs:
            continue
        module = rng.choice(MODULES)
        source = "ssc" if (module == "site_coord" and rng.random() < 0.5) else "snx"
        sd = {"stat": mk_station_data(module, source, ivs)}
        before = digest(sd)
        qs = [rng.choice(gen_dates(rng, ivs) + ["last"]) for _ in range(rng.randrange(2, 5))]
        cls = module_cls(module)
        obs = []
        for qd in qs:
            date = "last" if qd == "last" else dt_of(qd)
            obs.append(ans_term(observe(lambda: cls.get(source, sd, "stat", date, source_path="/data/site_info/source.file")["stat"])))
        after = digest(sd)
        rep = dict(kind="repeated_queries", module=module, source=source, intervals_s_since_2000=ivs,
                   queries=[q if q == "last" else dt_of(q).isoformat() for q in qs], observed=obs,
                   source_changed=(before != after))
        if any(o.startswith("OTHER:") for o in obs):
            mism.append(("other", rep))
            continue
        casesD.append(emit.pair(raws_term(ivs), emit.lst(query_term(q) for q in qs), emit.lst(obs)))
        metaD.append(rep)
        ctx.count(f"repeat:{module}:{source}")
        ctx.case(("D", module, source, tuple(ivs), tuple(qs)), nontrivial=True, sample=rep if len(metaD) < 2 else None)
    vsD = ctx.coq_cases(emit.shard_terms("check_repeat", casesD, 200), REQ)
    flatD = emit.flatten_verdicts(vsD, len(casesD))

    # ---- E. the repository's own example files through the parsers
    exE = example_file_cases(ctx, mism)

    # ---- F. SSC and SINEX files rendered from random histories, read by the ssc_site / sinex_site parsers
    exF = rendered_file_cases(ctx, mism)

    # ---------------------------------------------------------------- decide
    for name, flat, meta in (("A", flatA, metaA), ("B", flatB, metaB), ("C", flatC, metaC), ("Bh", flatBh, metaBh), ("Ch", flatCh, metaCh),
                             ("D", flatD, metaD), ("E", exE[0], exE[1]), ("F", exF[0], exF[1])):
        if flat is None:
            ctx.violation({"broken": f"correspondence shard {name} did not evaluate in Coq", "errors": ctx.last_coq_errors[:2]},
                          what="correspondence (model evaluation) failed", found=False)
            continue
        for v, rep in zip(flat, meta):
            if v == 0:
                continue
            if v == 2 or (rep.get("source_changed") and v != 1):
                ctx.count("quirk:pop_pos_vel")
                ctx.finding("c18_ssc_pop_mutates_source",
                            "SiteCoordHistorySsc._create_history pops 'pos_vel' from the caller's source data: a second query on the same data raises KeyError",
                            rep)
            elif v == 3:
                ctx.count("quirk:upper_key_err")
                ctx.finding("c18_upper_key_keyerror",
                            "Antenna/Eccentricity HistorySinex index source_data[station] after testing station.upper(): upper-case source keys raise KeyError",
                            rep)
            else:
                ctx.violation(rep, what=f"midgard's answer differs from the model ({rep.get('kind')})")
    for kind, rep in mism:
        if kind == "mutated":
            ctx.violation(rep, what="query changed the source data")
        elif kind == "combined":
            ctx.violation(rep, what=rep.get("what", "the combined query differs from the individual modules"))
        else:
            ctx.violation(rep, what=f"outside the model: {kind}")
    # repeated-query source mutation seen in D even when answers agreed
    for rep in metaD:
        if rep.get("source_changed"):
            ctx.violation(rep, what="repeated queries changed the source data")

    if not ok:
        def search():
            # a failing correspondence case (already reported above) is the concrete input
            return None
        if not ctx.violations:
            ctx.obligations_broken(search)
    ctx.trusted += [
        "Coq 8.16.1 kernel, coqc, vm_compute (no native_compute)",
        "hand-written model coq/theories/Model/C18_History.v (validated against midgard.site_info by this run's correspondence)",
        "harness/drivers/c18.py (generators, call of the implementation, term emission)",
    ]
    ctx.assume += ["datetime.min/max are the infinities of the model; query dates lie strictly between them",
                   "m3g sources (network API) are outside the model"]
    return ctx.finish(
        level="proof",
        rule=("random histories of 0..9 intervals (contiguous/gapped/mixed/overlapping/duplicate keys, open ends, shuffled "
              "insertion order) x dates on every boundary +-1us/+-1s, mid-interval, far past/future, 'last'; 4 modules x snx/ssc; "
              "station arguments as text/list/tuple/dict keys view/generator expression/map/filter/iterator (directed corpus: every form through "
              "Module.get, Module.get_history, SiteInfo.get, SiteInfo.get_history on every run) in three letter cases with lower/upper "
              "source keys; SiteInfo.get / get_history vs modules; repeated "
              "queries with source digests. distinct_nontrivial = distinct (module, source, history, query) with >= 2 intervals or "
              "multi-station / repeated-query cases"),
    )


def example_file_cases(ctx, mism):
    """sinex_site / ssc_site example files of the repository, parsed by midgard's own parsers."""
    from midgard import parsers
    cases, meta = [], []
    base = os.path.join(core.REPO, "tests", "parsers", "example_files")
    for pname, source in (("sinex_site", "snx"), ("ssc_site", "ssc")):
        path = os.path.join(base, pname)
        if not os.path.exists(path):
            continue
        try:
            sd0 = parsers.parse_file(pname, path).as_dict()
        except Exception as e:
            ctx.notes.append(f"example {pname}: {type(e).__name__}: {e}")
            continue
        mods = MODULES if source == "snx" else ["site_coord"]
        for st in sd0:
            for module in mods:
                sd = copy.deepcopy(sd0)
                try:
                    if source == "snx":
                        if module == "site_coord":
                            recs = [(e.get("start_epoch"), e.get("end_epoch")) for e in sd[st].get("solution_epochs", [])]
                            if "solution_estimate" not in sd[st]:
                                continue
                        else:
                            recs = [(r.get("start_time"), r.get("end_time")) for r in sd[st]["site_" + module]]
                    else:
                        recs = [(r.get("start"), r.get("end")) for r in sd[st]["pos_vel"].values()]
                except KeyError:
                    continue
                # identities: position in the list
                if source == "snx":
                    lst_ = sd[st].get("solution_epochs") if module == "site_coord" else sd[st]["site_" + module]
                    for i, r in enumerate(lst_):
                        r["verif_id"] = i
                else:
                    for i, r in enumerate(sd[st]["pos_vel"].values()):
                        r["verif_id"] = i
                ivs_us = [(None if not s else us(s), None if not e else us(e)) for s, e in recs]
                pts = set()
                for s, e in ivs_us:
                    for b_ in (s, e):
                        if b_ is not None:
                            pts.update([b_, b_ - 1000000, b_ + 1000000])
                for qd in sorted(pts) + ["last"]:
                    sdq = copy.deepcopy(sd)
                    date = "last" if qd == "last" else dt_of(qd)
                    res = observe(lambda: module_cls(module).get(source, sdq, st, date)[st])
                    obs = ans_term(res)
                    rep = dict(kind="example_file", parser=pname, station=st, module=module,
                               query=("last" if qd == "last" else date.isoformat()), observed=obs)
                    if obs.startswith("OTHER:"):
                        mism.append(("other", rep))
                        continue
                    raws = emit.lst(emit.pair(emit.opt(None if s is None else emit.z(s)), emit.opt(None if e is None else emit.z(e)), emit.z(i))
                                    for i, (s, e) in enumerate(ivs_us))
                    cases.append(emit.pair(raws, query_term(qd), obs))
                    meta.append(rep)
                    ctx.case(("E", pname, st, module, qd), nontrivial=len(ivs_us) >= 2)
        ctx.count(f"example:{pname}")
    vs = ctx.coq_cases(emit.shard_terms("check_get", cases, 300), REQ)
    return emit.flatten_verdicts(vs, len(cases)), meta


def _yyddd(sec):
    """seconds since T0 (2000-01-01) -> 'YY:DDD:SSSSS' (SINEX / SSC epoch)"""
    d = dt_of(sec * 1000000)
    return f"{d.year % 100:02d}:{d.timetuple().tm_yday:03d}:{d.hour * 3600 + d.minute * 60 + d.second:05d}"


def gen_file_intervals(rng):
    """Histories for rendered files: whole-second epochs between 1996 and 2040 (two-digit years resolve uniquely for
    both strptime's %y pivot and the SINEX rule), a share of epochs inside the year 2000 (YY = 00 is also the year of
    the open-ended marker 00:000:00000), open ends, any listing order."""
    n = rng.choice([1, 2, 2, 3, 3, 4, 5])
    if rng.random() < 0.45:
        t = rng.randrange(0, 300) * 86400 + rng.choice([0, 0, 3600, 86370])          # inside 2000
    else:
        t = rng.randrange(-1400, 14000) * 86400 + rng.choice([0, 0, 30, 43200, 86370])
    ivs = []
    for _ in range(n):
        length = rng.choice([86400, 86400 * 20, 86400 * 200, 86400 * 900, 3600])
        ivs.append([t, t + length])
        t = t + length + rng.choice([0, 30, 86400, 86400 * 40])
    if rng.random() < 0.4:
        ivs[0][0] = None
    if rng.random() < 0.5:
        ivs[-1][1] = None
    order = list(range(n))
    if rng.random() < 0.5:
        rng.shuffle(order)
    return [tuple(ivs[i]) for i in order]


def render_ssc(stations):
    """stations: {name: [(start|None, end|None, ident)]} -> text of an SSC file"""
    out = ["               CLASS_A EPN STATION POSITIONS AND VELOCITIES",
           "               REFERENCE FRAME:    IGb14    AT EPOCH OF 2010.0",
           "DOMES NB. SITE NAME        TECH. ID.       X/Vx         Y/Vy         Z/Vz.          Sigmas      SOLN  DATA_START     DATA_END   REF. EPOCH",
           "-" * 138]
    for k, (name, recs) in enumerate(stations.items()):
        domes = f"{10001 + k:05d}M{1 + k:03d}"
        for soln, (s_, e_, ident) in enumerate(recs, 1):
            start = "00:000:00000" if s_ is None else _yyddd(s_)
            end = "00:000:00000" if e_ is None else _yyddd(e_)
            out.append(f"{domes} {name.upper():<16s}{'GPS':>5s} {name.upper():<4s} {4000000 + ident:12.3f} {306998.578:12.3f} {4919498.918:12.3f}"
                       f"  0.001  0.001  0.001 {soln:2d} {start} {end} 10:001:00000")
            out.append(f"{domes}" + " " * 34 + f"{-0.0137:7.4f} {0.0169:12.4f} {0.0107:12.4f} 0.0001 0.0001 0.0001")
    return "\n".join(out) + "\n"


def render_snx(stations):
    """stations: {name: {module: [(start|None, end|None, ident)]}} -> text of a SINEX file with the site blocks"""
    def ep(x):
        return "00:000:00000" if x is None else _yyddd(x)
    out = ["%=SNX 2.01 IGS 20:316:15732 IGS 00:000:00000 00:000:00000 P 00000 0", "+SITE/ID"]
    for k, name in enumerate(stations):
        out.append(f" {name:4s}  A {10001 + k:05d}M{1 + k:03d} P {'Somewhere, Country':<22s}  4 21 30.8  50 47 53.0   158.3")
    out.append("-SITE/ID")
    out.append("+SITE/RECEIVER")
    for name, mods in stations.items():
        for s_, e_, ident in mods["receiver"]:
            out.append(f" {name:4s}  A ---- P {ep(s_)} {ep(e_)} {'SEPT POLARX2':<20s} {str(ident):<5s} {'2.6.2':<11s}")
    out.append("-SITE/RECEIVER")
    out.append("+SITE/ANTENNA")
    for name, mods in stations.items():
        for s_, e_, ident in mods["antenna"]:
            out.append(f" {name:4s}  A ---- P {ep(s_)} {ep(e_)} {'ASH701945E_M    NONE':<20s} {str(ident):<5s}")
    out.append("-SITE/ANTENNA")
    out.append("+SITE/ECCENTRICITY")
    for name, mods in stations.items():
        for s_, e_, ident in mods["eccentricity"]:
            out.append(f" {name:4s}  A ---- P {ep(s_)} {ep(e_)} UNE {ident / 10000:8.4f} {0.001:8.4f} {0.0:8.4f}")
    out.append("-SITE/ECCENTRICITY")
    out.append("%ENDSNX")
    return "\n".join(out) + "\n"


def _ident_of(module, source, obj):
    """identity of the record a returned site-information object was built from (payload written by the renderers)"""
    if obj is None or isinstance(obj, str):
        return obj
    if source == "ssc":
        return int(round(obj._info["STAX"] - 4000000))
    if module == "eccentricity":
        return int(round(float(obj._info["vector_1"]) * 10000))
    return int(str(obj._info["serial_number"]).strip())


def rendered_file_cases(ctx, mism):
    """Random histories written as SSC / SINEX text, parsed by midgard's ssc_site / sinex_site parsers and queried
    through the modules; the model sees only the intervals that were written."""
    from midgard import parsers
    rng = ctx.rng
    cases, meta = [], []
    d = os.path.join(ctx.work, "files")
    os.makedirs(d, exist_ok=True)
    nfiles = 14 if ctx.quick() else 150
    for k in range(nfiles):
        source = "ssc" if k % 2 == 0 else "snx"
        names = rng.sample(["zimm", "osls", "tro1", "ab12", "smne"], rng.randrange(1, 4))
        ident = 1
        if source == "ssc":
            st = {}
            for nme in names:
                ivs = gen_file_intervals(rng)
                st[nme] = [(s_, e_, ident + i) for i, (s_, e_) in enumerate(ivs)]
                ident += 10
            text = render_ssc(st)
            per = {(nme, "site_coord"): recs for nme, recs in st.items()}
        else:
            st = {}
            for nme in names:
                st[nme] = {}
                for m in ("receiver", "antenna", "eccentricity"):
                    ivs = gen_file_intervals(rng)
                    st[nme][m] = [(s_, e_, ident + i) for i, (s_, e_) in enumerate(ivs)]
                    ident += 10
            text = render_snx(st)
            per = {(nme, m): recs for nme, mods in st.items() for m, recs in mods.items()}
        path = os.path.join(d, f"rendered_{k:03d}.{source}")
        with open(path, "w") as f:
            f.write(text)
        try:
            data = parsers.parse_file("ssc_site" if source == "ssc" else "sinex_site", path).as_dict()
        except Exception as e:
            mism.append(("other", dict(kind="rendered_file", source=source, text=text, observed=f"parser raised {type(e).__name__}: {e}")))
            continue
        ctx.count(f"rendered:{source}")
        for (nme, module), recs in per.items():
            pts = set()
            for s_, e_, _ in recs:
                for b_ in (s_, e_):
                    if b_ is not None:
                        pts.update([b_, b_ - 1, b_ + 1, b_ - 86400 * 400])
            pts.add(rng.randrange(-2000, 15000) * 86400)
            if any(s_ is not None and 0 <= s_ < 366 * 86400 or e_ is not None and 0 <= e_ < 366 * 86400 for s_, e_, _ in recs):
                ctx.count("rendered:epoch_in_year_2000")
            for qd in sorted(pts) + ["last"]:
                date = "last" if qd == "last" else dt_of(qd * 1000000)
                sdq = copy.deepcopy(data)
                res = observe(lambda: module_cls(module).get(source, sdq, nme.upper() if rng.random() < 0.3 else nme, date)[nme])
                res = _ident_of(module, source, res) if not isinstance(res, str) else res
                obs = "Nothing" if res is None else (res if isinstance(res, str) else f"(Found {emit.z(res)})")
                rep = dict(kind="rendered_file", source=source, station=nme, module=module, file_text=text,
                           records_s_since_2000=recs, query=("last" if qd == "last" else date.isoformat()), observed=obs,
                           how=f"write file_text to a file, parsers.parse_file('{'ssc_site' if source == 'ssc' else 'sinex_site'}', path).as_dict(), "
                               f"then {module_cls(module).__name__}.get({source!r}, data, {nme!r}, date)")
                if obs.startswith("OTHER:"):
                    mism.append(("other", rep))
                    continue
                raws = emit.lst(emit.pair(emit.opt(None if s_ is None else emit.z(s_ * 1000000)),
                                          emit.opt(None if e_ is None else emit.z(e_ * 1000000)), emit.z(i_)) for s_, e_, i_ in recs)
                cases.append(emit.pair(raws, "Last" if qd == "last" else f"(At {emit.z(qd * 1000000)})", obs))
                meta.append(rep)
                ctx.case(("F", source, nme, module, tuple(recs), qd), nontrivial=len(recs) >= 2,
                         sample=(dict(rep, file_text=text[:400] + "...") if len(meta) < 2 else None))
        try:
            os.unlink(path)
        except OSError:
            pass
    vs = ctx.coq_cases(emit.shard_terms("check_get", cases, 300), REQ)
    return emit.flatten_verdicts(vs, len(cases)), meta


def replay(ctx, path):
    import json
    rep = json.load(open(path))
    print(json.dumps(rep, indent=1))
    print("re-run: VERIF_SEED=%s /venv/bin/python run_check.py C18 %s" % (rep.get("seed"), rep.get("tier", "quick")))
    return 0
