"""C05 - regeneration of the Coq tables from the source tree under test (fail-closed `ast` passes).

  gen_ellipsoids(repo)  -> (coq text, [(name, a_text, finv_text|None)])     from midgard/math/ellipsoid.py
  gen_flow(repo)        -> (coq text, [site dict])                          from midgard/data/_position.py

A *constructor call site* is every call inside one of the position classes whose callee is one of
    _SYSTEMS[...][...](...)      self.__class__(...)      cls(...)      type(self)(...)
    <X>.create(...)  with X in {cls, PositionArray, PosVelArray, PositionDeltaArray, PosVelDeltaArray}
For a site that builds a position (PositionArray / PosVelArray family) the *carrier* of the reference ellipsoid is the
`ellipsoid` argument; for a site that builds a delta / velocity it is `ref_pos` (a delta has no ellipsoid of its own, it lives
on the ellipsoid of its reference position).  A site *forwards* the carrier iff the call passes it
    - as keyword  carrier=<v>   or as the second positional argument <v>,  where <v> is
         <name>.<carrier>  |  a parameter of the method named like the carrier or (ref_pos only) `other` / `self.pos`
         | a local name all of whose assignments in the method mention `.<carrier>` (or, for `ellipsoid_`,
           are `ellipsoid.get(...)` of the stored name)
    - or as  **kw  where kw is the method's own ** parameter (a pure factory), or a local dict built by iterating over an
      expression that contains the constant "<carrier>".
Everything else (in particular `ellipsoid=ellipsoid`, which passes the *module*) counts as not forwarded.  Unknown shapes of
code never count as forwarded; a class or callee shape the pass does not know raises GenError (the run then reports a
violation without input instead of silently shrinking the table)."""
from __future__ import annotations

import ast
import os
from fractions import Fraction

from harness import emit


class GenError(Exception):
    pass


# ----------------------------------------------------------------------------------------------- ellipsoids
def gen_ellipsoids(repo):
    path = os.path.join(repo, "midgard", "math", "ellipsoid.py")
    src = open(path, encoding="utf8").read()
    tree = ast.parse(src)
    rows = []
    for node in tree.body:
        calls = []
        if isinstance(node, (ast.Assign, ast.AnnAssign, ast.Expr)) and isinstance(getattr(node, "value", None), ast.Call):
            calls = [node.value]
        for c in calls:
            if not (isinstance(c.func, ast.Name) and c.func.id == "Ellipsoid"):
                continue
            kw = {k.arg: k.value for k in c.keywords}
            pos = list(c.args)
            order = ["name", "a", "f_inv", "description"]
            for i, v in enumerate(pos):
                kw[order[i]] = v
            if not {"name", "a", "f_inv"} <= set(kw):
                raise GenError(f"ellipsoid.py:{c.lineno}: Ellipsoid(...) without name/a/f_inv")
            if not (isinstance(kw["name"], ast.Constant) and isinstance(kw["name"].value, str)):
                raise GenError(f"ellipsoid.py:{c.lineno}: ellipsoid name is not a string literal")
            rows.append((kw["name"].value, _number(src, kw["a"], c.lineno), _number(src, kw["f_inv"], c.lineno)))
    if not rows:
        raise GenError("no Ellipsoid(...) registrations found in ellipsoid.py")
    names = [r[0] for r in rows]
    if len(set(names)) != len(names):
        raise GenError("duplicate ellipsoid names")
    for n, a, fi in rows:
        if a is None or Fraction(a) <= 0:
            raise GenError(f"ellipsoid {n}: semi-major axis must be a positive literal")
    items = []
    for n, a, fi in rows:
        items.append(emit.pair(emit.s(n), emit.q(Fraction(a)), emit.opt(None if fi is None else emit.q(Fraction(fi)))))
    text = ("From Coq Require Import QArith String List.\nImport ListNotations.\n"
            "(* (name, a [m] as the exact decimal of the source literal, Some (1/f) as exact decimal | None when 1/f = math.inf, i.e. f = 0) *)\n"
            "Definition ellipsoids : list (string * Q * option Q) :=\n  " + emit.lst(items).replace("; (", ";\n   (") + ".\n")
    return text, rows


def _number(src, node, lineno):
    """Exact decimal text of a numeric literal; None for math.inf / float('inf')."""
    if isinstance(node, ast.Constant) and isinstance(node.value, (int, float)) and not isinstance(node.value, bool):
        seg = ast.get_source_segment(src, node)
        txt = seg.replace("_", "").strip()
        try:
            fr = Fraction(txt)
        except (ValueError, ZeroDivisionError):
            raise GenError(f"ellipsoid.py:{lineno}: cannot read literal {seg!r} exactly")
        if float(fr) != float(node.value):
            raise GenError(f"ellipsoid.py:{lineno}: literal {seg!r} read inexactly")
        return txt
    if isinstance(node, ast.Attribute) and node.attr == "inf" and isinstance(node.value, ast.Name) and node.value.id in ("math", "np", "numpy"):
        return None
    if (isinstance(node, ast.Call) and isinstance(node.func, ast.Name) and node.func.id == "float" and len(node.args) == 1
            and isinstance(node.args[0], ast.Constant) and str(node.args[0].value).lower() in ("inf", "+inf", "infinity")):
        return None
    raise GenError(f"ellipsoid.py:{lineno}: parameter is not a numeric literal or math.inf")


# ----------------------------------------------------------------------------------------------- ellipsoid flow
POS_FAMILY = {"PositionArray", "PosVelArray"}
DELTA_FAMILY = {"PositionDeltaArray", "PosVelDeltaArray", "VelocityArray", "VelocityDeltaArray"}
CLASSES = POS_FAMILY | DELTA_FAMILY


def _is_systems_call(f):
    return (isinstance(f, ast.Subscript) and isinstance(f.value, ast.Subscript)
            and isinstance(f.value.value, ast.Name) and f.value.value.id == "_SYSTEMS")


def _family_of_key(k, cls):
    """Which class family does _SYSTEMS[k] hold?  k is the first subscript expression."""
    if isinstance(k, ast.Constant) and isinstance(k.value, str):
        if k.value in CLASSES:
            return k.value
        raise GenError(f"_SYSTEMS[{k.value!r}]: unknown class family")
    if isinstance(k, ast.Attribute) and k.attr == "cls_name":
        v = k.value
        if isinstance(v, ast.Name) and v.id in ("cls", "self"):
            return cls
        if isinstance(v, ast.Attribute) and v.attr == "ref_pos":
            return "PositionArray"
    raise GenError(f"_SYSTEMS[{ast.unparse(k)}]: cannot tell which class family is built")


def _constructor_target(call, cls):
    """Return the class family a call constructs, or None when the call is not a constructor call site."""
    f = call.func
    if _is_systems_call(f):
        return _family_of_key(f.value.slice, cls)
    if isinstance(f, ast.Attribute) and f.attr == "__class__" and isinstance(f.value, ast.Name) and f.value.id == "self":
        return cls
    if isinstance(f, ast.Name) and f.id == "cls":
        return cls
    if isinstance(f, ast.Call) and isinstance(f.func, ast.Name) and f.func.id == "type":
        return cls
    if isinstance(f, ast.Attribute) and f.attr == "create" and isinstance(f.value, ast.Name):
        if f.value.id == "cls":
            return cls
        if f.value.id in CLASSES:
            return f.value.id
    return None


def _mentions_attr(node, attr):
    return any(isinstance(n, ast.Attribute) and n.attr == attr for n in ast.walk(node))


def _assignments(fn, name):
    out = []
    for n in ast.walk(fn):
        if isinstance(n, ast.Assign):
            for t in n.targets:
                if isinstance(t, ast.Name) and t.id == name:
                    out.append(n.value)
        elif isinstance(n, (ast.AnnAssign, ast.AugAssign)) and isinstance(n.target, ast.Name) and n.target.id == name:
            out.append(n.value)
    return out


def _value_ok(v, carrier, fn):
    params = [a.arg for a in fn.args.args + fn.args.kwonlyargs]
    if isinstance(v, ast.Attribute) and v.attr == carrier:
        return True, ast.unparse(v)
    if carrier == "ref_pos":
        if isinstance(v, ast.Name) and v.id in params and v.id in ("ref_pos", "other"):
            return True, v.id
        if isinstance(v, ast.Attribute) and v.attr == "pos" and isinstance(v.value, ast.Name) and v.value.id == "self":
            return True, "self.pos"
    if isinstance(v, ast.Name) and v.id in params and v.id == carrier and carrier == "ref_pos":
        return True, v.id
    if isinstance(v, ast.Name) and v.id not in params:
        asg = _assignments(fn, v.id)
        good = [a for a in asg if _mentions_attr(a, carrier) or _is_stored_ellipsoid(a, carrier)]
        rest = [a for a in asg if a not in good]
        if good and all(_is_memo_lookup(a) for a in rest):
            return True, v.id
    return False, ast.unparse(v)


def _is_memo_lookup(a):
    """memo[...] / memo[...][-1] : the already converted copy of the same carrier object"""
    while isinstance(a, ast.Subscript):
        a = a.value
    return isinstance(a, ast.Name) and a.id == "memo"


def _is_stored_ellipsoid(a, carrier):
    """ellipsoid.get(h5_group.attrs["ellipsoid"]) : the ellipsoid stored with the field"""
    return (carrier == "ellipsoid" and isinstance(a, ast.Call) and isinstance(a.func, ast.Attribute) and a.func.attr == "get"
            and isinstance(a.func.value, ast.Name) and a.func.value.id == "ellipsoid"
            and any(isinstance(n, ast.Constant) and n.value == "ellipsoid" for n in ast.walk(a)))


def _dict_carries(fn, name, carrier):
    """local dict `name` built by iterating over an expression containing the constant carrier string"""
    def has_const(e):
        return any(isinstance(n, ast.Constant) and n.value == carrier for n in ast.walk(e))
    for a in _assignments(fn, name):
        if isinstance(a, ast.DictComp) and any(has_const(g.iter) for g in a.generators):
            return True
    for n in ast.walk(fn):
        if isinstance(n, ast.For) and has_const(n.iter) and isinstance(n.target, ast.Name):
            key = n.target.id
            for m in ast.walk(n):
                if isinstance(m, ast.Assign):
                    for t in m.targets:
                        if (isinstance(t, ast.Subscript) and isinstance(t.value, ast.Name) and t.value.id == name
                                and isinstance(t.slice, ast.Name) and t.slice.id == key):
                            return True
                if (isinstance(m, ast.Call) and isinstance(m.func, ast.Attribute) and m.func.attr == "update"
                        and isinstance(m.func.value, ast.Name) and m.func.value.id == name and m.args
                        and isinstance(m.args[0], ast.Dict) and any(isinstance(k, ast.Name) and k.id == key for k in m.args[0].keys)):
                    return True
    return False


def _classify(call, target, fn):
    carrier = "ellipsoid" if target in POS_FAMILY else "ref_pos"
    for k in call.keywords:
        if k.arg == carrier:
            ok, how = _value_ok(k.value, carrier, fn)
            return carrier, ok, f"{carrier}={how}"
    # second positional argument of the class constructors / `create(val, system, ref_pos, ...)`
    is_create = isinstance(call.func, ast.Attribute) and call.func.attr == "create"
    idx = 2 if (is_create and carrier == "ref_pos") else (None if is_create else 1)
    if idx is not None and len(call.args) > idx and not any(isinstance(a, ast.Starred) for a in call.args[: idx + 1]):
        ok, how = _value_ok(call.args[idx], carrier, fn)
        return carrier, ok, f"positional {how}"
    for k in call.keywords:
        if k.arg is None and isinstance(k.value, ast.Name):
            if fn.args.kwarg is not None and fn.args.kwarg.arg == k.value.id:
                return carrier, True, f"**{k.value.id} (factory pass-through)"
            if _dict_carries(fn, k.value.id, carrier):
                return carrier, True, f"**{k.value.id} (built over ... + [{carrier!r}])"
    return carrier, False, "not passed"


def gen_flow(repo):
    path = os.path.join(repo, "midgard", "data", "_position.py")
    src = open(path, encoding="utf8").read()
    tree = ast.parse(src)
    sites = []
    seen_classes = set()
    default_names = set()
    finalize_forwards = {}
    for cnode in tree.body:
        if not isinstance(cnode, ast.ClassDef):
            continue
        cls = cnode.name
        if cls == "PosBase":
            for n in ast.walk(cnode):
                if isinstance(n, ast.Call) and _constructor_target(n, "PositionArray") is not None and not (
                        isinstance(n.func, ast.Name)):
                    raise GenError(f"_position.py:{n.lineno}: constructor call inside PosBase is not modelled")
            continue
        if cls not in CLASSES:
            for n in ast.walk(cnode):
                if isinstance(n, ast.Call) and _is_systems_call(n.func):
                    raise GenError(f"_position.py:{n.lineno}: constructor call in unknown class {cls}")
            continue
        seen_classes.add(cls)
        for fn in cnode.body:
            if not isinstance(fn, (ast.FunctionDef, ast.AsyncFunctionDef)):
                continue
            k = 0
            calls = [n for n in ast.walk(fn) if isinstance(n, ast.Call)]
            calls.sort(key=lambda n: (n.lineno, n.col_offset))
            for n in calls:
                target = _constructor_target(n, cls)
                if target is None:
                    continue
                carrier, ok, how = _classify(n, target, fn)
                sites.append(dict(site=f"{cls}.{fn.name}#{k}", cls=cls, method=fn.name, builds=target, carrier=carrier,
                                  forwards=ok, how=how, line=n.lineno))
                k += 1
            if cls in POS_FAMILY and fn.name == "__new__":
                d = _default_of(fn, "ellipsoid")
                if d is None:
                    raise GenError(f"{cls}.__new__ has no default ellipsoid of the form ellipsoid.<NAME>")
                default_names.add(d)
            if cls in POS_FAMILY and fn.name == "__array_finalize__":
                ok = False
                for n in ast.walk(fn):
                    if (isinstance(n, ast.Assign) and len(n.targets) == 1 and isinstance(n.targets[0], ast.Attribute)
                            and n.targets[0].attr == "ellipsoid" and isinstance(n.value, ast.Call)
                            and isinstance(n.value.func, ast.Name) and n.value.func.id == "getattr" and len(n.value.args) == 3
                            and isinstance(n.value.args[0], ast.Name) and n.value.args[0].id == "obj"
                            and isinstance(n.value.args[1], ast.Constant) and n.value.args[1].value == "ellipsoid"):
                        ok = True
                        dn = _ell_name(n.value.args[2])
                        if dn is None:
                            raise GenError(f"{cls}.__array_finalize__: default is not ellipsoid.<NAME>")
                        default_names.add(dn)
                finalize_forwards[cls] = ok
    # module-level / other functions must not construct positions behind the model's back
    for node in tree.body:
        if isinstance(node, ast.FunctionDef):
            for n in ast.walk(node):
                if isinstance(n, ast.Call) and _is_systems_call(n.func):
                    raise GenError(f"_position.py:{n.lineno}: constructor call in module-level function {node.name}")
    total_sys_calls = sum(1 for n in ast.walk(tree) if isinstance(n, ast.Call) and _is_systems_call(n.func))
    found_sys_calls = 0
    for cnode in tree.body:
        if isinstance(cnode, ast.ClassDef) and cnode.name in CLASSES:
            found_sys_calls += sum(1 for n in ast.walk(cnode) if isinstance(n, ast.Call) and _is_systems_call(n.func))
    # PosBase.to_system calls  _SYSTEMS[..][..].convert_to(...)  : a method call on the class, not a constructor call
    if total_sys_calls != found_sys_calls:
        raise GenError(f"{total_sys_calls - found_sys_calls} _SYSTEMS[..][..](...) calls outside the modelled classes")
    missing = {"PositionArray", "PosVelArray", "PositionDeltaArray", "PosVelDeltaArray"} - seen_classes
    if missing:
        raise GenError("classes not found in _position.py: " + ", ".join(sorted(missing)))
    if "PositionArray" not in finalize_forwards:
        raise GenError("PositionArray.__array_finalize__ not found")
    sites.append(dict(site="PositionArray.__array_finalize__#0", cls="PositionArray", method="__array_finalize__",
                      builds="PositionArray", carrier="ellipsoid", forwards=finalize_forwards["PositionArray"],
                      how="self.ellipsoid = getattr(obj, 'ellipsoid', default)", line=0))
    if len(default_names) != 1:
        raise GenError(f"default ellipsoid is not unique: {sorted(default_names)}")
    default = default_names.pop()
    rows = [emit.pair(emit.s(s["site"]), emit.b(s["forwards"])) for s in sites]
    text = ("From Coq Require Import String List Bool.\nImport ListNotations.\n"
            "(* every constructor call site of the position classes of midgard/data/_position.py: does it hand the reference\n"
            "   ellipsoid (positions: `ellipsoid`; deltas/velocities: `ref_pos`) over to the object it builds? *)\n"
            "Definition forwarding_table : list (string * bool) :=\n  " + emit.lst(rows).replace("; (", ";\n   (") + ".\n"
            f"Definition default_ellipsoid : string := {emit.s(default)}.\n")
    return text, sites, default


def _ell_name(node):
    if isinstance(node, ast.Attribute) and isinstance(node.value, ast.Name) and node.value.id == "ellipsoid":
        return node.attr
    return None


def _default_of(fn, pname):
    args = fn.args.args
    defaults = fn.args.defaults
    off = len(args) - len(defaults)
    for i, a in enumerate(args):
        if a.arg == pname and i >= off:
            return _ell_name(defaults[i - off])
    return None
