"""C11 - RINEX observation files are parsed into exactly the records they contain (DESIGN 4.11).

Proof obligations: coq/theories/Props/C11.v (model Model/C11_Rinex.v on the field tables regenerated from the
source; format specification Spec/C11_RinexFormat.v).
Correspondence: files rendered from random models by the independent writer harness/drivers/c11_rinexgen.py are
parsed by midgard (`parsers.parse_file("rinex2_obs" / "rinex3_obs", path[, sampling_rate=...])`); the text of the
file and everything midgard returned (meta, data columns; doubles shipped exactly) go to Coq, where the model
parses the same text and the comparison is evaluated (`is_nearest_double` of the decimal in the columns, NaN
exactly where absent, literal strings/flags, all columns of equal length, row order = file order)."""
from __future__ import annotations

import json
import math
import os
from fractions import Fraction

from harness import core, emit
from harness.drivers import c11_rinexgen as gen

META = {
    "property_id": "C11",
    "level": "proof",
    "design_ref": "DESIGN.md 4.11",
    "technique": ("Coq proof (round trip render/parse for every number of observation types / satellites, by induction) on a model "
                  "driven by field tables regenerated from the source + vm_compute correspondence on files from an independent writer"),
    "level_text": (
        "Theorems in Coq 8.16 over an executable model of rinex2_obs / rinex3_obs on ChainParser: the regenerated field tables "
        "equal the RINEX 2.11 / 3.0x record layouts; observation records (any number of types; v2 continuation lines incl. "
        "all-blank ones, trailing blanks stripped), SYS / # / OBS TYPES and # / TYPES OF OBSERV continuation, satellite lists "
        "(any number, continuation at column 32), epoch lines and sampling-rate decimation round-trip; the current code's "
        "dropping of blank continuation lines is refuted.  The model is tied to the code on every run by regenerating the "
        "field tables by reflection and by a correspondence check on whole files evaluated inside Coq."),
    "level_note": (
        "Trusted: Coq kernel + vm_compute; hand-written model Model/C11_Rinex.v (parser methods, post-processors) validated by "
        "the correspondence, not derived; the independent writer c11_rinexgen.py; float arithmetic of hour*3600+minute*60+second "
        "and of '% sampling_rate' is modelled exactly (rates are integers or dyadic fractions in the generated files); header "
        "records WAVELENGTH FACT, PHASE SHIFT, GLONASS SLOT/BIAS, DCBS/PCVS are outside the model; time systems other than GPS "
        "and event epochs (flag > 0) make the implementation exit and are outside the domain."),
}

THEOREMS = [
    "obs_fields_wf", "cell_roundtrip", "obs_line_roundtrip_v3", "obs_line_roundtrip_v2", "obs_lines_count_v2",
    "sat_list_roundtrip", "obs_types_fields_roundtrip_partial", "epoch_fields_roundtrip_partial", "decimation_spec",
    "blank_continuation_file_spec", "c11_blank_continuation_refuted",
    "sys_obs_types_roundtrip", "epoch_roundtrip_v3", "rinex3_file_roundtrip", "rinex3_file_rows", "decimation_file_spec",
    "undefined_types_absent",
    "types_of_observ_roundtrip", "time_of_first_obs_roundtrip", "epoch_roundtrip_v2", "sat_list_continuation_v2",
    "obs_line_classified_v2", "obs_record_roundtrip_v2",
    "rinex2_file_roundtrip", "rinex2_file_rows", "decimation_file_spec_v2",
    "header_record_roundtrip", "header_record_roundtrip_marker_number", "header_record_roundtrip_receiver",
    "header_record_roundtrip_antenna", "header_record_roundtrip_approx_position", "header_record_roundtrip_antenna_delta",
    "header_record_roundtrip_interval", "header_record_roundtrip_comment", "header_record_roundtrip_time_of_last_obs",
    "header_records_any_order", "body_comment_line_ignored_v3", "body_comment_line_ignored_v2", "blank_system_id_is_gps_partial",
    "century_file_spec", "c11_century_from_first_obs_refuted",
    "file_text_lines", "rinex3_text_roundtrip", "rinex2_text_roundtrip",
]

REQ = "From Verif Require Import Lib.Dyadic Model.C11_Rinex Model.C11_Check."
UNMODELLED_META = {"__parser_name__", "__data_path__", "l1_wave_fact_default", "l2_wave_fact_default", "l1_wave_fact_prn",
                   "l2_wave_fact_prn", "wave_fact_prn", "dcbs_applied", "pcvs_applied", "phase_shift", "glonass_slot", "glonass_bias"}


# ----------------------------------------------------------------------------------------- regeneration
def reflect_tables(modname, clsname):
    import importlib
    mod = importlib.import_module(f"midgard.parsers.{modname}")
    p = getattr(mod, clsname)(file_path=os.path.join(core.VERIF, "work", "nonexistent.rnx"))
    it = iter(p.setup_parser())
    header, obs = next(it), next(it)

    def rows(pd):
        out = []
        for label, d in pd.parser_def.items():
            strip = d.get("strip")
            if strip not in (None, "\n"):
                raise RuntimeError(f"strip mode {strip!r} of {label!r} is outside the modelled ones")
            fields = d["fields"]
            if not isinstance(fields, dict):
                raise RuntimeError(f"fields of {label!r} are not a dict")
            fs = []
            for name, idx in fields.items():
                a, b = idx
                if b is None:
                    b = 4000                      # "until the end of line"; lines are far shorter
                if not (isinstance(a, int) and isinstance(b, int) and 0 <= a <= 4000 and 0 <= b <= 4000):
                    raise RuntimeError(f"field {name!r} of {label!r}: bounds {idx!r} outside the modelled ones")
                fs.append(f"mkf {emit.s(name)} {a} {b}")
            out.append(f"  ({emit.s(str(label))}, {emit.s(d['parser'].__name__)}, {emit.b(strip == chr(10))},\n    [" + "; ".join(fs) + "])")
        return "[\n" + ";\n".join(out) + "\n]"
    return rows(header), rows(obs)


def regen(ctx):
    changed = False
    for modname, clsname, gname in (("rinex2_obs", "Rinex2Parser", "C11_Rinex2ObsFields"), ("rinex3_obs", "Rinex3Parser", "C11_Rinex3ObsFields")):
        h, o = reflect_tables(modname, clsname)
        text = ("From Coq Require Import String List.\nFrom Verif Require Import Lib.Fixed Model.C11_Rinex.\nImport ListNotations.\n"
                "Local Open Scope string_scope.\n\n"
                f"(* {modname}.{clsname}.setup_parser(): header_parser.parser_def and obs_parser.parser_def *)\n"
                f"Definition header_table : table :=\n{h}.\n\nDefinition obs_table : table :=\n{o}.\n")
        changed |= ctx.regen(gname, text)
    return changed


# ----------------------------------------------------------------------------------------- running midgard
def parse_with_midgard(version, path, sampling):
    from midgard import parsers
    kw = {}
    if sampling is not None:
        r = Fraction(*sampling)
        kw["sampling_rate"] = int(r) if r.denominator == 1 else float(r)
    try:
        p = parsers.parse_file(f"rinex{version}_obs", path, **kw)
        return p, None
    except BaseException as e:          # log.fatal raises SystemExit
        if isinstance(e, KeyboardInterrupt):
            raise
        return None, f"{type(e).__name__}: {e}"


def oval(v):
    if isinstance(v, str):
        return f"(OStr {emit.s(v)})"
    if isinstance(v, bool):
        raise ValueError("bool in meta")
    if isinstance(v, int):
        return f"(OInt {emit.z(v)})"
    if isinstance(v, float):
        return f"(ONum {emit.dy(v)})"
    if isinstance(v, list) and all(isinstance(x, str) for x in v):
        return f"(OList {emit.lst(emit.s(x) for x in v)})"
    if isinstance(v, dict) and all(isinstance(x, list) for x in v.values()):
        return "(OTypes " + emit.lst(emit.pair(emit.s(k), emit.lst(emit.s(x) for x in l)) for k, l in v.items()) + ")"
    if isinstance(v, dict) and all(isinstance(x, str) for x in v.values()):
        return "(OSDict " + emit.lst(emit.pair(emit.s(k), emit.s(x)) for k, x in v.items()) + ")"
    raise ValueError(f"meta value {v!r}")


def observed_term(version, p):
    d = p.as_dict()
    meta = [(k, v) for k, v in p.meta.items() if k not in UNMODELLED_META]
    text = d.get("text", {})
    pos = d.get("pos")
    dys = lambda xs: emit.lst(emit.dy(float(x)) for x in xs)
    strs = lambda xs: emit.lst(emit.s(str(x)) for x in xs)
    obs_keys = list(d.get("obs", {}).keys())
    if list(d.get("cycle_slip", {}).keys()) != obs_keys or list(d.get("signal_strength", {}).keys()) != obs_keys:
        raise ValueError("obs / cycle_slip / signal_strength have different keys")
    cols = emit.lst(emit.pair(emit.s(k), emit.pair(dys(d["obs"][k]), dys(d["cycle_slip"][k]), dys(d["signal_strength"][k]))) for k in obs_keys)
    satnum = text.get("satnum", [])
    fields = [
        "ob_meta := " + emit.lst(emit.pair(emit.s(k), oval(v)) for k, v in meta),
        "ob_pos := " + ("None" if pos is None else "Some " + emit.pair(*(emit.dy(float(x)) for x in pos))),
        "ob_time := " + strs(d.get("time", [])),
        "ob_flag := " + emit.lst(emit.z(x) for x in d.get("epoch_flag", [])),
        "ob_clk := " + dys(d.get("rcv_clk_offset", [])),
        "ob_station := " + strs(text.get("station", [])),
        "ob_sys := " + strs(text.get("system", [])),
        "ob_sat := " + strs(text.get("satellite", [])),
        "ob_satnum_s := " + (strs(satnum) if version == 3 else "[]"),
        "ob_satnum_z := " + (emit.lst(emit.z(x) for x in satnum) if version == 2 else "[]"),
        "ob_obs := " + cols,
    ]
    return "{| " + "; ".join(fields) + " |}"


def case_term(version, sampling, lines, obs_term):
    rate = "None" if sampling is None else f"(Some {emit.q(Fraction(*sampling))})"
    return emit.pair(emit.b(version == 3), rate, emit.lst(emit.s(l) for l in lines), "None" if obs_term is None else f"(Some {obs_term})")


# ----------------------------------------------------------------------------------------- model-side facts computed in Python (generator contract only)
def epoch_on_grid(e, sampling):
    if sampling is None:
        return True
    Y, M, D, h, m, s7 = e["t"]
    sec = Fraction(h * 3600 + m * 60) + Fraction(s7, 10 ** 7)
    return (sec / Fraction(*sampling)).denominator == 1


def has_blank_obs_line(f):
    if f["version"] != 2:
        return False
    for e in f["epochs"]:
        for s in e["sats"]:
            cs = s["cells"]
            for k in range(0, len(cs), 5):
                if all(c["v"] is None for c in cs[k:k + 5]):
                    return True
    return False


def file_text(lines, terminated=True):
    """The text of a file = its lines joined by newline characters, with or without a final terminator (Model/C11_Check.v:
    file_text / text_lines; the records denoted are the same).  A final EMPTY line cannot be written without terminator."""
    assert terminated or (lines and lines[-1] != ""), "an unterminated text cannot end with an empty line"
    return "\n".join(lines) + ("\n" if terminated else "")


def century_class(f):
    """class K of the finding c11_v2_century_from_first_obs: RINEX 2 file with an epoch record in another century than TIME OF FIRST OBS"""
    if f.get("version") != 2 or "lines" in f:
        return False
    c0 = f["hdr"]["first"][0] // 100
    return any(e["t"][0] // 100 != c0 for e in f["epochs"])


def decimal_rate(sampling):
    """class K of the finding c11_decimation_float_mod: the rate is not exactly representable (denominator not a power of two)"""
    if not sampling:
        return False
    d = Fraction(*sampling).denominator
    return d & (d - 1) != 0


def only_grid_epochs_dropped(ctx, f, obs):
    """Is midgard's result exactly the specification model's result for the file WITHOUT some of the epochs that lie on
    the sampling grid?  (Evaluated in Coq: the file restricted to the epochs midgard kept, same sampling rate.)"""
    obs_t, times = obs
    if obs_t is None or not times:
        return False
    def tstr(e):
        Y, M, D, h, m, s7 = e["t"]
        return f"{Y}-{M:02d}-{D:02d}T{h:02d}:{m:02d}:{s7 // 10 ** 7:02d}.{s7 % 10 ** 7:07d}"
    g = dict(f, epochs=[e for e in f["epochs"] if tstr(e) in times])
    if len(g["epochs"]) == len(f["epochs"]) or not g["epochs"]:
        return False
    vs = ctx.coq_cases(emit.shard_terms("check_file", [case_term(f["version"], f["sampling"], gen.render(g), obs_t)], 1), REQ, timeout=600)
    return vs == [[0]]


def spec_rendered_files(ctx):
    """The example files of Props/C11.v rendered by the FORMAL renderers (Spec/C11_RinexFile.v: render_file2 / render_file3), so
    that the text the whole-file theorems are about also goes through midgard (cross-check of the format specification)."""
    import re
    out = []
    req = REQ + "\nFrom Verif Require Import Spec.C11_RinexFile Props.C11."
    for name, version, term, rates, rows, maxsat, systypes in (
            ("spec_render_file2", 2, "render_file2 ex_file2", [None, [30, 1]], {None: 14, 30: 13}, 13, [["", ["C1"] * 7]]),
            ("spec_render_file3", 3, "render_file3 ex_file3", [None, [30, 1]], {None: 3, 30: 2}, 2, [["E", ["C1X"] * 14]])):
        txt = ctx.coq_eval(req, term)
        m = re.search(r"=\s*\[(.*)\]\s*:\s*list string", txt, re.S)
        if not m:
            ctx.notes.append(f"{name}: could not read the rendered lines: {txt[-300:]}")
            continue
        lines = [x.replace('""', '"') for x in re.findall(r'"((?:[^"]|"")*)"(?:%string)?', m.group(1))]
        for rate in rates:
            out.append((f"{name}_rate_{rate[0] if rate else 'none'}",
                        dict(version=version, sampling=rate, lines=lines, rows=rows[rate[0] if rate else None], maxsat=maxsat,
                             systypes=systypes, epochs=[], near_grid=False)))
    return out


def corpus():
    """Hand-written files first (classes that failed earlier)."""
    def cell(v):
        return dict(v=v, lead0=True, lli=None, ssi=None)
    hdr = dict(version_text="2.11", file_type_text="OBSERVATION DATA", sat_sys_text="G", program="p", run_by="r", file_created="d",
               marker_name="TEST", pos=[28201711098, 5134859023, 56789357406], first=[2018, 2, 1, 0, 0, 0], comments={})
    types = ["C1", "C2", "C5", "P1", "P2", "L1", "L2"]
    sats = [dict(sys="G", prn=1, pad="0", cells=[cell(x) for x in [11000, 12000, 13000, 14000, 15000, None, None]]),
            dict(sys="G", prn=2, pad="0", cells=[cell(x) for x in [21000, 22000, 23000, 24000, 25000, 26000, 27000]]),
            dict(sys="G", prn=3, pad="0", cells=[cell(x) for x in [31000, 32000, 33000, 34000, 35000, 36000, 37000]])]
    f1 = dict(version=2, hdr=hdr, systypes=[["", types]], style=dict(strip=True), sampling=None,
              epochs=[dict(t=[2018, 2, 1, 0, 0, 0], clk=None, sats=sats, comment_after=[])])
    f2 = json.loads(json.dumps(f1))
    f2["style"]["strip"] = False                      # the blank continuation line consists of 32 blanks
    out = [("blank_continuation_stripped", f1), ("blank_continuation_unstripped", f2)]
    for version in (2, 3):                             # 10 Hz data decimated to 5 Hz
        f = json.loads(json.dumps(f1))
        f["version"] = version
        if version == 3:
            f["hdr"]["version_text"] = "3.03"
            f["systypes"] = [["G", ["C1C", "L1C"]]]
        else:
            f["systypes"] = [["", ["C1", "L1"]]]
        f["epochs"] = [dict(t=[2018, 2, 1, 0, 0, k * 10 ** 6], clk=None, comment_after=[],
                            sats=[dict(sys="G", prn=1, pad="0", cells=[cell(20000000000 + k), cell(100000000 + k)])]) for k in range(11)]
        f["sampling"] = [1, 5]
        out.append((f"ten_hz_to_five_hz_v{version}", f))
    # files whose text is NOT terminated by a newline character: the last line is an observation record (v3; v2 one-line record),
    # a continuation line of a record (v2, 7 types), or an epoch line (truncated file: epoch record without satellites)
    def unterminated(name, version, types, sats_last, cut=True):
        f = json.loads(json.dumps(f1))
        f["version"] = version
        f["style"]["strip"] = cut
        if version == 3:
            f["hdr"]["version_text"] = "3.03"
            f["systypes"] = [["G", types]]
        else:
            f["systypes"] = [["", types]]
        mk = lambda k: [cell(1000 * (k + 1) + j + 1) for j in range(len(types))]
        f["epochs"] = [dict(t=[2018, 2, 1, 0, 0, 0], clk=None, comment_after=[],
                            sats=[dict(sys="G", prn=k + 1, pad="0", cells=mk(k)) for k in range(2)]),
                       dict(t=[2018, 2, 1, 0, 0, 30 * 10 ** 7], clk=None, comment_after=[],
                            sats=[dict(sys="G", prn=k + 1, pad="0", cells=mk(k)) for k in range(sats_last)])]
        f["no_final_newline"] = True
        out.append((name, f))
    unterminated("unterminated_v3_obs_record", 3, ["C1C", "L1C", "S1C"], 2)
    unterminated("unterminated_v2_obs_record", 2, ["C1", "L1", "S1"], 2)
    unterminated("unterminated_v2_continuation_line", 2, ["C1", "C2", "C5", "P1", "P2", "L1", "L2"], 2)
    unterminated("unterminated_v2_obs_record_blanks_kept", 2, ["C1", "L1"], 1, cut=False)
    unterminated("unterminated_v3_epoch_line", 3, ["C1C", "L1C"], 0)
    unterminated("unterminated_v2_epoch_line", 2, ["C1", "L1"], 0)
    # sessions running over New Year: epoch records in the calendar year after TIME OF FIRST OBS (two-digit year of RINEX 2 must be
    # combined with the CENTURY of the first observation, not with its year); without / with TIME OF LAST OBS; 1999 -> 2000
    for version in (2, 3):
        for y0, last in ((2017, None), (2017, "next"), (2017, "same"), (1999, None)):
            f = json.loads(json.dumps(dict(out)[f"ten_hz_to_five_hz_v{version}"]))
            times = [[y0, 12, 31, 23, 59, 30 * 10 ** 7], [y0 + 1, 1, 1, 0, 0, 0], [y0 + 1, 1, 1, 0, 0, 30 * 10 ** 7]]
            f["hdr"]["first"] = times[0]
            f["hdr"]["last"] = {None: None, "next": times[-1], "same": [y0, 12, 31, 23, 59, 59 * 10 ** 7]}[last]
            f["epochs"] = [dict(t=t, clk=None, comment_after=[],
                                sats=[dict(sys="G", prn=1, pad="0", cells=[cell(20000000000 + k), cell(100000000 + k)])]) for k, t in enumerate(times)]
            f["sampling"] = None
            f["new_year"] = True
            out.append((f"new_year_v{version}_{y0}_last_{last}", f))
    # epochs on the grid and 1e-7 .. 5e-4 s off it, integer and dyadic rates: float '%' is exact there, comparison is strict
    for version, rate, secs7 in ((2, [30, 1], [0, 300002000, 599999999, 600000000, 900000001, 1199995001]),
                                 (3, [1, 1], [0, 10003000, 19998000, 20000000, 29999999, 30000001]),
                                 (3, [1, 2], [0, 5000001, 10000000, 14999999, 20002000, 25000000]),
                                 (2, [1, 4], [0, 2500000, 5004999, 7500000, 9999000, 12500000])):
        f = json.loads(json.dumps(dict(out)[f"ten_hz_to_five_hz_v{version}"]))
        f["epochs"] = [dict(t=[2018, 2, 1, 0, s7 // (60 * 10 ** 7), s7 % (60 * 10 ** 7)], clk=None, comment_after=[],
                            sats=[dict(sys="G", prn=1, pad="0", cells=[cell(20000000000 + k), cell(100000000 + k)])]) for k, s7 in enumerate(secs7)]
        f["sampling"] = rate
        f["near_grid"] = True
        out.append((f"near_grid_v{version}_rate_{rate[0]}_{rate[1]}", f))
    return out


# ----------------------------------------------------------------------------------------- the run
def run(ctx):
    try:
        regen(ctx)
        regen_ok = True
    except Exception as e:
        ctx.log(f"regeneration of the field tables failed: {type(e).__name__}: {e}")
        ctx.notes.append(f"regen: {type(e).__name__}: {e}")
        regen_ok = False
    ok = regen_ok and ctx.prove(THEOREMS)
    rng = ctx.rng
    n_small, n_big = (70, 10) if ctx.quick() else (1400, 200)
    files = [(name, f) for name, f in corpus()]
    if ok:
        files += spec_rendered_files(ctx)
    for i in range(n_small + n_big):
        version = 2 if i % 2 == 0 else 3
        size = "big" if i >= n_small else "small"
        f = gen.rand_file(rng, version, size)
        if f["sampling"] is not None and not any(epoch_on_grid(e, f["sampling"]) for e in f["epochs"]):
            f["sampling"] = None                       # contract: at least one epoch survives the decimation
        files.append((f"rand{i}", f))

    cases, metas, models, obs_terms = [], [], {}, {}
    os.makedirs(ctx.work, exist_ok=True)
    for name, f in files:
        lines = f["lines"] if "lines" in f else gen.render(f)
        path = os.path.join(ctx.work, f"{name}.rnx")
        with open(path, "w", newline="") as fh:
            fh.write(file_text(lines, terminated=not f.get("no_final_newline")))
        p, err = parse_with_midgard(f["version"], path, f["sampling"])
        nrows = f["rows"] if "lines" in f else sum(len(e["sats"]) for e in f["epochs"] if epoch_on_grid(e, f["sampling"]))
        models[name] = f
        rep = dict(kind="file", name=name, version=f["version"], sampling=f["sampling"], lines=lines,
                   no_final_newline=bool(f.get("no_final_newline")),
                   expected_rows=nrows, blank_observation_line=("" in f["lines"]) if "lines" in f else has_blank_obs_line(f),
                   how=f"parsers.parse_file('rinex{f['version']}_obs', <file with these lines>" +
                       (f", sampling_rate={f['sampling'][0]}/{f['sampling'][1]})" if f["sampling"] else ")") + ".as_dict() / .meta")
        if p is None:
            rep["observed"] = err
            obs_t = None
        else:
            try:
                obs_t = observed_term(f["version"], p)
                rep["observed_rows"] = len(p.data.get("time", []))
                rep["observed_satellites"] = list(p.data.get("text", {}).get("satellite", []))[:60]
            except Exception as e:
                rep["observed"] = f"unreadable result: {type(e).__name__}: {e}"
                ctx.violation(rep, what="result of the parser has a shape outside the property's observables")
                continue
        obs_terms[name] = (obs_t, None if p is None else set(p.data.get("time", [])))
        cases.append(case_term(f["version"], f["sampling"], lines, obs_t))
        metas.append(rep)
        ntypes = max(len(t) for _, t in f["systypes"])
        nsat = f["maxsat"] if "lines" in f else max(len(e["sats"]) for e in f["epochs"])
        ctx.count(f"v{f['version']}:types<= {5 * ((ntypes + 4) // 5)}")
        ctx.count(f"v{f['version']}:maxsats<= {12 * ((nsat + 11) // 12)}")
        ctx.count("sampling:" + ("none" if not f["sampling"] else "set"))
        ctx.count("nsys:%d" % len(f["systypes"]))
        if rep["blank_observation_line"]:
            ctx.count("class:blank_observation_line")
        if f.get("no_final_newline"):
            ctx.count("class:no_final_newline(files)")
        if f.get("new_year"):
            ctx.count("class:new_year_session(files)")
        if f.get("near_grid"):
            ctx.count("class:near_grid_epochs(files)")
            ctx.count("class:near_grid_epochs(off-grid epochs within 5e-4 s)", sum(1 for e in f["epochs"] if not epoch_on_grid(e, f["sampling"])))
        ctx.case((f["version"], tuple(lines), tuple(f["sampling"] or ())), nontrivial=nrows >= 2 and ntypes >= 2,
                 sample=dict(name=name, version=f["version"], first_lines=lines[:3], rows=nrows) if len(metas) <= 3 else None)

    per = 6 if ctx.quick() else 12
    vs = ctx.coq_cases(emit.shard_terms("check_file", cases, per), REQ, timeout=1500)
    flat = emit.flatten_verdicts(vs, len(cases))
    if flat is None:
        ctx.violation({"broken": "correspondence shards did not evaluate in Coq", "errors": ctx.last_coq_errors[:2]},
                      what="correspondence (model evaluation) failed", found=False)
    else:
        for v, rep in zip(flat, metas):
            if v == 0:
                continue
            rep = dict(rep, verdict=v)
            if v == 2 and rep["blank_observation_line"]:
                ctx.count("quirk:blank_line_dropped")
                ctx.finding("c11_blank_continuation_dropped",
                            "rinex2_obs drops an all-blank observation line (label lambda: ''.isspace() is False), so with more than "
                            "five observation types the values of the following satellites shift and the epoch loses rows", rep)
            elif v == 4 and century_class(models[rep["name"]]):
                ctx.count("quirk:century_from_first_obs")
                ctx.finding("c11_v2_century_from_first_obs",
                            "rinex2_obs takes the century of the two-digit year of an epoch record from TIME OF FIRST OBS: in a session over "
                            "1999/2000 the records '00  1  1 ...' come back as 1900-01-01", rep)
            elif v == 3:
                ctx.violation(rep, what="per-record columns returned by the parser have different lengths")
            elif v == 1 and decimal_rate(rep["sampling"]) and only_grid_epochs_dropped(ctx, models[rep["name"]], obs_terms[rep["name"]]):
                ctx.count("quirk:decimation_float_mod")
                ctx.finding("c11_decimation_float_mod",
                            "sampling-rate decimation uses binary floating point '%': with a rate that is not a dyadic fraction "
                            "(0.1 s, 0.2 s) epochs on the grid are dropped", rep)
            else:
                ctx.violation(rep, what="midgard's result differs from the model of the file's contents")
    if not ok and not ctx.violations:
        def search():
            # the regenerated field tables no longer have the format's layout: compare midgard with the model on the
            # layouts of Spec/C11_RinexFormat.v; a file on which they differ is the failing input
            vs2 = ctx.coq_cases(emit.shard_terms("check_file_spec", cases, per), REQ, timeout=1500)
            flat2 = emit.flatten_verdicts(vs2, len(cases))
            if flat2 is None:
                return None
            for v, rep in zip(flat2, metas):
                if v == 1 or (v == 2 and not rep["blank_observation_line"]):
                    return dict(rep, verdict=v, what="a proof obligation no longer checks (see log) and midgard's result differs from "
                                                     "the model on the record layouts of the RINEX format definition")
            return None
        ctx.obligations_broken(search)
    ctx.trusted += [
        "Coq 8.16.1 kernel, coqc, vm_compute (no native_compute)",
        "hand-written model coq/theories/Model/C11_Rinex.v + comparison Model/C11_Check.v (validated against midgard by this run's correspondence)",
        "harness/drivers/c11.py (reflection of parser_def tables, call of the implementation, term emission), harness/drivers/c11_rinexgen.py (independent writer)",
        "Lib/Text.v, Lib/Decimal.v, Lib/Fixed.v, Lib/Dyadic.v (shared libraries, no axioms)",
    ]
    ctx.assume += ["TIME OF FIRST OBS names the GPS time system; epoch flags are 0 (anything else makes midgard exit via log.fatal)",
                   "seconds have at most 7 decimals; hour*3600+minute*60+second is computed exactly (true for doubles of this size up to 1 ulp, "
                   "which never reaches a grid point); random files use integer or dyadic sampling rates, decimal rates are the class of finding c11_decimation_float_mod",
                   "at least one epoch survives the decimation (otherwise the post-processors raise KeyError 'text')",
                   "blank satellite-system identifiers only in epochs without continuation line"]
    return ctx.finish(
        level="proof",
        rule=("files from the independent writer: RINEX 2.10/2.11 and 3.02-3.04, 1..4 constellations (+ declared-but-unobserved system), "
              "1..30 observation types, 1..40 satellites per epoch, blank / 0.000 / -0.000 / negative / full-width / no-leading-zero values, "
              "LLI and signal-strength digits incl. 0 and blank, trailing blanks stripped / kept / mixed per line, missing clock offset, "
              "header comments and optional records in varying presence, body comment lines, sub-second epochs, sampling rates (integer / dyadic) "
              "with epochs exactly on the grid and 1e-7 .. 5e-4 s off it on both sides (exact decimal arithmetic in the model decides); "
              "distinct_nontrivial = distinct files with >= 2 rows and >= 2 observation types"),
    )


def replay(ctx, path):
    rep = json.load(open(path))
    print(json.dumps({k: v for k, v in rep.items() if k != "lines"}, indent=1))
    lines = rep.get("lines")
    if lines:
        out = os.path.join(ctx.work, "replay.rnx")
        with open(out, "w", newline="") as fh:
            fh.write(file_text(lines, terminated=not rep.get("no_final_newline")))
        print("file written to", out)
        p, err = parse_with_midgard(rep["version"], out, rep.get("sampling"))
        print("midgard:", err if p is None else f"{len(p.data.get('time', []))} rows, satellites {p.data.get('text', {}).get('satellite')}")
        rate = "None" if not rep.get("sampling") else f"(Some {emit.q(Fraction(*rep['sampling']))})"
        print("model (time, satellite) rows:", ctx.coq_eval(REQ, "spec_rows " + emit.pair(emit.b(rep["version"] == 3), rate, emit.lst(emit.s(l) for l in lines))))
    return 0
