"""C01 - time-scale conversions (DESIGN 4.1).

Proof obligations: coq/theories/Props/C01.v (model: Model/C01_Scales.v, lemmas: Proofs/C01_Scales.v,
independent oracle: Spec/C01_IersTaiUtc.v).  Regenerated on every run from the tree under test:
Gen/C01_TaiUtc.v (the rows of midgard/data/_taiutc.txt as exact decimals AND the loaded _TAIUTC doubles),
Gen/C01_Const.v (L_G, T_0 of midgard/math/constant.txt as exact decimals AND the loaded doubles),
Gen/C01_Graph.v (edge list of _time._CONVERSIONS['TimeArray'] in registration order), Gen/C01_Hops.v (bodies of delta_gps_tai /
delta_tai_tt / delta_tcg_tt and the delta each _x2y converter adds, by a fail-closed ast pass).
Correspondence: real Time(...).<scale> conversions for all 25 ordered scale pairs at epochs dense around every
table boundary and at random epochs 1961-2100, scalar / length-1 / length-n (permuted); the exact doubles
(jd1, jd2) of input and result are shipped to Coq and compared there with the rational model within 1 ns."""
from __future__ import annotations

import configparser
import json
import os
import re
from datetime import datetime, timedelta
from fractions import Fraction

from harness import core, emit

META = {
    "property_id": "C01",
    "level": "proof",
    "design_ref": "DESIGN.md 4.1",
    "technique": ("Coq proof over an exact rational model of delta_tai_utc / the constant and affine hops / the BFS route search / "
                  "to_scale, tables regenerated from the source on every run and compared with a hand-typed IERS history, "
                  "+ vm_compute correspondence with midgard.data.time on exact doubles"),
    "level_text": (
        "Theorems in Coq 8.16 over an executable exact (rational) model of midgard.data._time: the TAI-UTC table regenerated "
        "from _taiutc.txt on every run is well formed and equals an independently typed-in IERS history (computed); UTC->TAI "
        "adds exactly the published offset/drift of the unique row in force for every epoch; TAI-GPS = 19 s, TT-TAI = 32.184 s, "
        "TCG-TT = L_G/(1-L_G)(TT-T0) for every epoch with exact inverses; UTC->TAI->UTC is the identity on every leap-second "
        "row and within 4 ns on the drift rows for every epoch of the stated domain; all 25 ordered pairs are routable by the "
        "modelled breadth-first search; A->B->C equals A->C for all 125 routes and A->B->A is the identity for all 25 pairs within the "
        "property's 10 ns on a computable domain (utc_ok: everything from 1961 to 9999-12-30 except the first/last microsecond of the "
        "pre-1972 drift rows and the UTC labels skipped by a downward step), exactly when UTC is not revisited; array conversions are "
        "element-aligned under any re-indexing; the code of delta_gps_tai/delta_tai_tt/delta_tcg_tt and of the _x2y converters, translated "
        "by a fail-closed ast pass on every run, returns exactly 19 s, 32.184 s, L_G/(1-L_G)(TT-T0) and equals the model's hops. "
        "The model is tied to the code on every run by a correspondence check: real Time conversions (all 25 pairs, epochs "
        "dense around each of the 41 table boundaries and random 1961-2100, scalar/length-1/length-n permuted arrays) are "
        "compared inside Coq with the model on the exact doubles within 1 ns."),
    "level_note": (
        "Trusted: Coq kernel + vm_compute; the hand-written model Model/C01_Scales.v (validated by the correspondence, not derived); "
        "the hand-typed oracle Spec/C01_IersTaiUtc.v; the float layer is covered by the stated tolerance (1 ns per conversion), not "
        "by proof; the lru_cache on to_scale belongs to C08; input formats belong to C02 (jd, mjd and datetime inputs are used here)."),
}

THEOREMS = [
    "taiutc_wf", "taiutc_loaded_is_text", "taiutc_matches_published", "constants_match_published",
    "row_unique", "utc_tai_defining", "gps_tai_19", "tt_tai_32184", "tcg_tt_LG", "hop_inverse_exact",
    "utc_tai_utc", "utc_tai_utc_exact_on_leap_rows", "tai_utc_tai",
    "routes_total", "route_is_tree_path", "two_hop_path_independent_exact", "hop_error_compose", "hop_types", "utc_ok_domain",
    "two_hop_path_independent", "roundtrip_all_pairs_10ns", "roundtrip_all_pairs", "to_scale_pointwise", "array_alignment",
    "code_constants_match_spec", "code_hops_match_model", "c01_row_by_float_sum_refuted", "utc_tai_utc_boundary_refuted",
]

REQ = "From Verif Require Import Lib.Dyadic Model.C01_Scales."
SCALES = ["utc", "tai", "gps", "tt", "tcg"]


# ----------------------------------------------------------------------------- regeneration
def _dec(text):
    """decimal literal -> exact Fraction (fail closed on anything that is not a plain decimal)."""
    t = text.strip()
    if not re.fullmatch(r"[+-]?(\d+\.?\d*|\.\d+)([eE][+-]?\d+)?", t):
        raise ValueError(f"not a decimal literal: {text!r}")
    return Fraction(t)


def read_taiutc_text(repo):
    rows = []
    with open(os.path.join(repo, "midgard", "data", "_taiutc.txt"), encoding="utf8") as f:
        for line in f:
            line = line.split("#", 1)[0].strip()
            if not line:
                continue
            parts = line.split()
            if len(parts) != 5:
                raise ValueError(f"_taiutc.txt: row with {len(parts)} columns: {line!r}")
            rows.append(tuple(_dec(p) for p in parts))
    return rows


def read_constants_text(repo):
    cp = configparser.ConfigParser(delimiters=("=",), interpolation=configparser.BasicInterpolation())
    cp.optionxform = str
    cp.read(os.path.join(repo, "midgard", "math", "constant.txt"), encoding="utf8")
    out = {}
    for name in ("L_G", "T_0", "T_0_jd1", "T_0_jd2"):
        out[name] = _dec(cp.get(name, "default"))
    return out


# ----------------------------------------------------------------------------- fail-closed ast pass over the delta_* / _x2y bodies
class Refuse(Exception):
    """the source has a shape the translator does not know: nothing is guessed"""


UNIT_NAMES = {"seconds2day": "(1 / 86400)", "second2day": "(1 / 86400)", "day2seconds": "86400", "day2second": "86400"}
CONST_NAMES = ("L_G", "T_0", "T_0_jd1", "T_0_jd2")


def _coq_expr(node, src, param, env):
    """arithmetic expression over time.jd1/jd2, Unit.<x>, constant.<X>, local names, decimal literals -> Coq term over Q"""
    import ast
    if isinstance(node, ast.Constant) and isinstance(node.value, (int, float)) and not isinstance(node.value, bool):
        text = ast.get_source_segment(src, node)
        return emit.q(_dec(text.replace("_", "")))
    if isinstance(node, ast.Name):
        if node.id in env:
            return env[node.id]
        raise Refuse(f"unknown name {node.id!r}")
    if isinstance(node, ast.Attribute) and isinstance(node.value, ast.Name):
        base, attr = node.value.id, node.attr
        if base == param and attr in ("jd1", "jd2"):
            return "j1" if attr == "jd1" else "j2"
        if base == "Unit" and attr in UNIT_NAMES:
            return UNIT_NAMES[attr]
        if base == "constant" and attr in CONST_NAMES:
            return f"{attr}_txt"
        raise Refuse(f"unknown attribute {base}.{attr}")
    if isinstance(node, ast.BinOp) and type(node.op) in (ast.Add, ast.Sub, ast.Mult, ast.Div):
        op = {ast.Add: "+", ast.Sub: "-", ast.Mult: "*", ast.Div: "/"}[type(node.op)]
        return f"({_coq_expr(node.left, src, param, env)} {op} {_coq_expr(node.right, src, param, env)})"
    if isinstance(node, ast.UnaryOp) and type(node.op) in (ast.USub, ast.UAdd):
        inner = _coq_expr(node.operand, src, param, env)
        return f"(- {inner})" if isinstance(node.op, ast.USub) else inner
    if isinstance(node, ast.IfExp):
        return f"(if {_coq_scale_test(node.test, param)} then {_coq_expr(node.body, src, param, env)} else {_coq_expr(node.orelse, src, param, env)})"
    raise Refuse(f"expression {ast.dump(node)[:80]}")


def _coq_scale_test(t, param):
    """<param>.scale == "<scale>"  ->  Coq boolean"""
    import ast
    if not (isinstance(t, ast.Compare) and len(t.ops) == 1 and isinstance(t.ops[0], ast.Eq)
            and isinstance(t.left, ast.Attribute) and isinstance(t.left.value, ast.Name) and t.left.value.id == param
            and t.left.attr == "scale" and isinstance(t.comparators[0], ast.Constant) and isinstance(t.comparators[0].value, str)):
        raise Refuse("test is not <time>.scale == '<scale>'")
    return f"(scale =? {emit.s(t.comparators[0].value)})%string"


def _coq_block(stmts, src, param, env):
    """assignments of expressions to local names, then `return e` or `if <param>.scale == "<s>": ... else: ...`"""
    import ast
    env = dict(env)
    for k, st in enumerate(stmts):
        if isinstance(st, ast.Expr) and isinstance(st.value, ast.Constant) and isinstance(st.value.value, str):
            continue                                      # docstring
        if isinstance(st, ast.Assign) and len(st.targets) == 1 and isinstance(st.targets[0], ast.Name):
            env[st.targets[0].id] = _coq_expr(st.value, src, param, env)
            continue
        if isinstance(st, ast.Return) and st.value is not None:
            if k != len(stmts) - 1:
                raise Refuse("statements after return")
            return _coq_expr(st.value, src, param, env)
        if isinstance(st, ast.If):
            test = _coq_scale_test(st.test, param)
            if k != len(stmts) - 1 or not st.orelse:
                raise Refuse("if without else / statements after if")
            a = _coq_block(st.body, src, param, env)
            b = _coq_block(st.orelse, src, param, env)
            return f"(if {test} then {a} else {b})"
        raise Refuse(f"statement {type(st).__name__}")
    raise Refuse("no return")


def translate_hops(repo, conversions):
    """Gen/C01_Hops.v: the bodies of delta_gps_tai / delta_tai_tt / delta_tcg_tt as Coq functions of (scale, jd1, jd2), and for
    every registered edge which delta function its _x2y converter adds to jd2.  Raises Refuse on any unknown shape."""
    import ast
    path = os.path.join(repo, "midgard", "data", "_time.py")
    src = open(path, encoding="utf8").read()
    tree = ast.parse(src)
    funcs = {n.name: n for n in tree.body if isinstance(n, ast.FunctionDef)}
    out = "From Coq Require Import ZArith QArith String List.\nFrom Verif Require Import Gen.C01_Const.\nImport ListNotations.\nOpen Scope Q_scope.\n"
    out += "(* translated from midgard/data/_time.py by the fail-closed ast pass of harness/drivers/c01.py: value returned by delta_*(time)\n   [days] as a function of time.scale, time.jd1, time.jd2 *)\n"
    deltas = {}
    for name in ("delta_gps_tai", "delta_tai_tt", "delta_tcg_tt"):
        f = funcs.get(name)
        if f is None or len(f.args.args) != 1 or f.args.vararg or f.args.kwarg or f.decorator_list:
            raise Refuse(f"{name}: not a plain one-argument module function")
        body = _coq_block(f.body, src, f.args.args[0].arg, {})
        out += f"Definition code_{name} (scale : string) (j1 j2 : Q) : Q :=\n  {body}.\n"
        deltas[name] = True
    table_hops, rows = [], []
    for (a, b), fn in conversions.items():
        f = funcs.get(getattr(fn, "__name__", None))
        if f is None or len(f.args.args) != 1 or f.decorator_list:
            raise Refuse(f"converter of {a}->{b} is not a plain module function")
        p = f.args.args[0].arg
        stmts = [st for st in f.body if not (isinstance(st, ast.Expr) and isinstance(st.value, ast.Constant))]
        if len(stmts) != 1 or not isinstance(stmts[0], ast.Return) or not isinstance(stmts[0].value, ast.Tuple) or len(stmts[0].value.elts) != 2:
            raise Refuse(f"{f.name}: body is not `return <jd1>, <jd2>`")
        e1, e2 = stmts[0].value.elts

        def is_attr(n, attr):
            return isinstance(n, ast.Attribute) and isinstance(n.value, ast.Name) and n.value.id == p and n.attr == attr
        if not is_attr(e1, "jd1") or not (isinstance(e2, ast.BinOp) and isinstance(e2.op, ast.Add)):
            raise Refuse(f"{f.name}: not (x.jd1, x.jd2 + delta(x))")
        l, r = (e2.left, e2.right) if is_attr(e2.left, "jd2") else (e2.right, e2.left)
        if not (is_attr(l, "jd2") and isinstance(r, ast.Call) and isinstance(r.func, ast.Name) and len(r.args) == 1
                and isinstance(r.args[0], ast.Name) and r.args[0].id == p and not r.keywords):
            raise Refuse(f"{f.name}: not (x.jd1, x.jd2 + delta(x))")
        if r.func.id == "delta_tai_utc":
            table_hops.append((a, b))
        elif r.func.id in deltas:
            rows.append((a, b, r.func.id))
        else:
            raise Refuse(f"{f.name}: unknown delta function {r.func.id}")
    out += "(* what the registered converter of edge (a, b) adds to jd2: delta_<fn>(time) with time.scale = a *)\n"
    out += "Definition code_hop (a b : string) : option (Q -> Q -> Q) :=\n"
    for a, b, fn in rows:
        out += f"  if ((a =? {emit.s(a)}) && (b =? {emit.s(b)}))%string%bool then Some (code_{fn} {emit.s(a)}) else\n"
    out += "  None.\n"
    out += "(* edges whose converter adds delta_tai_utc (table lookup; modelled by hand, tied by the correspondence) *)\n"
    out += "Definition code_table_hops : list (string * string) :=\n  [" + "; ".join(f"({emit.s(a)}, {emit.s(b)})" for a, b in table_hops) + "].\n"
    out += "Definition hops_translated : bool := true.\n"
    return out


HOPS_REFUSED = """From Coq Require Import ZArith QArith String List.
Import ListNotations.
Open Scope Q_scope.
(* the ast pass REFUSED the current source: {reason}
   The definitions below are placeholders; the theorems code_hops_match_model / code_constants_match_spec do not hold for them. *)
Definition code_delta_gps_tai (scale : string) (j1 j2 : Q) : Q := 0.
Definition code_delta_tai_tt (scale : string) (j1 j2 : Q) : Q := 0.
Definition code_delta_tcg_tt (scale : string) (j1 j2 : Q) : Q := 0.
Definition code_hop (a b : string) : option (Q -> Q -> Q) := None.
Definition code_table_hops : list (string * string) := [].
Definition hops_translated : bool := false.
"""


def regen(ctx):
    repo = core.REPO
    from midgard.data import _time
    from midgard.math.constant import constant

    rows = read_taiutc_text(repo)
    loaded = _time._TAIUTC
    names = ["start", "end", "offset", "ref_epoch", "factor"]

    def row_q(r):
        return "(" + ", ".join(emit.q(x) for x in r) + ")"

    def row_dy(r):
        return "(" + ", ".join(emit.dy(float(r[n])) for n in names) + ")"

    txt = "From Coq Require Import ZArith QArith List.\nFrom Verif Require Import Lib.Dyadic.\nImport ListNotations.\n"
    txt += "(* rows of midgard/data/_taiutc.txt as the exact decimals written there: start, end [JD], offset [s], ref [MJD], factor [s/day] *)\n"
    txt += "Definition taiutc_txt : list (Q * Q * Q * Q * Q) :=\n [ " + ";\n   ".join(row_q(r) for r in rows) + " ].\n\n"
    txt += "(* the array _time._TAIUTC as loaded by read_tai_utc() (exact doubles) *)\n"
    txt += "Definition taiutc_loaded : list (dy * dy * dy * dy * dy) :=\n [ " + ";\n   ".join(row_dy(r) for r in loaded) + " ].\n"
    ctx.regen("C01_TaiUtc", txt)

    c = read_constants_text(repo)
    txt = "From Coq Require Import ZArith QArith.\nFrom Verif Require Import Lib.Dyadic.\n"
    txt += "(* midgard/math/constant.txt: decimal text and the double the constant object delivers *)\n"
    for name in ("L_G", "T_0", "T_0_jd1", "T_0_jd2"):
        txt += f"Definition {name}_txt : Q := {emit.q(c[name])}.\n"
        txt += f"Definition {name}_loaded : dy := {emit.dy(float(getattr(constant, name)))}.\n"
    from midgard.math.unit import Unit
    txt += f"Definition seconds2day_loaded : dy := {emit.dy(float(Unit.seconds2day))}.\n"
    ctx.regen("C01_Const", txt)

    edges = list(_time._CONVERSIONS["TimeArray"].keys())
    txt = "From Coq Require Import String List.\nImport ListNotations.\nOpen Scope string_scope.\n"
    txt += "(* keys of _time._CONVERSIONS['TimeArray'] in registration (dict) order, the order the breadth-first search sees *)\n"
    txt += "Definition edges : list (string * string) :=\n [ " + "; ".join(f"({emit.s(a)}, {emit.s(b)})".replace("%string", "") for a, b in edges) + " ].\n"
    txt += "Definition scales_registered : list string :=\n [ " + "; ".join(emit.s(a).replace("%string", "") for a in _time._SCALES["TimeArray"]) + " ].\n"
    ctx.regen("C01_Graph", txt)

    try:
        ctx.regen("C01_Hops", translate_hops(repo, _time._CONVERSIONS["TimeArray"]))
    except Refuse as e:
        ctx.notes.append(f"ast pass refused: {e}")
        ctx.log(f"ast pass over delta_*/_x2y REFUSED: {e}")
        ctx.regen("C01_Hops", HOPS_REFUSED.format(reason=str(e).replace("*)", "* )")))
    return dict(rows=rows, const=c, edges=edges)


# ----------------------------------------------------------------------------- running the implementation
OFFS_US = [0, 1, 2, 5, 10, 20, 50, 100, 1000, 10 ** 4, 10 ** 5, 10 ** 6, 2 * 10 ** 6]
DAY_US = 86400 * 10 ** 6
MJD0 = Fraction(24000005, 10)


class Log:
    """Every conversion performed on the implementation is one check_conv case (exact doubles in/out)."""

    def __init__(self, ctx):
        self.ctx = ctx
        self.cases = []       # coq terms
        self.meta = []        # replay dicts
        self.other = []       # things outside the model (exceptions ...)

    def add(self, a, b, i1, i2, o1, o2, how, form):
        self.cases.append(emit.pair(emit.s(a), emit.s(b), emit.pair(emit.dy(i1), emit.dy(i2)), emit.pair(emit.dy(o1), emit.dy(o2))))
        self.meta.append(dict(kind="conversion", from_scale=a, to_scale=b, jd1=float(i1).hex(), jd2=float(i2).hex(),
                              jd1_dec=repr(float(i1)), jd2_dec=repr(float(i2)),
                              observed_jd1=float(o1).hex(), observed_jd2=float(o2).hex(),
                              observed_jd2_dec=repr(float(o2)), form=form, how=how))
        return len(self.cases) - 1


def mk_time(a, jd1, jd2, form):
    """Build the input Time object (public API only). form: scalar | len1 | datetime"""
    import numpy as np
    from midgard.data.time import Time
    if form == "scalar":
        return Time(float(jd1), val2=float(jd2), scale=a, fmt="jd")
    if form == "len1":
        return Time(np.array([float(jd1)]), val2=np.array([float(jd2)]), scale=a, fmt="jd")
    if form == "mjd":
        return Time(float(jd1) - 2400000.5, val2=float(jd2), scale=a, fmt="mjd")
    raise ValueError(form)


def jds_of(t):
    """(list of jd1, list of jd2, is_array) of a Time object"""
    import numpy as np
    j1, j2 = t.jd1, t.jd2
    if isinstance(j1, np.ndarray) and j1.ndim > 0:
        return [float(v) for v in j1], [float(v) for v in np.broadcast_to(j2, j1.shape)], True
    if isinstance(j2, np.ndarray) and j2.ndim > 0:
        return [float(v) for v in np.broadcast_to(j1, j2.shape)], [float(v) for v in j2], True
    return [float(j1)], [float(j2)], False


def convert(log, t, a, b, form, how):
    """t (scale a) -> scale b on the implementation; logs one case per element; returns (result, [case ids])."""
    try:
        r = getattr(t, b)
        i1, i2, _ = jds_of(t)
        o1, o2, _ = jds_of(r)
    except Exception as e:  # outside the model
        log.other.append(dict(kind="exception", from_scale=a, to_scale=b, how=how, form=form,
                              error=f"{type(e).__name__}: {e}", jd1=repr(getattr(t, 'jd1', None)), jd2=repr(getattr(t, 'jd2', None))))
        return None, []
    if len(i1) != len(o1):
        log.other.append(dict(kind="length", from_scale=a, to_scale=b, how=how, form=form, n_in=len(i1), n_out=len(o1)))
        return None, []
    ids = [log.add(a, b, x1, x2, y1, y2, how, form) for x1, x2, y1, y2 in zip(i1, i2, o1, o2)]
    return r, ids


def scale_shift_days(a, utc_offset_s, jd):
    """generator helper (NOT an oracle): days to add to a UTC-labelled date to get the label in scale a."""
    if a == "utc":
        return Fraction(0)
    tai = Fraction(utc_offset_s) / 86400
    if a == "tai":
        return tai
    if a == "gps":
        return tai - Fraction(19, 86400)
    tt = tai + Fraction(32184, 1000) / 86400
    if a == "tt":
        return tt
    lg = Fraction("6.969290134e-10")
    return tt + lg / (1 - lg) * (jd + tt - Fraction("2443144.5003725"))


def boundary_epochs(rows, a, offs, rng, quick):
    """(jd1, jd2, label) epochs in scale a around every table boundary.  For a != utc both images of the
    boundary (old and new offset) are used and the exact image itself (offset 0) is left out: it is not a
    double, and on which side of the discontinuity a value 1e-11 s away lies is not fixed by the property."""
    out = []
    for k, r in enumerate(rows):
        b = r[0]
        offsets_s = [r[2] + (b - MJD0 - r[3]) * r[4]]
        if k > 0:
            p = rows[k - 1]
            offsets_s.append(p[2] + (b - MJD0 - p[3]) * p[4])
        for o_s in (offsets_s if a != "utc" else [0]):
            sh = scale_shift_days(a, o_s, b)
            for us_ in offs:
                for sg in (1, -1):
                    if us_ == 0 and (sg == -1 or a != "utc"):
                        continue
                    d = sh + Fraction(sg * us_, DAY_US)
                    if d >= 0:
                        jd1, jd2 = b, d
                    else:
                        jd1, jd2 = b - 1, 1 + d
                    out.append((float(jd1), float(jd2), f"boundary[{k}]{'+' if sg > 0 else '-'}{us_}us"))
    return out


def random_epochs(rng, n):
    out = []
    for _ in range(n):
        day = rng.randrange(2437300, 2488070)        # 1961-01-01 .. 2100-01-01
        kind = rng.random()
        if kind < 0.6:
            frac = rng.random()
        elif kind < 0.8:
            frac = rng.randrange(0, 86400) / 86400.0
        else:
            frac = rng.randrange(0, DAY_US) / DAY_US
        out.append((day + 0.5, frac, "random"))
    return out


FORMATS_ALL = ["jd", "mjd", "datetime", "isot", "iso", "yday", "date", "jyear", "decimalyear", "yydddsssss", "yyyydddsssss"]
FORMATS_GPS = ["gps_ws", "gps_seconds"]


def format_value(fmt, day, us_, extra):
    """Input value(s) in format `fmt` for the epoch JD day (x.5) + us_ microseconds (+ `extra` seconds < 1 us where the
    format can carry it).  Returns (val, val2).  Only used to *enter* epochs; the model is evaluated on the (jd1, jd2) the
    constructed Time object holds, so the parsing of the format itself (C02) is not judged here."""
    dt = datetime(2000, 1, 1) + timedelta(days=int(day - 2451544.5), microseconds=int(us_))
    sec = us_ / 1e6 + extra
    if fmt == "jd":
        return day, sec / 86400.0
    if fmt == "mjd":
        return day - 2400000.5, sec / 86400.0
    if fmt == "datetime":
        return dt, None
    if fmt == "isot":
        return dt.strftime("%Y-%m-%dT%H:%M:%S.%f"), None
    if fmt == "iso":
        return dt.strftime("%Y-%m-%d %H:%M:%S.%f"), None
    if fmt == "yday":
        return dt.strftime("%Y:%j:%H:%M:%S.%f"), None
    if fmt == "date":
        return dt.strftime("%Y-%m-%d"), None
    if fmt == "jyear":
        return 2000.0 + ((day - 2451545.0) + sec / 86400.0) / 365.25, None
    if fmt == "decimalyear":
        return dt.year + ((dt - datetime(dt.year, 1, 1)).total_seconds() + extra) / (366 * 86400.0), None
    if fmt == "yydddsssss":
        return dt.strftime("%y:%j:") + f"{dt.hour * 3600 + dt.minute * 60 + dt.second:05d}", None
    if fmt == "yyyydddsssss":
        return dt.strftime("%Y:%j:") + f"{dt.hour * 3600 + dt.minute * 60 + dt.second:05d}", None
    if fmt == "gps_ws":
        d = int(day - 2444244.5)
        week = d // 7
        return float(week), (d - 7 * week) * 86400.0 + sec
    if fmt == "gps_seconds":
        return (day - 2444244.5) * 86400.0 + sec, None
    raise ValueError(fmt)


def format_stream(ctx, log, rows, rng, quick, clear_caches):
    """Stream F: the epoch is entered in every format valid for the source scale (scalar and array forms) and converted to
    every other scale; when the target scale lacks the format (gps_ws / gps_seconds outside gps) to_scale falls back to
    format jd - the two-part Julian date must survive that."""
    import numpy as np
    from midgard.data.time import Time
    n_ep = 4 if quick else 30
    starts = [float(r[0]) for r in rows]
    for a in SCALES:
        fmts = FORMATS_ALL + (FORMATS_GPS if a == "gps" else [])
        for fmt in fmts:
            lo = 2444245 if fmt in FORMATS_GPS else (2440588 if fmt == "yydddsssss" else 2437300)   # yy: 1970..2069 window
            hi = 2476000 if fmt == "yydddsssss" else 2488070
            eps = []
            for _ in range(n_ep):
                day = rng.randrange(lo, hi) + 0.5
                eps.append((day, rng.randrange(0, DAY_US), rng.random() * 1e-6))
            # one epoch close to a leap-second boundary (1 s and 1 ms after/before), never on it
            b = rng.choice([x for x in starts if lo + 1 < x < hi])
            eps.append((b, rng.choice([1000, 10 ** 6]), 0.0))
            eps.append((b - 1.0, DAY_US - rng.choice([1000, 10 ** 6]), 0.0))
            vals = []
            for day, us_, extra in eps:
                try:
                    vals.append(format_value(fmt, day, us_, extra))
                except Exception as e:
                    log.other.append(dict(kind="exception", what="generator format_value", fmt=fmt, error=f"{type(e).__name__}: {e}"))
            objs = []
            # scalar form for every epoch, one array form with all of them (shuffled)
            for v, v2 in vals:
                try:
                    objs.append(("scalar", Time(v, scale=a, fmt=fmt) if v2 is None else Time(v, val2=v2, scale=a, fmt=fmt), repr((v, v2))))
                except Exception as e:
                    ctx.count(f"F:construct-failed(C02):{fmt}:scalar:{type(e).__name__}")
            sh_ = list(vals)
            rng.shuffle(sh_)
            try:
                v = np.array([x[0] for x in sh_])
                if sh_[0][1] is None:
                    objs.append((f"array{len(sh_)}", Time(v, scale=a, fmt=fmt), repr(list(v))))
                else:
                    v2 = np.array([x[1] for x in sh_])
                    objs.append((f"array{len(sh_)}", Time(v, val2=v2, scale=a, fmt=fmt), repr((list(v), list(v2)))))
            except Exception as e:
                ctx.count(f"F:construct-failed(C02):{fmt}:array:{type(e).__name__}")
            for form, t, shown in objs:
                for b_ in SCALES:
                    if b_ == a:
                        continue
                    r, ids = convert(log, t, a, b_, f"{fmt}:{form}", f"Time({shown[:160]}, scale={a!r}, fmt={fmt!r}).{b_}")
                    ctx.count(f"F:{fmt}:{a}->{b_}")
                    for i in ids:
                        ctx.case(("F", fmt, a, b_, log.meta[i]["jd1"], log.meta[i]["jd2"]), nontrivial=True)
                    # one more hop from the converted object (its fmt is the fallback 'jd' when the format is missing in b_)
                    if r is not None and rng.random() < (0.3 if quick else 0.6):
                        c_ = rng.choice([s_ for s_ in SCALES if s_ != b_])
                        convert(log, r, b_, c_, f"{fmt}:{form}:2nd-hop", f"Time({shown[:120]}, scale={a!r}, fmt={fmt!r}).{b_}.{c_}")
            clear_caches()


def check_table(ctx, info):
    """cheap structural facts the Gen files rely on (reported as violations of the tie, not of the property)"""
    from midgard.data import _time
    if len(info["rows"]) != len(_time._TAIUTC):
        ctx.violation(dict(kind="table", what="_taiutc.txt rows differ in number from the loaded _TAIUTC",
                           n_text=len(info["rows"]), n_loaded=len(_time._TAIUTC)), what="loaded table differs from text", found=True)


def run(ctx):
    import numpy as np
    from midgard.data import _time
    info = regen(ctx)
    ok = ctx.prove(THEOREMS)
    check_table(ctx, info)
    rng = ctx.rng
    rows = info["rows"]
    log = Log(ctx)
    quick = ctx.quick()
    same_cases, same_meta = [], []      # property oracle on observables (10 ns), decided in Coq
    rt_cases, rt_meta = [], []

    def clear_caches():
        try:
            _time.TimeBase.to_scale.cache_clear()
            _time.TimeBase.to_format.cache_clear()
        except Exception:
            pass

    # ---- A. every boundary x offsets x 25 pairs (scalar; quick: reduced offsets for non-utc sources)
    for a in SCALES:
        offs = OFFS_US if (a == "utc" or not quick) else [1, 20, 1000, 10 ** 6]
        eps = boundary_epochs(rows, a, offs, rng, quick)
        for jd1, jd2, label in eps:
            form = "scalar" if rng.random() < 0.8 else rng.choice(["len1", "mjd"])
            try:
                t = mk_time(a, jd1, jd2, form)
            except Exception as e:
                log.other.append(dict(kind="exception", what="constructing Time", scale=a, jd1=jd1, jd2=jd2, form=form, error=f"{type(e).__name__}: {e}"))
                continue
            targets = SCALES if (a == "utc" or not quick) else [b for b in SCALES if b != a][: 4]
            for b in targets:
                r, ids = convert(log, t, a, b, form, f"Time(jd1, val2=jd2, scale={a!r}, fmt=...).{b}  [{label}]")
                ctx.count(f"A:{a}->{b}")
                for i in ids:
                    ctx.case(("A", a, b, jd1, jd2), nontrivial=(a != b))
            # round trip utc -> tai -> utc on the implementation
            if a == "utc":
                r1, ids1 = convert(log, t, "utc", "tai", form, f"utc->tai [{label}]")
                if r1 is not None:
                    r2, ids2 = convert(log, r1, "tai", "utc", form, f"utc->tai->utc [{label}]")
                    if r2 is not None:
                        i1, i2, _ = jds_of(t)
                        o1, o2, _ = jds_of(r2)
                        rt_cases.append(emit.pair(emit.pair(emit.dy(i1[0]), emit.dy(i2[0])), emit.pair(emit.dy(o1[0]), emit.dy(o2[0]))))
                        rt_meta.append(dict(kind="roundtrip", route="utc->tai->utc", jd1=i1[0].hex(), jd2=i2[0].hex(), jd2_dec=repr(i2[0]),
                                            back_jd1=o1[0].hex(), back_jd2=o2[0].hex(), back_jd2_dec=repr(o2[0]), label=label,
                                            parts=ids1 + ids2, how="t = Time(jd1, val2=jd2, scale='utc', fmt='jd'); t.tai.utc"))
                        ctx.count("R:utc->tai->utc")
        clear_caches()

    # ---- B. random epochs 1961-2100, all 25 pairs, array form with a permutation (element alignment)
    n_rand = 300 if quick else 6000
    eps = random_epochs(rng, n_rand)
    # plus boundary-near utc epochs mixed in so that one array spans several rows
    near = boundary_epochs(rows, "utc", [1, 50, 10 ** 6], rng, quick)
    rng.shuffle(near)
    eps += near[: (60 if quick else 240)]
    rng.shuffle(eps)
    pos = 0
    while pos < len(eps):
        n = rng.choice([1, 2, 3, 5, 8, 13])
        chunk = eps[pos: pos + n]
        pos += n
        a = rng.choice(SCALES)
        j1 = np.array([c[0] for c in chunk])
        j2 = np.array([c[1] for c in chunk])
        try:
            from midgard.data.time import Time
            t = Time(j1, val2=j2, scale=a, fmt="jd")
        except Exception as e:
            log.other.append(dict(kind="exception", what="constructing Time array", scale=a, error=f"{type(e).__name__}: {e}"))
            continue
        for b in SCALES:
            r, ids = convert(log, t, a, b, f"array{len(chunk)}", f"Time(array jd1, val2=array jd2, scale={a!r}, fmt='jd').{b}")
            ctx.count(f"B:{a}->{b}:n={len(chunk)}")
            for i in ids:
                ctx.case(("B", a, b, log.meta[i]["jd1"], log.meta[i]["jd2"]), nontrivial=(a != b),
                         sample=(log.meta[i] if a != b and len(chunk) > 1 else None))
        clear_caches()

    # ---- F. every input format valid for the source scale
    format_stream(ctx, log, rows, rng, quick, clear_caches)

    # ---- C. property oracle on the implementation: A->B->A and A->B->C vs A->C within 10 ns, for A-epochs
    #         that are images of valid UTC instants (never inside an inserted leap second)
    n_c = 25 if quick else 60
    base = random_epochs(rng, n_c) + [e for e in boundary_epochs(rows[13:], "utc", [0, 100, 10 ** 6], rng, quick)][: (35 if quick else 140)]
    rng.shuffle(base)
    triples = [(a, b, c) for a in SCALES for b in SCALES for c in SCALES]
    for jd1, jd2, label in base:
        try:
            u = mk_time("utc", jd1, jd2, "scalar")
        except Exception as e:
            continue
        picks = triples if not quick else rng.sample(triples, 15)
        starts = {}
        for a, b, c in picks:
            if a not in starts:
                ta, ids_a = convert(log, u, "utc", a, "scalar", f"utc->{a} [{label}]")
                starts[a] = (ta, ids_a)
            ta, ids_a = starts[a]
            if ta is None:
                continue
            tb, ids_b = convert(log, ta, a, b, "scalar", f"{a}->{b} [{label}]")
            if tb is None:
                continue
            tc, ids_c = convert(log, tb, b, c, "scalar", f"{a}->{b}->{c} [{label}]")
            td, ids_d = convert(log, ta, a, c, "scalar", f"{a}->{c} [{label}]")
            if tc is None or td is None:
                continue
            p1, p2, _ = jds_of(tc)
            q1, q2, _ = jds_of(td)
            same_cases.append(emit.pair(emit.pair(emit.dy(p1[0]), emit.dy(p2[0])), emit.pair(emit.dy(q1[0]), emit.dy(q2[0]))))
            a1, a2, _ = jds_of(ta)
            same_meta.append(dict(kind="path_independence", route=f"{a}->{b}->{c} vs {a}->{c}", utc_jd1=jd1, utc_jd2=jd2,
                                  start_jd1=a1[0].hex(), start_jd2=a2[0].hex(), via=[p1[0].hex(), p2[0].hex()], direct=[q1[0].hex(), q2[0].hex()],
                                  parts=ids_a + ids_b + ids_c + ids_d, label=label,
                                  how=f"u = Time({jd1!r}, val2={jd2!r}, scale='utc', fmt='jd'); x = u.{a}; x.{b}.{c} versus x.{c}"))
            ctx.count("C:triple")
        clear_caches()

    # ---- thorough: microsecond sweeps around every boundary (utc -> tai and back)
    if not quick:
        for k, r in enumerate(rows):
            b = float(r[0])
            sweep = [(b, us_ / DAY_US) for us_ in range(0, 120)] + [(b - 1.0, 1.0 - us_ / DAY_US) for us_ in range(1, 120)]
            sweep += [(b, ms * 1000 / DAY_US) for ms in range(1, 2000, 13)] + [(b - 1.0, 1.0 - ms * 1000 / DAY_US) for ms in range(1, 2000, 13)]
            j1 = np.array([s[0] for s in sweep])
            j2 = np.array([s[1] for s in sweep])
            from midgard.data.time import Time
            t = Time(j1, val2=j2, scale="utc", fmt="jd")
            r1, ids1 = convert(log, t, "utc", "tai", "sweep", f"sweep around boundary[{k}] utc->tai")
            if r1 is not None:
                r2, ids2 = convert(log, r1, "tai", "utc", "sweep", f"sweep around boundary[{k}] utc->tai->utc")
            for i in ids1:
                ctx.case(("S", k, log.meta[i]["jd1"], log.meta[i]["jd2"]), nontrivial=True)
            ctx.count("S:sweep", len(sweep))
            clear_caches()

    # ---------------------------------------------------------------- evaluate in Coq
    ctx.log(f"implementation runs done: {len(log.cases)} conversions, {len(rt_cases)} round trips, {len(same_cases)} path cases")
    size = 500
    vs = ctx.coq_cases(emit.shard_terms("check_conv", log.cases, size), REQ)
    flat = emit.flatten_verdicts(vs, len(log.cases))
    vr = ctx.coq_cases(emit.shard_terms("check_rt_utc", rt_cases, 400), REQ)
    flat_rt = emit.flatten_verdicts(vr, len(rt_cases))
    vp = ctx.coq_cases(emit.shard_terms("check_same", same_cases, 500), REQ)
    flat_same = emit.flatten_verdicts(vp, len(same_cases))

    decide(ctx, log, flat, rt_meta, flat_rt, same_meta, flat_same)

    if not ok and not ctx.violations:
        ctx.obligations_broken(lambda: search_failing_input(ctx, rows))
    ctx.trusted += [
        "Coq 8.16.1 kernel, coqc, vm_compute (no native_compute)",
        "hand-written model coq/theories/Model/C01_Scales.v (validated against midgard.data.time by this run's correspondence)",
        "hand-typed oracle coq/theories/Spec/C01_IersTaiUtc.v (IERS TAI-UTC history, defining constants)",
        "harness/drivers/c01.py (regeneration of Gen/C01_*.v, generators, call of the implementation, term emission)",
        "float layer: implementation compared with the exact model on exact doubles within 1 ns (not proved)",
    ]
    ctx.assume += [
        "epochs 1961-01-01 .. 9999-12-30; before 1961 the code silently uses the first table row (np.argmax of all-False), modelled as coded",
        "TAI-like instants inside an inserted leap second and UTC labels skipped by a downward step (1961-08-01, 1968-02-01) are outside the round-trip domain",
        "non-UTC inputs exactly on the image of a table boundary are not generated (not representable as doubles; side of the discontinuity undetermined)",
        "to_scale's lru_cache is C08's subject: caches are cleared between batches",
    ]
    return ctx.finish(
        level="proof",
        rule=("41 table boundaries x +-{0,1,2,5,10,20,50,100,1e3,1e4,1e5,1e6,2e6} us x source scale (utc label; for tai/gps/tt/tcg both images of "
              "the boundary) x target scales; random epochs 1961-2100 (uniform fraction / whole seconds / whole microseconds) in arrays of "
              "1..13 mixed epochs; scalar, length-1, mjd-format and length-n forms; utc->tai->utc round trips and A->B->C vs A->C on the "
              "implementation (10 ns, decided in Coq); thorough adds us/ms sweeps around every boundary. distinct_nontrivial = distinct "
              "(stream, from, to, jd1, jd2) with from != to"),
        extra={"conversions_checked": len(log.cases), "roundtrips_checked": len(rt_cases), "path_cases_checked": len(same_cases)},
    )


QUIRK_FLOAT = "c01_row_by_float_sum"
QUIRK_DRIFT = "c01_inverse_drift_boundary"
WHAT_FLOAT = ("delta_tai_utc selects the TAI-UTC table row with the double jd1+jd2 (40 us resolution): UTC instants within ~20 us before a "
              "table boundary get the next row's offset (2016-12-31 23:59:59.999980 UTC -> TAI-UTC = 37 s instead of 36 s); the same "
              "happens in the provisional-UTC lookup of tai->utc")
WHAT_DRIFT = ("tai->utc (two-step lookup) for the TAI image of a UTC instant within ~25 ns after a stepped boundary of a pre-1972 drift row "
              "falls into the previous row: round trip off by the step (0.05/0.1 s)")


def decide(ctx, log, flat, rt_meta, flat_rt, same_meta, flat_same):
    if log.other:
        for rep in log.other[:3]:
            ctx.violation(rep, what=f"outside the model: {rep.get('kind')} {rep.get('error', '')}")
    if flat is None:
        ctx.violation({"broken": "conversion shards did not evaluate in Coq", "errors": ctx.last_coq_errors[:2]},
                      what="correspondence (model evaluation) failed", found=False)
        return
    n_quirk = 0
    for v, rep in zip(flat, log.meta):
        if v == 0:
            continue
        if v == 5:
            ctx.count("near-discontinuity(non-utc input within 1 ns of a leap-second edge)")
            continue
        if v == 2:
            n_quirk += 1
            ctx.count("quirk:row_by_float_sum")
            ctx.finding(QUIRK_FLOAT, WHAT_FLOAT, add_expectation(ctx, rep))
        elif len(ctx.violations) < 25:
            ctx.violation(add_expectation(ctx, rep), what=f"{rep['from_scale']}->{rep['to_scale']} differs from the model by more than 1 ns "
                          f"(jd1={rep['jd1_dec']}, jd2={rep['jd2_dec']}, observed jd2={rep['observed_jd2_dec']})")
    for name, fl, meta in (("roundtrip", flat_rt, rt_meta), ("path", flat_same, same_meta)):
        if fl is None:
            ctx.violation({"broken": f"{name} shards did not evaluate in Coq", "errors": ctx.last_coq_errors[:2]},
                          what="property-oracle evaluation failed", found=False)
            continue
        for v, rep in zip(fl, meta):
            if v == 0:
                continue
            if v == 4:
                ctx.count("R:outside-domain(skipped UTC label)")
                continue
            part_v = [flat[i] for i in rep["parts"]]
            if any(p == 2 for p in part_v):
                ctx.count("quirk:row_by_float_sum(route)")
                ctx.finding(QUIRK_FLOAT, WHAT_FLOAT, rep)
            elif any(p == 1 for p in part_v):
                pass   # already reported through the constituent conversion
            elif v == 3:
                ctx.count("quirk:inverse_drift_boundary")
                ctx.finding(QUIRK_DRIFT, WHAT_DRIFT, rep)
            elif len(ctx.violations) < 25:
                ctx.violation(rep, what=f"{rep['route']} differs by more than 10 ns")


def add_expectation(ctx, rep):
    ctx._c01_expect = getattr(ctx, "_c01_expect", 0) + 1
    if ctx._c01_expect > 4:
        return rep
    rep = dict(rep)
    try:
        i1 = float.fromhex(rep["jd1"])
        i2 = float.fromhex(rep["jd2"])
        rep["expected_model_days(spec, float_quirk)"] = ctx.coq_eval(
            REQ, f"expect_conv {emit.s(rep['from_scale'])} {emit.s(rep['to_scale'])} {emit.dy(i1)} {emit.dy(i2)}")[-600:]
    except Exception as e:
        rep["expected_error"] = str(e)
    rep["rerun"] = (f"cd {core.REPO} && PYTHONPATH={core.REPO} /venv/bin/python -c \"from midgard.data.time import Time; "
                    f"t=Time(float.fromhex('{rep['jd1']}'), val2=float.fromhex('{rep['jd2']}'), scale='{rep['from_scale']}', fmt='jd'); "
                    f"r=t.{rep['to_scale']}; print(r.jd1, r.jd2, (r.jd1-t.jd1+(r.jd2-t.jd2))*86400)\"")
    return rep


PUBLISHED_DATES = [  # start dates of the published TAI-UTC entries (Spec/C01_IersTaiUtc.v); only used to place search epochs
    (1961, 1, 1), (1961, 8, 1), (1962, 1, 1), (1963, 11, 1), (1964, 1, 1), (1964, 4, 1), (1964, 9, 1), (1965, 1, 1), (1965, 3, 1),
    (1965, 7, 1), (1965, 9, 1), (1966, 1, 1), (1968, 2, 1), (1972, 1, 1), (1972, 7, 1), (1973, 1, 1), (1974, 1, 1), (1975, 1, 1),
    (1976, 1, 1), (1977, 1, 1), (1978, 1, 1), (1979, 1, 1), (1980, 1, 1), (1981, 7, 1), (1982, 7, 1), (1983, 7, 1), (1985, 7, 1),
    (1988, 1, 1), (1990, 1, 1), (1991, 1, 1), (1992, 7, 1), (1993, 7, 1), (1994, 7, 1), (1996, 1, 1), (1997, 7, 1), (1999, 1, 1),
    (2006, 1, 1), (2009, 1, 1), (2012, 7, 1), (2015, 7, 1), (2017, 1, 1)]
REQ_ORACLE = "From Verif Require Import Lib.Dyadic Model.C01_Oracle."


def search_failing_input(ctx, rows):
    """Proof obligations broke and the correspondence found nothing (the model follows the regenerated data): directed search
    with the property oracle stated on the hand-typed Spec only (Model/C01_Oracle.v): TAI-UTC at the start, one second
    before the start, and the middle of every published entry; TAI-GPS, TT-TAI, TCG-TT at a few epochs."""
    from midgard.data.time import Time
    ok, out = core.make(["theories/Model/C01_Oracle.vo"], timeout=600)
    cases, meta = [], []

    def add(kind, a, b, jd1, jd2):
        t = Time(float(jd1), val2=float(jd2), scale=a, fmt="jd")
        r = getattr(t, b)
        cases.append(emit.pair(emit.z(kind), emit.pair(emit.dy(t.jd1), emit.dy(t.jd2)), emit.pair(emit.dy(r.jd1), emit.dy(r.jd2))))
        meta.append(dict(kind="definition", from_scale=a, to_scale=b, jd1=float(t.jd1).hex(), jd2=float(t.jd2).hex(),
                         jd1_dec=repr(float(t.jd1)), jd2_dec=repr(float(t.jd2)), observed_jd2_dec=repr(float(r.jd2)),
                         observed_delta_s=((float(r.jd1) - float(t.jd1)) + (float(r.jd2) - float(t.jd2))) * 86400,
                         what=f"{a}->{b} differs from the published definition (Spec/C01_IersTaiUtc.v) by more than 1 ns",
                         how=f"Time({float(jd1)!r}, val2={float(jd2)!r}, scale={a!r}, fmt='jd').{b}"))

    starts = [(datetime(y, m, d) - datetime(2000, 1, 1)).days + 2451544.5 for y, m, d in PUBLISHED_DATES]
    for k, b in enumerate(starts):
        nxt = starts[k + 1] if k + 1 < len(starts) else b + 3000
        add(0, "utc", "tai", b, 0.0)
        add(0, "utc", "tai", b, 0.5)
        add(0, "utc", "tai", b + (nxt - b) // 2, 0.25)
        add(0, "utc", "tai", nxt - 1, 1 - 1.0 / 86400)
    for jd in (2441317.5, 2451545.0, 2460000.5, 2480000.5):
        add(1, "tai", "gps", jd, 0.125)
        add(2, "tai", "tt", jd, 0.125)
        add(3, "tt", "tcg", jd, 0.125)
    vs = ctx.coq_cases(emit.shard_terms("check_published", cases, 400), REQ_ORACLE)
    flat = emit.flatten_verdicts(vs, len(cases))
    if flat is None:
        return None
    for v, rep in zip(flat, meta):
        if v != 0:
            return rep
    return None


def replay(ctx, path):
    rep = json.load(open(path))
    print(json.dumps(rep, indent=1))
    if rep.get("kind") == "conversion":
        from midgard.data.time import Time
        t = Time(float.fromhex(rep["jd1"]), val2=float.fromhex(rep["jd2"]), scale=rep["from_scale"], fmt="jd")
        r = getattr(t, rep["to_scale"])
        print("implementation now:", r.jd1, r.jd2, " delta [s] =", ((r.jd1 - t.jd1) + (r.jd2 - t.jd2)) * 86400)
        print("model (spec, float-quirk) [days]:",
              ctx.coq_eval(REQ, f"expect_conv {emit.s(rep['from_scale'])} {emit.s(rep['to_scale'])} {emit.dy(t.jd1)} {emit.dy(t.jd2)}"))
    print("re-run: VERIF_SEED=%s /venv/bin/python run_check.py C01 %s" % (rep.get("seed"), rep.get("tier", "quick")))
    import shutil
    shutil.rmtree(ctx.work, ignore_errors=True)
    return 0
